/-
  C09 — circle / polygon regions: the conversion algebra of `AegeanTools/regions.py`
  (`sky2ang`, `sky2vec`, `vec2sky`, the `degin` scaling and NaN mask of `sky_within`) and the
  hand-off of `add_circles` / `add_poly` / `sky_within` to healpy, as executable definitions.
  Mathlib-free.  Numeric code is polymorphic in `{α} [R α]`: run at `Float` by the driver,
  reasoned about at `ℝ` in `Aegean/Proofs/C09*.lean`.

  Arithmetic leaves that the translator regenerates from source (`Gen.C09.*`) enter these
  definitions as *parameters* (`thetaOf`, `scale`, `raOf`, `decOf`), so that the theorems are about
  the regenerated text; the `…Hand` definitions are the hand copies used as translator fallbacks.

  `R` has no order, so the two places where the code compares numbers (`phi[phi < 0] += 2π` inside
  healpy's `vec2ang`, `np.isfinite` in `sky_within`) take the test as a parameter
  (`isNeg`, `finite : α → Bool`): `(· < 0)` / `Float.isFinite` in the driver, and any function that
  agrees with `<` on ℝ in the theorems.
-/
import Aegean.Num

namespace Aegean.Model.C09

structure Vec3 (α : Type) where
  x : α
  y : α
  z : α

section num
variable {α : Type} [R α]

def dot (a b : Vec3 α) : α := a.x * b.x + a.y * b.y + a.z * b.z

/-! ### hand copies of the regenerated leaves (translator fallbacks) -/

/-- `theta_phi[:, 0] = np.pi/2 - theta_phi[:, 0]` of `sky2ang` (column 0 holds dec after the swap) -/
def sky2angThetaHand (col0 : α) : α := R.pi / R.ofNat 2 - col0

/-- `if degin: sky = np.radians(sky)` of `sky_within`, per element -/
def skyWithinScaleHand (degin : Bool) (sky : α) : α := if degin then R.radians sky else sky

/-- `ra = phi; if degrees: ra = np.degrees(ra)` of `vec2sky` -/
def vec2skyRaHand (degrees : Bool) (phi : α) : α := if degrees then R.degrees phi else phi

/-- `dec = np.pi/2 - theta; if degrees: dec = np.degrees(dec)` of `vec2sky` -/
def vec2skyDecHand (degrees : Bool) (theta : α) : α :=
  if degrees then R.degrees (R.pi / R.ofNat 2 - theta) else R.pi / R.ofNat 2 - theta

/-! ### sky2ang / sky2vec / vec2sky -/

/-- `Region.sky2ang` on one row `(ra, dec)`: swap the columns, then `theta = thetaOf dec`.
    Result `(theta, phi)`: **dec → theta, ra → phi**. -/
def sky2ang (thetaOf : α → α) (ra dec : α) : α × α := (thetaOf dec, ra)

/-- healpy's `ang2vec(theta, phi)` (hand model of the third-party three-liner) -/
def ang2vec (theta phi : α) : Vec3 α :=
  ⟨R.sin theta * R.cos phi, R.sin theta * R.sin phi, R.cos theta⟩

/-- `Region.sky2vec` on one row -/
def sky2vec (thetaOf : α → α) (ra dec : α) : Vec3 α :=
  let tp := sky2ang thetaOf ra dec
  ang2vec tp.1 tp.2

/-- healpy's `vec2ang(v)`: `theta = arccos(z/|v|)` (written `π/2 − arcsin`, which is the definition
    of `arccos` over ℝ), `phi = arctan2(y, x)`, `phi[phi < 0] += 2π`. -/
def vec2ang (isNeg : α → Bool) (v : Vec3 α) : α × α :=
  let dnorm := R.sqrt (v.x * v.x + v.y * v.y + v.z * v.z)
  let theta := R.pi / R.ofNat 2 - R.asin (v.z / dnorm)
  let phi := R.atan2 v.y v.x
  (theta, if isNeg phi then phi + R.ofNat 2 * R.pi else phi)

/-- `Region.vec2sky` on one vector: `(ra, dec)` -/
def vec2sky (raOf decOf : Bool → α → α) (isNeg : α → Bool) (degrees : Bool) (v : Vec3 α) : α × α :=
  let tp := vec2ang isNeg v
  (raOf degrees tp.2, decOf degrees tp.1)

/-! ### great-circle separation in radians (what the Spec measures with) -/

/-- haversine argument -/
def havA (ra1 dec1 ra2 dec2 : α) : α :=
  R.npow (R.sin ((dec2 - dec1) / R.ofNat 2)) 2
    + R.cos dec1 * R.cos dec2 * R.npow (R.sin ((ra2 - ra1) / R.ofNat 2)) 2

/-- separation by the haversine formula, radians -/
def sepHav (ra1 dec1 ra2 dec2 : α) : α :=
  R.ofNat 2 * R.asin (R.min (R.ofNat 1) (R.sqrt (havA ra1 dec1 ra2 dec2)))

/-- the cosine of the separation (spherical law of cosines) -/
def cosSep (ra1 dec1 ra2 dec2 : α) : α :=
  R.sin dec1 * R.sin dec2 + R.cos dec1 * R.cos dec2 * R.cos (ra1 - ra2)

/-! ### pixel size, pixel area, cap area -/

/-- `healpy.nside2pixarea(2^d)` = 4π / (12·4^d) steradians -/
def pixArea (d : Nat) : α := R.ofNat 4 * R.pi / (R.ofNat 12 * R.ofNat (4 ^ d))

/-- `healpy.nside2resol(2^d)` = √(pixel area) radians: "one pixel size at depth d" -/
def pixSize (d : Nat) : α := R.sqrt (pixArea d)

/-- area of the spherical cap of angular radius `r`: 2π(1 − cos r) -/
def capArea (r : α) : α := R.ofNat 2 * R.pi * (R.ofNat 1 - R.cos r)

/-! ### the hand-off to healpy -/

/-- one `hp.query_disc(nside, vec, radius, inclusive=…, nest=…)` call -/
structure DiscCall (α : Type) where
  depth : Nat
  nside : Nat
  vec : Vec3 α
  radius : α
  inclusive : Bool
  nest : Bool
  /-- the oversampling factor of healpy's inclusive mode (`fact=`; healpy's default 4 when not passed) -/
  fact : Nat

/-- one `hp.query_polygon(nside, vertices, inclusive=…, nest=…)` call -/
structure PolyCall (α : Type) where
  depth : Nat
  nside : Nat
  verts : List (Vec3 α)
  inclusive : Bool
  nest : Bool
  fact : Nat

/-- one `hp.ang2pix(nside, theta, phi, nest=…)` call -/
structure PixCall (α : Type) where
  nside : Nat
  theta : α
  phi : α
  nest : Bool

end num

/-- hand values of the oversampling factor (translator fallbacks): healpy's default -/
def discFactHand : Nat := 4
def polyFactHand : Nat := 4

/-- `if depth is None or depth > self.maxdepth: depth = self.maxdepth` -/
def clampDepth (maxdepth : Nat) (depth : Option Nat) : Nat :=
  match depth with
  | none => maxdepth
  | some d => if d > maxdepth then maxdepth else d

section calls
variable {α : Type} [R α]

/-- `add_circles` for ONE circle `(ra, dec, radius)` (radians): the `query_disc` call it makes.
    The radius is handed over unchanged (radians), `nside = 2^depth`, nested, inclusive, with the
    oversampling factor `fact` (regenerated from the source; the property leaves it free). -/
def addCircleCall (thetaOf : α → α) (fact : Nat) (maxdepth : Nat) (depth : Option Nat) (ra dec radius : α) : DiscCall α :=
  let d := clampDepth maxdepth depth
  ⟨d, 2 ^ d, sky2vec thetaOf ra dec, radius, true, true, fact⟩

/-- `add_circles` with list arguments: one call per zipped triple, in order (Python's `zip`
    stops at the shortest list) -/
def addCirclesCalls (thetaOf : α → α) (fact : Nat) (maxdepth : Nat) (depth : Option Nat) :
    List α → List α → List α → List (DiscCall α)
  | ra :: ras, dec :: decs, r :: rs =>
      addCircleCall thetaOf fact maxdepth depth ra dec r :: addCirclesCalls thetaOf fact maxdepth depth ras decs rs
  | _, _, _ => []

/-- `add_poly`: fewer than three positions is rejected (`none` = AssertionError); otherwise one
    `query_polygon` call with the vertices in the given order -/
def addPolyCall (thetaOf : α → α) (fact : Nat) (maxdepth : Nat) (depth : Option Nat) (pos : List (α × α)) :
    Option (PolyCall α) :=
  if pos.length ≥ 3 then
    let d := clampDepth maxdepth depth
    some ⟨d, 2 ^ d, pos.map (fun p => sky2vec thetaOf p.1 p.2), true, true, fact⟩
  else none

/-- `sky_within` for one position: `none` = the NaN/inf mask (`result[mask] = False`), otherwise
    the `ang2pix` call at `nside = 2^maxdepth` whose pixel is looked up in the demoted set -/
def skyWithinCall (scale : Bool → α → α) (thetaOf : α → α) (finite : α → Bool)
    (maxdepth : Nat) (degin : Bool) (ra dec : α) : Option (PixCall α) :=
  let tp := sky2ang thetaOf (scale degin ra) (scale degin dec)
  if finite tp.1 && finite tp.2 then some ⟨2 ^ maxdepth, tp.1, tp.2, true⟩ else none

/-- `sky_within` for one position, given healpy's `ang2pix` and the membership test of the
    demoted (deepest-level) pixel set -/
def skyWithin (scale : Bool → α → α) (thetaOf : α → α) (finite : α → Bool)
    (ang2pix : Nat → α → α → Nat) (member : Nat → Bool)
    (maxdepth : Nat) (degin : Bool) (ra dec : α) : Bool :=
  match skyWithinCall scale thetaOf finite maxdepth degin ra dec with
  | none => false
  | some c => member (ang2pix c.nside c.theta c.phi)

end calls

/-! ### the hand-off assembled from regenerated pieces

`depth=None` / `depth=d` is handed to the regenerated integer code as the pair `(isNone, value)`; `nsideOf`, `insertOf`
are the regenerated `2**depth` argument of the healpy query and the depth handed to `add_pixels` (both AFTER the
clamp, as functions of `(isNone, depth, maxdepth)`), `incl`, `nest` the regenerated keyword flags. -/

/-- `None ↦ (1, 0)`, `d ↦ (0, d)` -/
def encDepth : Option Nat → Nat × Nat
  | none => (1, 0)
  | some d => (0, d)

/-- hand copy of the clamp on the encoded depth (translator fallback) -/
def clampHand (isNone depth maxdepth : Nat) : Nat :=
  if isNone = 1 ∨ depth > maxdepth then maxdepth else depth

def nsideHand (isNone depth maxdepth : Nat) : Nat := 2 ^ clampHand isNone depth maxdepth
def withinNsideHand (maxdepth : Nat) : Nat := 2 ^ maxdepth

section glue
variable {α : Type} [R α]

/-- glue: the `query_disc` call of `add_circles` from the regenerated pieces -/
def addCircleCallOf (sky2angOf : α → α → α × α) (fact : Nat) (nsideOf insertOf : Nat → Nat → Nat → Nat) (incl nest : Bool)
    (maxdepth : Nat) (depth : Option Nat) (ra dec radius : α) : DiscCall α :=
  let e := encDepth depth
  let tp := sky2angOf ra dec
  ⟨insertOf e.1 e.2 maxdepth, nsideOf e.1 e.2 maxdepth, ang2vec tp.1 tp.2, radius, incl, nest, fact⟩

/-- glue: the `query_polygon` call of `add_poly` from the regenerated pieces -/
def addPolyCallOf (sky2angOf : α → α → α × α) (fact : Nat) (nsideOf insertOf : Nat → Nat → Nat → Nat) (incl nest : Bool)
    (maxdepth : Nat) (depth : Option Nat) (pos : List (α × α)) : Option (PolyCall α) :=
  if pos.length ≥ 3 then
    let e := encDepth depth
    some ⟨insertOf e.1 e.2 maxdepth, nsideOf e.1 e.2 maxdepth,
      pos.map (fun p => let tp := sky2angOf p.1 p.2; ang2vec tp.1 tp.2), incl, nest, fact⟩
  else none

/-- glue: the `ang2pix` call of `sky_within` from the regenerated pieces -/
def skyWithinCallOf (scale : Bool → α → α) (sky2angOf : α → α → α × α) (finite : α → Bool)
    (nsideOf : Nat → Nat) (nest : Bool) (maxdepth : Nat) (degin : Bool) (ra dec : α) : Option (PixCall α) :=
  let tp := sky2angOf (scale degin ra) (scale degin dec)
  if finite tp.1 && finite tp.2 then some ⟨nsideOf maxdepth, tp.1, tp.2, nest⟩ else none

end glue

/-- membership in the demoted set of a region that holds the pixel set `D` at depth `d`
    (what `_demote_all` produces, property C08): a level-`m` pixel is a member iff its level-`d`
    ancestor `p / 4^(m−d)` is in `D` -/
def demotedMember (d m : Nat) (D : Nat → Bool) (p : Nat) : Bool := D (p / 4 ^ (m - d))

end Aegean.Model.C09
