/-
  C01 — hand model of the *logic* links of the closed loop
        inject (AeRes.make_model conventions)  →  fit (do_lmfit)  →  report (result_to_components).

  The arithmetic leaves are regenerated from the Python source into `Gen.C01.*`
  (`translator/targets/C01.py`); the `…Hand` definitions below are their fall-backs and the
  canonical forms the property file proves the regenerated leaves equal to.

  What is modelled, as coded:
    * `ntwodgaussian_lmfit`  : the model is the sum of the components' Gaussians        (`modelSum`)
    * `do_lmfit.residual`    : `mask = np.where(np.isfinite(data))`, `model − data[mask]`,
                               optionally `.dot(B)`                                       (`maskIdx`, `residual`)
    * what lmfit minimises   : the sum of squares of that vector                          (`sumSq`)
    * `result_to_components` : +1 FITS offset, x/y order, CC2FWHM, `pix2sky_ellipse` (an ORACLE),
                               ×3600, `fix_shape`, `pa_limit`, RA wrap, `int_flux`         (`toComponent`)
    * injection conventions  : `sky2pix_ellipse` (an ORACLE), /3600, FWHM2CC, `xo − 1`     (`inject`)

  Mathlib-free, executable; numeric code polymorphic in `[R α]`.  Order comparisons on `α`
  (`fix_shape`, `pa_limit`, the RA wrap) need `<`/`≤`; they are taken from `[LT α] [LE α]`
  with decidability, which `Float` and (classically) `ℝ` provide.
-/
import Aegean.Num

namespace Aegean.Model.C01

/-! ### fall-backs / canonical forms of the regenerated leaves -/
section Hand
variable {α : Type} [R α]

def gaussHand (x y amp xo yo sx sy theta : α) : α :=
  let sint := R.sin (R.radians theta)
  let cost := R.cos (R.radians theta)
  let xxo := x - xo
  let yyo := y - yo
  let e := R.npow (xxo * cost + yyo * sint) 2 / R.npow sx 2 + R.npow (xxo * sint - yyo * cost) 2 / R.npow sy 2
  amp * R.exp (e * (-(R.ofNat 1) / R.ofNat 2))

/-- `CC2FHWM = 2*sqrt(2*log(2))`, with `ln2` standing for `log 2` -/
def cc2fwhmHand (ln2 : α) : α := R.ofNat 2 * R.sqrt (R.ofNat 2 * ln2)
/-- `FWHM2CC = 1/CC2FHWM` -/
def fwhm2ccHand (ln2 : α) : α := R.ofNat 1 / cc2fwhmHand ln2
def xPixHand (xo xmin : α) : α := xo + xmin + R.ofNat 1
def yPixHand (yo ymin : α) : α := yo + ymin + R.ofNat 1
def p2sArgXHand (xo _yo xmin _ymin : α) : α := xPixHand xo xmin
def p2sArgYHand (_xo yo _xmin ymin : α) : α := yPixHand yo ymin
def p2sArgSxHand (sx _sy cc : α) : α := sx * cc
def p2sArgSyHand (_sx sy cc : α) : α := sy * cc
def p2sArgThetaHand (theta : α) : α := theta
def arcsecHand (v : α) : α := v * R.ofNat 3600
/-- `peak*sx*sy*CC2FHWM**2*pi / get_beamarea_pix` -/
def intFluxHand (amp sx sy cc beamAreaPix : α) : α := amp * sx * sy * R.npow cc 2 * R.pi / beamAreaPix
/-- `get_beamarea_pix`: `a * b * pi` for the pixel psf (a, b) -/
def beamAreaPixHand (a b : α) : α := a * b * R.pi
def s2pArgRaHand (ra _dec _a _b _pa : α) : α := ra
def s2pArgDecHand (_ra dec _a _b _pa : α) : α := dec
def s2pArgAHand (_ra _dec a _b _pa : α) : α := a / R.ofNat 3600
def s2pArgBHand (_ra _dec _a b _pa : α) : α := b / R.ofNat 3600
def s2pArgPaHand (_ra _dec _a _b pa : α) : α := pa
/-! the bounds `estimate_lmfit_parinfo` sets on one component (after fix f929ab2); common inputs:
    `ln2` (ln 2), `f2c` (FWHM2CC), `amp0` (the brightest pixel of the summit), `rms` (the noise at that pixel),
    `ic`/`oc` (innerclip/outerclip), `A`/`B` (major/minor FWHM of the pixel beam), `xs`/`ys` (island box size) -/
/-- `sampling = max(1.05, 2.0 ** (2.0 / pixbeam.b ** 2))`, with `2 ** e = exp(ln2 · e)` -/
def samplingHand (ln2 _f2c _amp0 _rms _ic _oc _A B _xs _ys : α) : α :=
  R.max (R.ofSci 105 true 2) (R.exp (ln2 * (R.ofNat 2 / R.npow B 2)))
/-- `amp > 0`: `amp_min = 0.95 * min(outerclip * rms, amp)` -/
def ampMinPosHand (_ln2 _f2c amp0 rms _ic oc _A _B _xs _ys : α) : α := R.ofSci 95 true 2 * R.min (oc * rms) amp0
/-- `amp > 0`: `amp_max = amp * sampling + innerclip * rms` -/
def ampMaxPosHand (ln2 f2c amp0 rms ic oc A B xs ys : α) : α :=
  amp0 * samplingHand ln2 f2c amp0 rms ic oc A B xs ys + ic * rms
/-- `amp <= 0`: `amp_min = amp * sampling - innerclip * rms` -/
def ampMinNegHand (ln2 f2c amp0 rms ic oc A B xs ys : α) : α :=
  amp0 * samplingHand ln2 f2c amp0 rms ic oc A B xs ys - ic * rms
/-- `amp <= 0`: `amp_max = 0.95 * max(-outerclip * rms, amp)` -/
def ampMaxNegHand (_ln2 _f2c amp0 rms _ic oc _A _B _xs _ys : α) : α := R.ofSci 95 true 2 * R.max (-oc * rms) amp0
/-- `xo_lim = yo_lim = 0.5 * hypot(pixbeam.a, pixbeam.b)`; the bounds are `xo ± xo_lim`, `yo ± yo_lim` -/
def xoLimHand (_ln2 _f2c _amp0 _rms _ic _oc A B _xs _ys : α) : α := R.ofSci 5 true 1 * R.hypot A B
def syInitHand (_ln2 f2c _amp0 _rms _ic _oc _A B _xs _ys : α) : α := B * f2c
/-- `sx = max(pixbeam.a * FWHM2CC, sy * 1.01)` -/
def sxInitHand (_ln2 f2c _amp0 _rms _ic _oc A B _xs _ys : α) : α := R.max (A * f2c) (B * f2c * R.ofSci 101 true 2)
/-- `sx_min = sy_min = sy * 0.8` -/
def sMinHand (_ln2 f2c _amp0 _rms _ic _oc _A B _xs _ys : α) : α := B * f2c * R.ofSci 8 true 1
/-- `sx_max = sy_max = max((max(xsize, ysize) + 1) * sqrt(2) * FWHM2CC, sx * 1.1)` -/
def sMaxHand (ln2 f2c amp0 rms ic oc A B xs ys : α) : α :=
  R.max ((R.max xs ys + R.ofNat 1) * R.sqrt (R.ofNat 2) * f2c)
        (sxInitHand ln2 f2c amp0 rms ic oc A B xs ys * R.ofSci 11 true 1)

/-- AeRes: `elliptical_gaussian(x, y, peak, xo-1, yo-1, sx*FWHM2CC, sy*FWHM2CC, theta)` -/
def renderValHand (f2c peak xo yo sx sy theta x y : α) : α :=
  gaussHand x y peak (xo - R.ofNat 1) (yo - R.ofNat 1) (sx * f2c) (sy * f2c) theta

/-! what `params.add(prefix + NAME, value=, min=, max=)` receives for the five bounded parameters (theta: no limits);
    `xo0, yo0` = the brightest pixel of the summit -/
def pAmpValuePosHand (_ln2 _f2c amp0 _rms _ic _oc _A _B _xs _ys _xo0 _yo0 : α) : α := amp0
def pAmpMinPosHand (ln2 f2c amp0 rms ic oc A B xs ys _xo0 _yo0 : α) : α := ampMinPosHand ln2 f2c amp0 rms ic oc A B xs ys
def pAmpMaxPosHand (ln2 f2c amp0 rms ic oc A B xs ys _xo0 _yo0 : α) : α := ampMaxPosHand ln2 f2c amp0 rms ic oc A B xs ys
def pAmpValueNegHand (_ln2 _f2c amp0 _rms _ic _oc _A _B _xs _ys _xo0 _yo0 : α) : α := amp0
def pAmpMinNegHand (ln2 f2c amp0 rms ic oc A B xs ys _xo0 _yo0 : α) : α := ampMinNegHand ln2 f2c amp0 rms ic oc A B xs ys
def pAmpMaxNegHand (ln2 f2c amp0 rms ic oc A B xs ys _xo0 _yo0 : α) : α := ampMaxNegHand ln2 f2c amp0 rms ic oc A B xs ys
def pXoValueHand (_ln2 _f2c _amp0 _rms _ic _oc _A _B _xs _ys xo0 _yo0 : α) : α := xo0
def pXoMinHand (ln2 f2c amp0 rms ic oc A B xs ys xo0 _yo0 : α) : α := xo0 - xoLimHand ln2 f2c amp0 rms ic oc A B xs ys
def pXoMaxHand (ln2 f2c amp0 rms ic oc A B xs ys xo0 _yo0 : α) : α := xo0 + xoLimHand ln2 f2c amp0 rms ic oc A B xs ys
def pYoValueHand (_ln2 _f2c _amp0 _rms _ic _oc _A _B _xs _ys _xo0 yo0 : α) : α := yo0
def pYoMinHand (ln2 f2c amp0 rms ic oc A B xs ys _xo0 yo0 : α) : α := yo0 - xoLimHand ln2 f2c amp0 rms ic oc A B xs ys
def pYoMaxHand (ln2 f2c amp0 rms ic oc A B xs ys _xo0 yo0 : α) : α := yo0 + xoLimHand ln2 f2c amp0 rms ic oc A B xs ys
def pSxValueHand (ln2 f2c amp0 rms ic oc A B xs ys _xo0 _yo0 : α) : α := sxInitHand ln2 f2c amp0 rms ic oc A B xs ys
def pSxMinHand (ln2 f2c amp0 rms ic oc A B xs ys _xo0 _yo0 : α) : α := sMinHand ln2 f2c amp0 rms ic oc A B xs ys
def pSxMaxHand (ln2 f2c amp0 rms ic oc A B xs ys _xo0 _yo0 : α) : α := sMaxHand ln2 f2c amp0 rms ic oc A B xs ys
def pSyValueHand (ln2 f2c amp0 rms ic oc A B xs ys _xo0 _yo0 : α) : α := syInitHand ln2 f2c amp0 rms ic oc A B xs ys
def pSyMinHand (ln2 f2c amp0 rms ic oc A B xs ys _xo0 _yo0 : α) : α := sMinHand ln2 f2c amp0 rms ic oc A B xs ys
def pSyMaxHand (ln2 f2c amp0 rms ic oc A B xs ys _xo0 _yo0 : α) : α := sMaxHand ln2 f2c amp0 rms ic oc A B xs ys
def sxMinHand (ln2 f2c amp0 rms ic oc A B xs ys : α) : α := sMinHand ln2 f2c amp0 rms ic oc A B xs ys
def syMinHand (ln2 f2c amp0 rms ic oc A B xs ys : α) : α := sMinHand ln2 f2c amp0 rms ic oc A B xs ys
def sxMaxHand (ln2 f2c amp0 rms ic oc A B xs ys : α) : α := sMaxHand ln2 f2c amp0 rms ic oc A B xs ys
def syMaxHand (ln2 f2c amp0 rms ic oc A B xs ys : α) : α := sMaxHand ln2 f2c amp0 rms ic oc A B xs ys
end Hand

/-! ### the fit: model, mask, residual, objective -/

/-- one component's six pixel-space parameters (`c{i}_amp … c{i}_theta`); `theta` in degrees -/
structure Comp (α : Type) where
  amp : α
  xo : α
  yo : α
  sx : α
  sy : α
  theta : α

section Fit
variable {α : Type} [R α]

/-- the pixel model function handed around as a parameter (instantiated with `Gen.C01.gauss`) -/
abbrev GaussFn (α : Type) := α → α → α → α → α → α → α → α → α

def evalComp (G : GaussFn α) (c : Comp α) (x y : α) : α := G x y c.amp c.xo c.yo c.sx c.sy c.theta

/-- `ntwodgaussian_lmfit(params)(x, y)`: `result = g₀; result += g₁; …`  (no components: Python
    returns `None` and the subtraction raises; the model returns 0 and the driver rejects) -/
def modelSum (G : GaussFn α) : List (Comp α) → α → α → α
  | [], _, _ => R.ofNat 0
  | c :: cs, x, y => cs.foldl (fun acc c' => acc + evalComp G c' x y) (evalComp G c x y)

/-- row-major positions of the finite pixels of one row: `np.where(np.isfinite(row))` -/
def rowIdx {β : Type} (i : Nat) : Nat → List (Option β) → List (Nat × Nat × β)
  | _, [] => []
  | j, none :: r => rowIdx i (j + 1) r
  | j, some v :: r => (i, j, v) :: rowIdx i (j + 1) r

/-- `mask = np.where(np.isfinite(data))` together with `data[mask]`: row-major list of
    (row index, column index, value); `none` = a non-finite (masked) pixel -/
def maskFrom {β : Type} : Nat → List (List (Option β)) → List (Nat × Nat × β)
  | _, [] => []
  | i, row :: rest => rowIdx i 0 row ++ maskFrom (i + 1) rest

def maskIdx {β : Type} (img : List (List (Option β))) : List (Nat × Nat × β) := maskFrom 0 img

/-- `model − data[mask]` with `model = f(*mask)`: x is the ROW index, y the COLUMN index -/
def diffVec (G : GaussFn α) (comps : List (Comp α)) (pix : List (Nat × Nat × α)) : List α :=
  pix.map (fun p => modelSum G comps (R.ofNat p.1) (R.ofNat p.2.1) - p.2.2)

def dot : List α → List α → α
  | a :: as, b :: bs => a * b + dot as bs
  | _, _ => R.ofNat 0

/-- `v.dot(B)` for a row vector `v` and a matrix `B` given by its COLUMNS: entry `j` is `Σᵢ vᵢ B[i][j]` -/
def vecMat (v : List α) (Bcols : List (List α)) : List α := Bcols.map (fun col => dot v col)

/-- the vector `residual(params)` returns to lmfit: `model − data[mask]`, or that `.dot(B)` -/
def residual (G : GaussFn α) (comps : List (Comp α)) (img : List (List (Option α)))
    (Bcols : Option (List (List α))) : List α :=
  let d := diffVec G comps (maskIdx img)
  match Bcols with
  | none => d
  | some B => vecMat d B

/-- the objective MINPACK minimises: the sum of squares of the residual vector -/
def sumSq : List α → α
  | [] => R.ofNat 0
  | r :: rs => r * r + sumSq rs

/-- noise-free data on a given mask pattern: pixel (i, j) holds the true model where `keep i j`,
    and is masked (NaN) elsewhere -/
def renderOn (G : GaussFn α) (truth : List (Comp α)) (rows cols : Nat) (keep : Nat → Nat → Bool) :
    List (List (Option α)) :=
  (List.range rows).map (fun i => (List.range cols).map (fun j =>
    if keep i j then some (modelSum G truth (R.ofNat i) (R.ofNat j)) else none))
end Fit

/-! ### the report: `result_to_components`, and the injection conventions -/

/-- a pixel-space ellipse as `sky2pix_ellipse` returns it / `pix2sky_ellipse` takes it:
    centre (x, y) in 1-based (row, column) pixel coordinates, FWHM axes in pixels, angle in degrees -/
structure PixEll (α : Type) where
  x : α
  y : α
  sx : α
  sy : α
  theta : α

/-- a sky ellipse: centre in degrees, axes in DEGREES, position angle East of North in degrees -/
structure SkyEll (α : Type) where
  ra : α
  dec : α
  a : α
  b : α
  pa : α

/-- the two `WCSHelper` ellipse conversions, as oracles (C16 models and proves them) -/
structure EllOracle (α : Type) where
  /-- `pix2sky_ellipse((x, y), sx, sy, theta)` -/
  p2s : PixEll α → SkyEll α
  /-- `sky2pix_ellipse((ra, dec), a, b, pa)` -/
  s2p : SkyEll α → PixEll α

/-- what `result_to_components` writes into a `ComponentSource` (axes in ARCSEC) -/
structure Reported (α : Type) where
  ra : α
  dec : α
  a : α
  b : α
  pa : α
  peak : α
  intFlux : α

section Report
variable {α : Type} [R α] [LT α] [LE α] [DecidableLT α] [DecidableLE α]

/-- `fix_shape`: if a < b swap them and add 90 to pa -/
def fixShape (a b pa : α) : α × α × α :=
  if a < b then (b, a, pa + R.ofNat 90) else (a, b, pa)

/-- `while pa <= -90: pa += 180` with at most `fuel` iterations -/
def paUp : Nat → α → α
  | 0, pa => pa
  | n + 1, pa => if pa ≤ -(R.ofNat 90) then paUp n (pa + R.ofNat 180) else pa

/-- `while pa > 90: pa -= 180` with at most `fuel` iterations -/
def paDown : Nat → α → α
  | 0, pa => pa
  | n + 1, pa => if R.ofNat 90 < pa then paDown n (pa - R.ofNat 180) else pa

/-- `pa_limit`, both loops bounded by `fuel` (the theorems show the value is independent of
    `fuel` once it is large enough, i.e. it is the value of the Python loops) -/
def paLimit (fuel : Nat) (pa : α) : α := paDown fuel (paUp fuel pa)

/-- `if source.ra < 0: source.ra += 360` -/
def raWrap (ra : α) : α := if ra < R.ofNat 0 then ra + R.ofNat 360 else ra

/-- the pixel ellipse `result_to_components` hands to `pix2sky_ellipse` -/
def p2sArgs (cc xmin ymin : α) (fit : Comp α) : PixEll α :=
  ⟨p2sArgXHand fit.xo fit.yo xmin ymin, p2sArgYHand fit.xo fit.yo xmin ymin,
   p2sArgSxHand fit.sx fit.sy cc, p2sArgSyHand fit.sx fit.sy cc, p2sArgThetaHand fit.theta⟩

/-- the per-component body of `result_to_components` (fluxes, position, shape), with the
    island offset (xmin, ymin), the constant CC2FWHM, and the pixel beam area as inputs -/
def toComponent (O : EllOracle α) (fuel : Nat) (cc : α) (beamAreaPix : α → α → α) (xmin ymin : α)
    (fit : Comp α) : Reported α :=
  let e := O.p2s (p2sArgs cc xmin ymin fit)
  let s := fixShape (arcsecHand e.a) (arcsecHand e.b) e.pa
  let ra := raWrap e.ra
  { ra := ra, dec := e.dec, a := s.1, b := s.2.1, pa := paLimit fuel s.2.2, peak := fit.amp,
    intFlux := intFluxHand fit.amp fit.sx fit.sy cc (beamAreaPix ra e.dec) }

/-- `psf_a, psf_b` as reported: `get_skybeam(ra, dec)` = the pixel psf (A, B, Θ) — computed once, at
    the reference pixel — carried to the sky AT THE SOURCE by `pix2sky_ellipse(sky2pix(ra, dec), A, B, Θ)`,
    ×3600.  (`sky2pix(ra, dec)` is the source's pixel position by the point-level inverse law.) -/
def reportedPsf (O : EllOracle α) (xmin ymin : α) (fit : Comp α) (A B Th : α) : α × α :=
  let q := O.p2s ⟨xPixHand fit.xo xmin, yPixHand fit.yo ymin, A, B, Th⟩
  (arcsecHand q.a, arcsecHand q.b)

/-- the injected truth, in the catalogue's units (axes in arcsec) -/
structure Truth (α : Type) where
  ra : α
  dec : α
  a : α
  b : α
  pa : α
  peak : α

/-- AeRes.make_model's conventions: the pixel-space parameters of the Gaussian that renders a
    catalogue entry, in IMAGE array coordinates (0-based) -/
def inject (O : EllOracle α) (f2c : α) (t : Truth α) : Comp α :=
  let p := O.s2p ⟨s2pArgRaHand t.ra t.dec t.a t.b t.pa, s2pArgDecHand t.ra t.dec t.a t.b t.pa,
                  s2pArgAHand t.ra t.dec t.a t.b t.pa, s2pArgBHand t.ra t.dec t.a t.b t.pa,
                  s2pArgPaHand t.ra t.dec t.a t.b t.pa⟩
  { amp := t.peak, xo := p.x - R.ofNat 1, yo := p.y - R.ofNat 1, sx := p.sx * f2c, sy := p.sy * f2c, theta := p.theta }

/-- the same parameters relative to an island whose bounding box starts at (xmin, ymin):
    the fit works on `img[xmin:xmax, ymin:ymax]` -/
def toIsland (xmin ymin : α) (c : Comp α) : Comp α := { c with xo := c.xo - xmin, yo := c.yo - ymin }
end Report

/-! ### `fitting.errors`: the position errors -/
section Errors
variable {α : Type} [R α]

/-- `err_ra, err_dec` as coded: with `ref = pix2sky([xo, yo])` and `offset = pix2sky([xo + err_xo, yo + err_yo])`,
    `err_ra = gcd(ref.ra, ref.dec, offset.ra, ref.dec)` and `err_dec = gcd(ref.ra, ref.dec, ref.ra, offset.dec)`.
    `gcd` (angle_tools.gcd, C17) and `pix2sky` (C16) are parameters. -/
def errRaDec (gcd : α → α → α → α → α) (pix2sky : α → α → α × α) (xo yo errXo errYo : α) : α × α :=
  let ref := pix2sky xo yo
  let off := pix2sky (xo + errXo) (yo + errYo)
  (gcd ref.1 ref.2 off.1 ref.2, gcd ref.1 ref.2 ref.1 off.2)
end Errors

end Aegean.Model.C01
