/-
  C10 — the regenerated pieces (`Gen.C10.*`, written by translator/targets/C10.py from the tree under
  test) collected into a `Pieces` record.  Mathlib-free; used by the driver and by the property file.
-/
import Aegean.Model.C10
import Aegean.Generated.C10

namespace Aegean.Model.C10

/-- the pieces as regenerated from the tree under test -/
def genPieces : Pieces where
  e0 := Gen.C10.idxE0
  e1 := Gen.C10.idxE1
  setCol := Gen.C10.idxSetCol
  setVal := Gen.C10.idxSetVal
  lo := Gen.C10.idxLo
  hi := Gen.C10.idxHi
  total := Gen.C10.idxTotal
  outer := Gen.C10.idxOuter
  inner := Gen.C10.idxInner
  origin := Gen.C10.wcsOrigin 0
  shift := Gen.C10.wcsShift 0
  skyOrder := Gen.C10.skyOrder 0
  skyDegin := Gen.C10.skyDegin 0
  maskBit := Gen.C10.maskBit
  reshape := Gen.C10.applyReshape 0
  blank := Gen.C10.applyBlank 0
  planeCut := Gen.C10.planeCut 0
  planeSame := Gen.C10.planeSame 0
  rowKeep := Gen.C10.rowKeep
  tableArgs := Gen.C10.tableArgs 0
  catalogArgs := Gen.C10.catalogArgs 0

end Aegean.Model.C10
