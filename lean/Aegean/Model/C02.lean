/-
  C02 / C11 — executable model of `source_finder.find_islands` (after repair) on an `H × W` grid.

  Layers
  * numeric: a pixel carries `im`, `bkg`, `rms : Option α` (`none` = blank / non-finite, the
    values numpy filters with NaN comparisons); `snr = |im − bkg| / rms`; a missing value makes
    every comparison false, exactly as a NaN does in `snr >= flood_clip` / `snr > seed_clip`;
  * masks: `Grid` = shape + flood mask `A` + seed mask `Sd`;
  * labelling: `lab : Px → Nat` with `n` labels plays `scipy.ndimage.label(a, ones((3,3)))`;
    the model is *parametric* in it — what it has to satisfy is `Spec.C02.IsLabelling`, and
    `checkLabelling` below is a checker for that predicate (soundness: `Properties.C02.checkLabelling_sound`);
  * `findIslands`: the loop over labels — `find_objects` box, seed test on the island's own pixels,
    region test on the island's own pixels (C11), island mask, `calc_bounding_box`.

  Mathlib-free.  Numeric code polymorphic in `[R α] [Cmp α]`.
-/
import Aegean.Num

namespace Aegean.Model.C02

/-- a pixel, `(row, column)`, 0-based as numpy indexes it -/
abbrev Px := Nat × Nat

/-! ### numeric layer -/

/-- the two comparisons the code uses; for `Float` they are the IEEE ones -/
class Cmp (α : Type) where
  le : α → α → Bool
  lt : α → α → Bool

instance : Cmp Float where
  le a b := a ≤ b
  lt a b := a < b

section numeric
variable {α : Type} [R α] [Cmp α]

/-- `snr = abs(im - bkg) / rms`; blank in ⇒ blank out -/
def snr (im bkg rms : Option α) : Option α :=
  match im, bkg, rms with
  | some i, some b, some r => some (R.abs (i - b) / r)
  | _, _, _ => none

/-- `snr >= clip` (false for a blank pixel) -/
def geClip (s : Option α) (clip : α) : Bool :=
  match s with
  | some x => Cmp.le clip x
  | none => false

/-- `snr > clip` (false for a blank pixel) -/
def gtClip (s : Option α) (clip : α) : Bool :=
  match s with
  | some x => Cmp.lt clip x
  | none => false

end numeric

/-! ### grid, boxes -/

structure Grid where
  H : Nat
  W : Nat
  /-- flood mask `a = snr >= flood_clip` (consulted only inside the grid) -/
  A : Px → Bool
  /-- seed mask `snr > seed_clip` -/
  Sd : Px → Bool

def Grid.inGrid (g : Grid) (p : Px) : Bool := decide (p.1 < g.H) && decide (p.2 < g.W)
/-- inside the image and above the flood threshold -/
def Grid.inA (g : Grid) (p : Px) : Bool := g.inGrid p && g.A p

/-- the grid of an image triple and two thresholds -/
def Grid.ofImages {α : Type} [R α] [Cmp α] (H W : Nat) (im bkg rms : Px → Option α) (flood seed : α) : Grid :=
  { H := H, W := W,
    A := fun p => geClip (snr (im p) (bkg p) (rms p)) flood,
    Sd := fun p => gtClip (snr (im p) (bkg p) (rms p)) seed }

/-- all pixels of an `H × W` image in row-major order -/
def allPx (H W : Nat) : List Px :=
  (List.range H).flatMap (fun r => (List.range W).map (fun c => (r, c)))

/-- half-open box `[rlo, rhi) × [clo, chi)`; `bounding_box = [[rlo, rhi], [clo, chi]]` -/
structure Box where
  rlo : Nat
  rhi : Nat
  clo : Nat
  chi : Nat
  deriving DecidableEq, Repr

def Box.single (p : Px) : Box := ⟨p.1, p.1 + 1, p.2, p.2 + 1⟩
def Box.grow (b : Box) (q : Px) : Box :=
  ⟨min b.rlo q.1, max b.rhi (q.1 + 1), min b.clo q.2, max b.chi (q.2 + 1)⟩
def Box.contains (b : Box) (p : Px) : Bool :=
  decide (b.rlo ≤ p.1) && decide (p.1 < b.rhi) && decide (b.clo ≤ p.2) && decide (p.2 < b.chi)

/-- the pixels of a box in row-major order -/
def boxPx (b : Box) : List Px :=
  (List.range (b.rhi - b.rlo)).flatMap (fun dr =>
    (List.range (b.chi - b.clo)).map (fun dc => (b.rlo + dr, b.clo + dc)))

/-- smallest box around a list of pixels (`find_objects` for one label; `calc_bounding_box`) -/
def boxOf : List Px → Option Box
  | [] => none
  | p :: ps => some (ps.foldl Box.grow (Box.single p))

/-! ### islands -/

structure Island where
  /-- `island.bounding_box` -/
  box : Box
  /-- the island's own pixels (image coordinates, row-major): where `island.mask` is False -/
  pixels : List Px
  /-- the frame the stored mask refers to (the `find_objects` slice) -/
  frame : Box
  deriving DecidableEq, Repr

/-- the pixels carrying label `i`, row-major -/
def labelled (g : Grid) (lab : Px → Nat) (i : Nat) : List Px :=
  (allPx g.H g.W).filter (fun p => lab p == i)

/-- the region constraint on a list of pixels: no region, or one of them is inside -/
def regionOK (inside : Option (Px → Bool)) (l : List Px) : Bool :=
  match inside with
  | none => true
  | some f => l.any f

/-- the loop body of `find_islands` for label `i`, given its `find_objects` box `fb` -/
def islandIn (g : Grid) (lab : Px → Nat) (inside : Option (Px → Bool)) (i : Nat) (fb : Box) :
    Option Island :=
  -- l[box] == i : the island's own pixels inside its box
  let lbl := (boxPx fb).filter (fun p => lab p == i)
  -- ~island_mask = not ((snr < flood) | (l != i))
  let own := (boxPx fb).filter (fun p => g.A p && lab p == i)
  -- seed constraint, then region constraint, both on the island's own pixels
  if lbl.any g.Sd && regionOK inside lbl then
    -- `if not any(isfinite(data_box)): continue`, then calc_bounding_box on the unmasked pixels
    (boxOf own).map (fun b => { box := b, pixels := own, frame := fb })
  else none

/-- one pass of the loop of `find_islands` for label `i` (1-based):
    `f[i-1] = find_objects(l)[i-1]` is the tight box of the pixels labelled `i` -/
def islandOf (g : Grid) (lab : Px → Nat) (inside : Option (Px → Bool)) (i : Nat) : Option Island :=
  (boxOf (labelled g lab i)).bind (islandIn g lab inside i)

/-- `find_islands`: labels `1 … n` in order -/
def findIslands (g : Grid) (lab : Px → Nat) (n : Nat) (inside : Option (Px → Bool)) : List Island :=
  (List.range n).filterMap (fun k => islandOf g lab inside (k + 1))

/-! ### the pinned (defective) variants, kept for the negation witnesses -/

/-- pinned seed test: `np.any(snr[box] > seed_clip)` over the whole box -/
def islandOfPinnedSeed (g : Grid) (lab : Px → Nat) (i : Nat) : Option Island :=
  (boxOf (labelled g lab i)).bind (fun fb =>
    let own := (boxPx fb).filter (fun p => g.A p && lab p == i)
    if (boxPx fb).any g.Sd then
      (boxOf own).map (fun b => { box := b, pixels := own, frame := fb })
    else none)

/-- pinned `calc_bounding_box(bool(nan_to_num(data_box)))`: the box of the own pixels whose image
    value is non-zero -/
def boxPinned (nonzero : Px → Bool) (own : List Px) : Option Box := boxOf (own.filter nonzero)

/-! ### labelling certificate and its checker -/

/-- BFS forest: every flood pixel that is not the root of its label has a parent -/
structure Cert where
  parent : Px → Px
  depth : Px → Nat
  /-- the root pixel of label `i` -/
  root : Nat → Px

/-- the 3×3 neighbourhood of `p` (with `p` itself; truncated subtraction at the border only
    repeats pixels) -/
def nbrs9 (p : Px) : List Px :=
  [(p.1 - 1, p.2 - 1), (p.1 - 1, p.2), (p.1 - 1, p.2 + 1),
   (p.1, p.2 - 1), (p.1, p.2), (p.1, p.2 + 1),
   (p.1 + 1, p.2 - 1), (p.1 + 1, p.2), (p.1 + 1, p.2 + 1)]

/-- 8-adjacency (or equality), decidable form -/
def adj8b (p q : Px) : Bool :=
  decide (p.1 ≤ q.1 + 1) && decide (q.1 ≤ p.1 + 1) && decide (p.2 ≤ q.2 + 1) && decide (q.2 ≤ p.2 + 1)

/-- per-pixel conditions: label 0 exactly off the flood mask; labels in `1..n`; 8-neighbours on the
    mask share the label; a non-root has a parent on the mask, adjacent, same label, smaller depth -/
def checkPx (g : Grid) (lab : Px → Nat) (n : Nat) (cert : Cert) (p : Px) : Bool :=
  if g.A p then
    lab p != 0 && decide (lab p ≤ n) &&
    (nbrs9 p).all (fun q => !(g.inA q) || lab q == lab p) &&
    (p == cert.root (lab p) ||
      (let q := cert.parent p
       g.inA q && adj8b q p && lab q == lab p && decide (cert.depth q < cert.depth p)))
  else lab p == 0

def checkLabelling (g : Grid) (lab : Px → Nat) (n : Nat) (cert : Cert) : Bool :=
  (allPx g.H g.W).all (checkPx g lab n cert)

/-! ### glue for the pieces regenerated from `find_islands` (translator/targets/C02.py → `Gen.C02`)

The regenerated pieces are passed in as arguments, so this file stays independent of the generated one:
`seedScope` (1 = the seed comparison ranges over the island's own pixels, 0 = over its whole box),
`ownLabel i` / `maskLabel i` (the label selecting own pixels / used in the island mask in loop iteration `i`),
`floodTest` / `seedTest` (the two threshold comparisons, over `Int`), `floodFinite` (1 = the flood mask also
requires a finite signal-to-noise). -/

/-- hand fallbacks, used when the slicer reports a piece UNTRANSLATABLE -/
def floodTestHand (s clip : Int) : Bool := decide (clip ≤ s)
def seedTestHand (s clip : Int) : Bool := decide (clip < s)
def floodFiniteHand (_i : Nat) : Nat := 1
def seedScopeHand (_i : Nat) : Nat := 1
def ownLabelHand (i : Nat) : Nat := i + 1
def maskLabelHand (i : Nat) : Nat := i + 1

/-- the loop body with the regenerated selectors: own pixels selected by `ownL`, masked by `maskL`, seed
    comparison over the own pixels iff `scope = 1` -/
def islandInG (scope ownL maskL : Nat) (g : Grid) (lab : Px → Nat) (inside : Option (Px → Bool)) (fb : Box) :
    Option Island :=
  let lbl := (boxPx fb).filter (fun p => lab p == ownL)
  let own := (boxPx fb).filter (fun p => g.A p && lab p == maskL)
  let seedSet := if scope == 1 then lbl else boxPx fb
  if seedSet.any g.Sd && regionOK inside lbl then
    (boxOf own).map (fun b => { box := b, pixels := own, frame := fb })
  else none

/-- `find_islands` assembled from the regenerated pieces: iteration `k` of `for i in range(n)` -/
def findIslandsGen (seedScope ownLabel maskLabel : Nat → Nat) (g : Grid) (lab : Px → Nat) (n : Nat)
    (inside : Option (Px → Bool)) : List Island :=
  (List.range n).filterMap (fun k =>
    (boxOf (labelled g lab (ownLabel k))).bind (islandInG (seedScope k) (ownLabel k) (maskLabel k) g lab inside))

/-- flood / seed masks of an integer-valued signal-to-noise map (`none` = blank / non-finite) through the
    regenerated comparisons; a non-finite pixel is excluded iff `floodFinite = 1` (otherwise `blankOn` says what
    the comparison does with it, which is what the pinned code left to IEEE: `inf >= clip` is true) -/
def gridOfSnr (floodTest seedTest : Int → Int → Bool) (floodFinite : Nat) (blankOn : Px → Bool) (H W : Nat)
    (snr : Px → Option Int) (flood seed : Int) : Grid :=
  { H := H, W := W,
    A := fun p => match snr p with
      | some s => floodTest s flood
      | none => if floodFinite == 1 then false else blankOn p,
    Sd := fun p => match snr p with
      | some s => seedTest s seed
      | none => false }

end Aegean.Model.C02
