/-
  C15 — hand model of `fits_tools.compress` and `fits_tools.expand`.

  The index arithmetic (number of decimation nodes per axis, residuals, node coordinates) is a
  *parameter* of the model: `Gen.C15.nxOf / nyOf / lcxOf / lcyOf / nodeRow / nodeCol` are regenerated
  from the source on every run and plugged in by the driver and by `Properties/C15.lean`.
  So is (deepening round) the keyword arithmetic: `HdrArith` (CRPIX updates, CDELT/CD dispatch and rescale of
  both functions) and `BnArith` (what goes under each BN_* key, which keys give the expanded shape, which keys are
  deleted) are bundles of regenerated functions; `compress` / `expand` are the fixed glue around them.
  Everything else — decimation `[::f, ::f]`, the copy of the last row / column / corner, the checks that
  `scipy.interpolate.RegularGridInterpolator` performs (strictly ascending grid, no point outside
  the grid), its cell search and its bilinear formula, the keyword restore / delete — is written
  here by hand and tied to the code by `harness/corr_C15.py`.

  Images are functions `Nat → Nat → α` (row, column) with explicit dimensions; numbers live in any
  `α` with an instance of `R`: `Float` in the driver, `ℝ` in the theorems.  Mathlib-free; executable.
-/
import Aegean.Num
import Aegean.Py

namespace Aegean.Model.C15

/-! ### fall-backs for the regenerated index arithmetic (used only on UNTRANSLATABLE) -/

/-- `n // f`, plus one if `n % f > 0` -/
def nNodesHand (n f : Nat) : Nat := if n % f > 0 then n / f + 1 else n / f
/-- `(k + int(lc / f)) * f` with the truncated quotient taken in `Nat` -/
def nodeHand (k lc f : Nat) : Nat := (k + lc / f) * f

variable {α : Type} [R α] in
/-- `(CRPIX + f − 1) / f`, `(CRPIX − 1)·f + 1`, `v·f`, `v/f` -/
def crpixC1Hand (c1 _c2 f : α) : α := (c1 + f - R.ofNat 1) / f
variable {α : Type} [R α] in
def crpixC2Hand (_c1 c2 f : α) : α := (c2 + f - R.ofNat 1) / f
variable {α : Type} [R α] in
def crpixE1Hand (c1 _c2 f : α) : α := (c1 - R.ofNat 1) * f + R.ofNat 1
variable {α : Type} [R α] in
def crpixE2Hand (_c1 c2 f : α) : α := (c2 - R.ofNat 1) * f + R.ofNat 1
variable {α : Type} [R α] in
def upHand (v f : α) : α := v * f
variable {α : Type} [R α] in
def dnHand (v f : α) : α := v / f
/-- `if 'CDELTi' in header … elif 'CDi_i' in header … else return None` -/
def keyHand (hasA hasB : Nat) : Nat := if hasA > 0 then 1 else if hasB > 0 then 2 else 0
def bnCfacHand (f _n1 _n2 _lx _ly : Nat) : Nat := f
def bnNpx1Hand (_f n1 _n2 _lx _ly : Nat) : Nat := n1
def bnNpx2Hand (_f _n1 n2 _lx _ly : Nat) : Nat := n2
def bnRpx1Hand (_f _n1 _n2 lx _ly : Nat) : Nat := lx
def bnRpx2Hand (_f _n1 _n2 _lx ly : Nat) : Nat := ly
def outRowsHand (_npx1 npx2 : Nat) : Nat := npx2
def outColsHand (npx1 _npx2 : Nat) : Nat := npx1
def bnDeletedHand (_ : Nat) : Nat := 31
/-- `load_file_or_hdu`: an HDUList (kind 0) is used as it is, anything else (a str, a pathlib.Path, another
    os.PathLike) is a file name and is opened -/
def loadActionHand (kind : Nat) : Nat := if kind = 0 then 0 else 1

/-! ### data -/

/-- the five BANE keywords; `is_compressed` is "all five present" -/
structure BN where
  cfac : Nat
  npx1 : Nat
  npx2 : Nat
  rpx1 : Nat
  rpx2 : Nat
  deriving DecidableEq, Repr

/-- the part of a FITS header the two functions read or write.  Axis 1 = columns, axis 2 = rows. -/
structure Hdr (α : Type) where
  naxis1 : Nat
  naxis2 : Nat
  crpix1 : α
  crpix2 : α
  cdelt1 : Option α
  cd11 : Option α
  cdelt2 : Option α
  cd22 : Option α
  bn : Option BN
  /-- every other card of the header (CD1_2, CD2_1, PCi_j, CROTA2, CRVALi, CTYPEi, …) as
      (keyword, raw value): neither function reads or writes any of them -/
  other : List (String × String)

structure Img (α : Type) where
  rows : Nat
  cols : Nat
  px : Nat → Nat → α

inductive Err
  | badFactor      -- compress: `factor` not a positive int (returns None); expand: BN_CFAC = 0 (ZeroDivisionError)
  | squeezed       -- `np.squeeze` removed an axis of length 1 (or the image is empty): IndexError
  | shapeMismatch  -- `new_data[:nx, :ny] = data[::f, ::f]` would not broadcast: ValueError
  | noScale1       -- neither CDELT1 nor CD1_1 (returns None)
  | noScale2       -- neither CDELT2 nor CD2_2 (returns None)
  | degenerate     -- fewer than two nodes on an axis (not produced by `compress`; not modelled)
  | notAscending   -- RegularGridInterpolator: "points … must be strictly ascending or descending"
  | outOfBounds    -- RegularGridInterpolator: "One of the requested xi is out of bounds"
  deriving DecidableEq, Repr

variable {α : Type} [R α]

/-- the regenerated keyword arithmetic of both functions (`Gen.C15.crpixC1 … dnB2`) -/
structure HdrArith (α : Type) where
  /-- new CRPIX1 / CRPIX2 in compress (C) and expand (E), from (CRPIX1, CRPIX2, factor) -/
  crpixC1 : α → α → α → α
  crpixC2 : α → α → α → α
  crpixE1 : α → α → α → α
  crpixE2 : α → α → α → α
  /-- which scale keyword of axis i is rescaled, from (CDELTi present, CDi_i present): 0 none (refusal),
      1 CDELTi, 2 CDi_i -/
  keyC1 : Nat → Nat → Nat
  keyC2 : Nat → Nat → Nat
  keyE1 : Nat → Nat → Nat
  keyE2 : Nat → Nat → Nat
  /-- the new value of CDELTi (A) / CDi_i (B) in compress (up) and expand (dn), from (value, factor) -/
  upA1 : α → α → α
  upB1 : α → α → α
  upA2 : α → α → α
  upB2 : α → α → α
  dnA1 : α → α → α
  dnB1 : α → α → α
  dnA2 : α → α → α
  dnB2 : α → α → α

/-- the regenerated BN_* bookkeeping: what compress stores under each key (from factor, NAXIS1, NAXIS2, lcx, lcy),
    which keys give the shape of the expanded image, and which keys expand deletes (bit mask, 31 = all five) -/
structure BnArith where
  cfac : Nat → Nat → Nat → Nat → Nat → Nat
  npx1 : Nat → Nat → Nat → Nat → Nat → Nat
  npx2 : Nat → Nat → Nat → Nat → Nat → Nat
  rpx1 : Nat → Nat → Nat → Nat → Nat → Nat
  rpx2 : Nat → Nat → Nat → Nat → Nat → Nat
  outRows : Nat → Nat → Nat
  outCols : Nat → Nat → Nat
  deleted : Nat → Nat

def handHdr : HdrArith α :=
  { crpixC1 := crpixC1Hand, crpixC2 := crpixC2Hand, crpixE1 := crpixE1Hand, crpixE2 := crpixE2Hand,
    keyC1 := keyHand, keyC2 := keyHand, keyE1 := keyHand, keyE2 := keyHand,
    upA1 := upHand, upB1 := upHand, upA2 := upHand, upB2 := upHand,
    dnA1 := dnHand, dnB1 := dnHand, dnA2 := dnHand, dnB2 := dnHand }

def handBn : BnArith :=
  { cfac := bnCfacHand, npx1 := bnNpx1Hand, npx2 := bnNpx2Hand, rpx1 := bnRpx1Hand, rpx2 := bnRpx2Hand,
    outRows := outRowsHand, outCols := outColsHand, deleted := bnDeletedHand }

/-- glue for the keyword dispatch: `key` decides from which keywords are present, `fA` / `fB` give the new value
    of CDELTi / CDi_i.  Code 0 (and a code that names an absent keyword: a KeyError in the code) is a refusal. -/
def scaleWith (key : Nat → Nat → Nat) (fA fB : α → α → α) (fa : α) (cdelt cd : Option α) :
    Option (Option α × Option α) :=
  match key (if cdelt.isSome then 1 else 0) (if cd.isSome then 1 else 0), cdelt, cd with
  | 1, some v, c => some (some (fA v fa), c)
  | 2, c, some v => some (c, some (fB v fa))
  | _, _, _ => none

/-! ### compress -/

/-- which original row (column) the `k`-th compressed row (column) holds: the decimation node `k·f`
    for `k < nn`, and the last original row for the extra row appended at the end -/
def srcIndex (n nn f k : Nat) : Nat := if k < nn then k * f else n - 1

/-- `compress(datafile, factor)`: the new header and the decimated image.
    `nxOf nyOf lcxOf lcyOf : rows → cols → factor → Nat` is the regenerated index arithmetic. -/
def compress (nxOf nyOf lcxOf lcyOf : Nat → Nat → Nat → Nat) (H : HdrArith α) (B : BnArith)
    (f : Nat) (h : Hdr α) (im : Img α) :
    Except Err (Hdr α × Img α) :=
  if f = 0 then .error .badFactor
  else if im.rows < 2 ∨ im.cols < 2 then .error .squeezed
  else
    let nx := nxOf im.rows im.cols f
    let ny := nyOf im.rows im.cols f
    -- data[::f, ::f] has len(range(0, n, f)) rows / columns and must fit new_data[:nx, :ny]
    if (Py.range 0 im.rows f).length ≠ nx ∨ (Py.range 0 im.cols f).length ≠ ny then .error .shapeMismatch
    else
      let fa : α := R.ofNat f
      let lcx := lcxOf im.rows im.cols f
      let lcy := lcyOf im.rows im.cols f
      match scaleWith H.keyC1 H.upA1 H.upB1 fa h.cdelt1 h.cd11 with
      | none => .error .noScale1
      | some (cdelt1, cd11) =>
        match scaleWith H.keyC2 H.upA2 H.upB2 fa h.cdelt2 h.cd22 with
        | none => .error .noScale2
        | some (cdelt2, cd22) =>
          .ok ({ naxis1 := ny + 1, naxis2 := nx + 1,
                 crpix1 := H.crpixC1 h.crpix1 h.crpix2 fa,
                 crpix2 := H.crpixC2 h.crpix1 h.crpix2 fa,
                 cdelt1 := cdelt1, cd11 := cd11, cdelt2 := cdelt2, cd22 := cd22,
                 bn := some { cfac := B.cfac f h.naxis1 h.naxis2 lcx lcy, npx1 := B.npx1 f h.naxis1 h.naxis2 lcx lcy,
                              npx2 := B.npx2 f h.naxis1 h.naxis2 lcx lcy, rpx1 := B.rpx1 f h.naxis1 h.naxis2 lcx lcy,
                              rpx2 := B.rpx2 f h.naxis1 h.naxis2 lcx lcy },
                 other := h.other },
               { rows := nx + 1, cols := ny + 1,
                 px := fun i j => im.px (srcIndex im.rows nx f i) (srcIndex im.cols ny f j) })

/-! ### expand -/

/-- `RegularGridInterpolator`'s cell search (`find_interval_ascending`): the largest `i ≤ top` with
    `g i ≤ x` (and 0 if there is none); called with `top = m - 2` for `m` nodes, so that the cell
    `[g i, g (i+1)]` always exists -/
def findCell (g : Nat → Nat) (x : Nat) : Nat → Nat
  | 0 => 0
  | k + 1 => if g (k + 1) ≤ x then k + 1 else findCell g x k

/-- the normalised distance `(x − g i) / (g (i+1) − g i)` -/
def frac (g : Nat → Nat) (i x : Nat) : α :=
  (R.ofNat x - R.ofNat (g i)) / (R.ofNat (g (i + 1)) - R.ofNat (g i))

/-- `_evaluate_linear` in two dimensions, in the order scipy accumulates the four terms -/
def bilin (v00 v01 v10 v11 ty tx : α) : α :=
  let one : α := R.ofNat 1
  v00 * ((one - ty) * (one - tx)) + v01 * ((one - ty) * tx) + v10 * (ty * (one - tx)) + v11 * (ty * tx)

/-- the interpolated value at pixel `(r, c)` for node coordinates `gr`, `gc` and `mr × mc` node values `v` -/
def interp2 (gr gc : Nat → Nat) (mr mc : Nat) (v : Nat → Nat → α) (r c : Nat) : α :=
  let i := findCell gr r (mr - 2)
  let j := findCell gc c (mc - 2)
  bilin (v i j) (v i (j + 1)) (v (i + 1) j) (v (i + 1) (j + 1)) (frac gr i r) (frac gc j c)

/-- `np.all(p[1:] > p[:-1])` for the `m` node coordinates `g 0 … g (m-1)` -/
def ascending (g : Nat → Nat) (m : Nat) : Bool :=
  (List.range (m - 1)).all (fun k => g k < g (k + 1))

/-- the bounds check of `_prepare_xi` for the query coordinates `0 … n-1` (no query ⇒ no complaint) -/
def covers (g : Nat → Nat) (m n : Nat) : Bool :=
  n = 0 || (g 0 = 0 && n - 1 ≤ g (m - 1))

/-- `expand(datafile)`.  `nodeRow nodeCol : k → BN_RPX1 → BN_RPX2 → factor → Nat` is the regenerated
    node coordinate of the `k`-th compressed row / column. -/
def expand (nodeRow nodeCol : Nat → Nat → Nat → Nat → Nat) (H : HdrArith α) (B : BnArith) (h : Hdr α) (im : Img α) :
    Except Err (Hdr α × Img α) :=
  match h.bn with
  | none => .ok (h, im)                    -- not compressed: returned unchanged
  | some bn =>
    let f := bn.cfac
    if f = 0 then .error .badFactor
    else
      let gr := fun k => nodeRow k bn.rpx1 bn.rpx2 f
      let gc := fun k => nodeCol k bn.rpx1 bn.rpx2 f
      let orows := B.outRows bn.npx1 bn.npx2      -- np.mgrid[0:BN_NPX2, 0:BN_NPX1] on the pinned tree
      let ocols := B.outCols bn.npx1 bn.npx2
      if im.rows < 2 ∨ im.cols < 2 then .error .degenerate
      else if !(ascending gr im.rows && ascending gc im.cols) then .error .notAscending
      else if !(ocols = 0 || orows = 0 || (covers gr im.rows orows && covers gc im.cols ocols))
        then .error .outOfBounds
      else
        let fa : α := R.ofNat f
        match scaleWith H.keyE1 H.dnA1 H.dnB1 fa h.cdelt1 h.cd11 with
        | none => .error .noScale1
        | some (cdelt1, cd11) =>
          match scaleWith H.keyE2 H.dnA2 H.dnB2 fa h.cdelt2 h.cd22 with
          | none => .error .noScale2
          | some (cdelt2, cd22) =>
            .ok ({ naxis1 := ocols, naxis2 := orows,
                   crpix1 := H.crpixE1 h.crpix1 h.crpix2 fa,
                   crpix2 := H.crpixE2 h.crpix1 h.crpix2 fa,
                   cdelt1 := cdelt1, cd11 := cd11, cdelt2 := cdelt2, cd22 := cd22,
                   -- the BN_* cards go only if expand deletes all five of them
                   bn := if B.deleted 0 = 31 then none else some bn, other := h.other },
                 { rows := orows, cols := ocols,
                   px := interp2 gr gc im.rows im.cols im.px })

/-- compress, then expand what came out -/
def roundTrip (nxOf nyOf lcxOf lcyOf : Nat → Nat → Nat → Nat) (nodeRow nodeCol : Nat → Nat → Nat → Nat → Nat)
    (H : HdrArith α) (B : BnArith) (f : Nat) (h : Hdr α) (im : Img α) : Except Err (Hdr α × Img α) :=
  match compress nxOf nyOf lcxOf lcyOf H B f h im with
  | .error e => .error e
  | .ok (hc, c) => expand nodeRow nodeCol H B hc c

end Aegean.Model.C15
