/-
  C15 — hand model of `fits_tools.compress` and `fits_tools.expand`.

  The index arithmetic (number of decimation nodes per axis, residuals, node coordinates) is a
  *parameter* of the model: `Gen.C15.nxOf / nyOf / lcxOf / lcyOf / nodeRow / nodeCol` are regenerated
  from the source on every run and plugged in by the driver and by `Properties/C15.lean`.
  Everything else — decimation `[::f, ::f]`, the copy of the last row / column / corner, the
  CRPIX / CDELT / CD rescale, the BN_* keywords, the checks that
  `scipy.interpolate.RegularGridInterpolator` performs (strictly ascending grid, no point outside
  the grid), its cell search and its bilinear formula, the keyword restore / delete — is written
  here by hand and tied to the code by `harness/corr_C15.py`.

  Images are functions `Nat → Nat → α` (row, column) with explicit dimensions; numbers live in any
  `α` with an instance of `R`: `Float` in the driver, `ℝ` in the theorems.  Mathlib-free; executable.
-/
import Aegean.Num
import Aegean.Py

namespace Aegean.Model.C15

/-! ### fall-backs for the regenerated index arithmetic (used only on UNTRANSLATABLE) -/

/-- `n // f`, plus one if `n % f > 0` -/
def nNodesHand (n f : Nat) : Nat := if n % f > 0 then n / f + 1 else n / f
/-- `(k + int(lc / f)) * f` with the truncated quotient taken in `Nat` -/
def nodeHand (k lc f : Nat) : Nat := (k + lc / f) * f

/-! ### data -/

/-- the five BANE keywords; `is_compressed` is "all five present" -/
structure BN where
  cfac : Nat
  npx1 : Nat
  npx2 : Nat
  rpx1 : Nat
  rpx2 : Nat
  deriving DecidableEq, Repr

/-- the part of a FITS header the two functions read or write.  Axis 1 = columns, axis 2 = rows. -/
structure Hdr (α : Type) where
  naxis1 : Nat
  naxis2 : Nat
  crpix1 : α
  crpix2 : α
  cdelt1 : Option α
  cd11 : Option α
  cdelt2 : Option α
  cd22 : Option α
  bn : Option BN
  /-- every other card of the header (CD1_2, CD2_1, PCi_j, CROTA2, CRVALi, CTYPEi, …) as
      (keyword, raw value): neither function reads or writes any of them -/
  other : List (String × String)

structure Img (α : Type) where
  rows : Nat
  cols : Nat
  px : Nat → Nat → α

inductive Err
  | badFactor      -- compress: `factor` not a positive int (returns None); expand: BN_CFAC = 0 (ZeroDivisionError)
  | squeezed       -- `np.squeeze` removed an axis of length 1 (or the image is empty): IndexError
  | shapeMismatch  -- `new_data[:nx, :ny] = data[::f, ::f]` would not broadcast: ValueError
  | noScale1       -- neither CDELT1 nor CD1_1 (returns None)
  | noScale2       -- neither CDELT2 nor CD2_2 (returns None)
  | degenerate     -- fewer than two nodes on an axis (not produced by `compress`; not modelled)
  | notAscending   -- RegularGridInterpolator: "points … must be strictly ascending or descending"
  | outOfBounds    -- RegularGridInterpolator: "One of the requested xi is out of bounds"
  deriving DecidableEq, Repr

variable {α : Type} [R α]

/-! ### compress -/

/-- which original row (column) the `k`-th compressed row (column) holds: the decimation node `k·f`
    for `k < nn`, and the last original row for the extra row appended at the end -/
def srcIndex (n nn f k : Nat) : Nat := if k < nn then k * f else n - 1

/-- `header[key] *= factor` on whichever of CDELTi / CDi_i the code finds first -/
def scaleUp (fa : α) (cdelt cd : Option α) : Option (Option α × Option α) :=
  match cdelt, cd with
  | some v, c => some (some (v * fa), c)
  | none, some v => some (none, some (v * fa))
  | none, none => none

/-- `header[key] /= factor` on whichever of CDELTi / CDi_i the code finds first -/
def scaleDown (fa : α) (cdelt cd : Option α) : Option (Option α × Option α) :=
  match cdelt, cd with
  | some v, c => some (some (v / fa), c)
  | none, some v => some (none, some (v / fa))
  | none, none => none

/-- `compress(datafile, factor)`: the new header and the decimated image.
    `nxOf nyOf lcxOf lcyOf : rows → cols → factor → Nat` is the regenerated index arithmetic. -/
def compress (nxOf nyOf lcxOf lcyOf : Nat → Nat → Nat → Nat) (f : Nat) (h : Hdr α) (im : Img α) :
    Except Err (Hdr α × Img α) :=
  if f = 0 then .error .badFactor
  else if im.rows < 2 ∨ im.cols < 2 then .error .squeezed
  else
    let nx := nxOf im.rows im.cols f
    let ny := nyOf im.rows im.cols f
    -- data[::f, ::f] has len(range(0, n, f)) rows / columns and must fit new_data[:nx, :ny]
    if (Py.range 0 im.rows f).length ≠ nx ∨ (Py.range 0 im.cols f).length ≠ ny then .error .shapeMismatch
    else
      let fa : α := R.ofNat f
      match scaleUp fa h.cdelt1 h.cd11 with
      | none => .error .noScale1
      | some (cdelt1, cd11) =>
        match scaleUp fa h.cdelt2 h.cd22 with
        | none => .error .noScale2
        | some (cdelt2, cd22) =>
          .ok ({ naxis1 := ny + 1, naxis2 := nx + 1,
                 crpix1 := (h.crpix1 + fa - R.ofNat 1) / fa,
                 crpix2 := (h.crpix2 + fa - R.ofNat 1) / fa,
                 cdelt1 := cdelt1, cd11 := cd11, cdelt2 := cdelt2, cd22 := cd22,
                 bn := some { cfac := f, npx1 := h.naxis1, npx2 := h.naxis2,
                              rpx1 := lcxOf im.rows im.cols f, rpx2 := lcyOf im.rows im.cols f },
                 other := h.other },
               { rows := nx + 1, cols := ny + 1,
                 px := fun i j => im.px (srcIndex im.rows nx f i) (srcIndex im.cols ny f j) })

/-! ### expand -/

/-- `RegularGridInterpolator`'s cell search (`find_interval_ascending`): the largest `i ≤ top` with
    `g i ≤ x` (and 0 if there is none); called with `top = m - 2` for `m` nodes, so that the cell
    `[g i, g (i+1)]` always exists -/
def findCell (g : Nat → Nat) (x : Nat) : Nat → Nat
  | 0 => 0
  | k + 1 => if g (k + 1) ≤ x then k + 1 else findCell g x k

/-- the normalised distance `(x − g i) / (g (i+1) − g i)` -/
def frac (g : Nat → Nat) (i x : Nat) : α :=
  (R.ofNat x - R.ofNat (g i)) / (R.ofNat (g (i + 1)) - R.ofNat (g i))

/-- `_evaluate_linear` in two dimensions, in the order scipy accumulates the four terms -/
def bilin (v00 v01 v10 v11 ty tx : α) : α :=
  let one : α := R.ofNat 1
  v00 * ((one - ty) * (one - tx)) + v01 * ((one - ty) * tx) + v10 * (ty * (one - tx)) + v11 * (ty * tx)

/-- the interpolated value at pixel `(r, c)` for node coordinates `gr`, `gc` and `mr × mc` node values `v` -/
def interp2 (gr gc : Nat → Nat) (mr mc : Nat) (v : Nat → Nat → α) (r c : Nat) : α :=
  let i := findCell gr r (mr - 2)
  let j := findCell gc c (mc - 2)
  bilin (v i j) (v i (j + 1)) (v (i + 1) j) (v (i + 1) (j + 1)) (frac gr i r) (frac gc j c)

/-- `np.all(p[1:] > p[:-1])` for the `m` node coordinates `g 0 … g (m-1)` -/
def ascending (g : Nat → Nat) (m : Nat) : Bool :=
  (List.range (m - 1)).all (fun k => g k < g (k + 1))

/-- the bounds check of `_prepare_xi` for the query coordinates `0 … n-1` (no query ⇒ no complaint) -/
def covers (g : Nat → Nat) (m n : Nat) : Bool :=
  n = 0 || (g 0 = 0 && n - 1 ≤ g (m - 1))

/-- `expand(datafile)`.  `nodeRow nodeCol : k → BN_RPX1 → BN_RPX2 → factor → Nat` is the regenerated
    node coordinate of the `k`-th compressed row / column. -/
def expand (nodeRow nodeCol : Nat → Nat → Nat → Nat → Nat) (h : Hdr α) (im : Img α) :
    Except Err (Hdr α × Img α) :=
  match h.bn with
  | none => .ok (h, im)                    -- not compressed: returned unchanged
  | some bn =>
    let f := bn.cfac
    if f = 0 then .error .badFactor
    else
      let gr := fun k => nodeRow k bn.rpx1 bn.rpx2 f
      let gc := fun k => nodeCol k bn.rpx1 bn.rpx2 f
      if im.rows < 2 ∨ im.cols < 2 then .error .degenerate
      else if !(ascending gr im.rows && ascending gc im.cols) then .error .notAscending
      else if !(bn.npx1 = 0 || bn.npx2 = 0 || (covers gr im.rows bn.npx2 && covers gc im.cols bn.npx1))
        then .error .outOfBounds
      else
        let fa : α := R.ofNat f
        let one : α := R.ofNat 1
        match scaleDown fa h.cdelt1 h.cd11 with
        | none => .error .noScale1
        | some (cdelt1, cd11) =>
          match scaleDown fa h.cdelt2 h.cd22 with
          | none => .error .noScale2
          | some (cdelt2, cd22) =>
            .ok ({ naxis1 := bn.npx1, naxis2 := bn.npx2,
                   crpix1 := (h.crpix1 - one) * fa + one,
                   crpix2 := (h.crpix2 - one) * fa + one,
                   cdelt1 := cdelt1, cd11 := cd11, cdelt2 := cdelt2, cd22 := cd22,
                   bn := none, other := h.other },
                 { rows := bn.npx2, cols := bn.npx1,
                   px := interp2 gr gc im.rows im.cols im.px })

/-- compress, then expand what came out -/
def roundTrip (nxOf nyOf lcxOf lcyOf : Nat → Nat → Nat → Nat) (nodeRow nodeCol : Nat → Nat → Nat → Nat → Nat)
    (f : Nat) (h : Hdr α) (im : Img α) : Except Err (Hdr α × Img α) :=
  match compress nxOf nyOf lcxOf lcyOf f h im with
  | .error e => .error e
  | .ok (hc, c) => expand nodeRow nodeCol hc c

end Aegean.Model.C15
