/-
  C10 — hand model of `MIMAS.mask_plane`, `MIMAS.mask_file` (plane loop), `MIMAS.mask_table` /
  `mask_catalog`, and of the non-finite guard of `Region.sky_within`.  Mathlib-free; executable.

  The two external libraries appear as oracles:
    * `sky : Pix → S`     the image WCS as a function of the **FITS pixel coordinate** (first pixel = 1);
                          astropy's `wcs_pix2world(p, origin)` is `sky (p + (1 − origin))` (`pix2world`);
    * `inside : S → Bool` region membership of a sky position (`Region.sky_within`, itself modelled by
                          `skyWithin` in terms of a finiteness test and healpy's pixel membership).
  Pixel values are an arbitrary type `α` with a designated blank value `nan`; a plane is held the way
  numpy holds it: a flat row-major list of `H·W` values, element `(i, j)` at position `i·W + j`.
-/
import Aegean.Num
import Aegean.Py

namespace Aegean.Model.C10

/-- a pixel coordinate pair as handed to the WCS: `(first axis = x = column, second axis = y = row)` -/
abbrev Pix := Int × Int

/-! ### The index list builder of `mask_plane`

```
indexes = np.empty((H*W, 2), dtype=int)
idx = np.array([(j, 0) for j in range(W)])
j = W
for i in range(H):
    idx[:, 1] = i
    indexes[i*j:(i+1)*j] = idx
```
-/

/-- `idx` after `idx[:, 1] = i` -/
def idxRow (W i : Nat) : List Pix :=
  ((List.range W).map (fun j => (((j : Nat) : Int), (0 : Int)))).map (fun p => (p.1, ((i : Nat) : Int)))

/-- numpy slice assignment `a[lo : lo + len(src)] = src` -/
def setSlice {β : Type} (a : List β) (lo : Nat) (src : List β) : List β :=
  a.take lo ++ src ++ a.drop (lo + src.length)

/-- the loop, started from the uninitialised (`np.empty`) array `junk` -/
def buildIndexes (H W : Nat) (junk : List Pix) : List Pix :=
  (List.range H).foldl (fun acc i => setSlice acc (i * W) (idxRow W i)) junk

/-- what `np.empty` is taken to hold (any content of the right length gives the same result:
    `Properties.C10.buildIndexes_eq`) -/
def emptyIdx (H W : Nat) : List Pix := List.replicate (H * W) (0, 0)

/-- the index list handed to the WCS -/
def indexes (H W : Nat) : List Pix := buildIndexes H W (emptyIdx H W)

/-! ### The WCS call -/

/-- astropy `wcs.wcs_pix2world(p, origin)`: `origin` is the coordinate of the first pixel in the
    caller's convention, the FITS standard's first pixel is 1 -/
def pix2world {S : Type} (sky : Pix → S) (origin : Int) (p : Pix) : S :=
  sky (p.1 + (1 - origin), p.2 + (1 - origin))

/-- the origin literal in the code's call `wcs.wcs_pix2world(indexes, 0)` (the indices are numpy's,
    0-based).  The pinned tree passed 1: see `Properties.C10.origin_one_shifts`. -/
def wcsOrigin : Int := 0

/-! ### `Region.sky_within` (the part that matters here: non-finite positions)

```
mask = ~all(isfinite(theta_phi), axis=1); theta_phi[mask, :] = 0
pix = hp.ang2pix(...); result = np.isin(pix, pixelset); result[mask] = False
```
-/

/-- `finite` : both coordinates finite; `member` : healpy pixel of the position is in the region's
    pixel set; `zero` : the position substituted for non-finite ones before the healpy call -/
def skyWithin {S : Type} (finite member : S → Bool) (zero : S) (s : S) : Bool :=
  let bad := !finite s
  let s' := if bad then zero else s
  let result := member s'
  if bad then false else result

/-! ### `mask_plane` -/

/-- `bigmask`, still flat, for a given origin argument: membership of every index pair,
    complemented unless `negate` -/
def bigmaskO {S : Type} (origin : Int) (sky : Pix → S) (inside : S → Bool) (negate : Bool)
    (H W : Nat) : List Bool :=
  let world := (indexes H W).map (pix2world sky origin)
  let m := world.map inside
  if !negate then m.map (fun b => !b) else m

/-- `bigmask` as the code computes it -/
def bigmask {S : Type} (sky : Pix → S) (inside : S → Bool) (negate : Bool) (H W : Nat) : List Bool :=
  bigmaskO wcsOrigin sky inside negate H W

/-- `data[bigmask] = nan` with `bigmask.reshape(data.shape)`: both are row-major, so the reshape is
    the identity on the flat representation and the assignment is position by position -/
def assignNan {α : Type} (nan : α) (mask : List Bool) (data : List α) : List α :=
  List.zipWith (fun b v => if b then nan else v) mask data

def maskPlane {α S : Type} (nan : α) (sky : Pix → S) (inside : S → Bool) (negate : Bool)
    (H W : Nat) (data : List α) : List α :=
  assignNan nan (bigmask sky inside negate H W) data

/-! ### `mask_file`: every 2-D plane of the (possibly 3-D / 4-D) array, in memory order -/

/-- plane `p` of a flat array whose last two axes are `H × W` -/
def plane {α : Type} (H W : Nat) (data : List α) (p : Nat) : List α :=
  (data.drop (p * (H * W))).take (H * W)

/-- `P` = product of the leading axes (1 for a 2-D image).  Every plane goes through `maskPlane`
    with the same WCS, region and `negate`; the planes are written back in place. -/
def maskFile {α S : Type} (nan : α) (sky : Pix → S) (inside : S → Bool) (negate : Bool)
    (P H W : Nat) (data : List α) : List α :=
  ((List.range P).map (fun p => maskPlane nan sky inside negate H W (plane H W data p))).flatten

/-! ### `mask_table` / `mask_catalog` -/

/-- numpy boolean-mask row selection `table[mask]` -/
def selectMask {β : Type} : List Bool → List β → List β
  | b :: bs, r :: rs => if b then r :: selectMask bs rs else selectMask bs rs
  | _, _ => []

/-- `coord` reads the two coordinate columns (`racol`, `deccol`) of a row -/
def maskTable {Row C : Type} (inside : C → Bool) (coord : Row → C) (negate : Bool)
    (rows : List Row) : List Row :=
  let ins := rows.map (fun r => inside (coord r))
  let mask := if !negate then ins.map (fun b => !b) else ins
  selectMask mask rows

end Aegean.Model.C10
