/-
  C10 — hand model of `MIMAS.mask_plane`, `MIMAS.mask_file` (plane loop), `MIMAS.mask_table` /
  `mask_catalog`, and of the non-finite guard of `Region.sky_within`.  Mathlib-free; executable.

  The two external libraries appear as oracles:
    * `sky : Pix → S`     the image WCS as a function of the **FITS pixel coordinate** (first pixel = 1);
                          astropy's `wcs_pix2world(p, origin)` is `sky (p + (1 − origin))` (`pix2world`);
    * `inside : S → Bool` region membership of a sky position (`Region.sky_within`, itself modelled by
                          `skyWithin` in terms of a finiteness test and healpy's pixel membership).
  Pixel values are an arbitrary type `α` with a designated blank value `nan`; a plane is held the way
  numpy holds it: a flat row-major list of `H·W` values, element `(i, j)` at position `i·W + j`.
-/
import Aegean.Num
import Aegean.Py

namespace Aegean.Model.C10

/-- a pixel coordinate pair as handed to the WCS: `(first axis = x = column, second axis = y = row)` -/
abbrev Pix := Int × Int

/-! ### The index list builder of `mask_plane`

```
indexes = np.empty((H*W, 2), dtype=int)
idx = np.array([(j, 0) for j in range(W)])
j = W
for i in range(H):
    idx[:, 1] = i
    indexes[i*j:(i+1)*j] = idx
```
-/

/-- `idx` after `idx[:, 1] = i` -/
def idxRow (W i : Nat) : List Pix :=
  ((List.range W).map (fun j => (((j : Nat) : Int), (0 : Int)))).map (fun p => (p.1, ((i : Nat) : Int)))

/-- numpy slice assignment `a[lo : lo + len(src)] = src` -/
def setSlice {β : Type} (a : List β) (lo : Nat) (src : List β) : List β :=
  a.take lo ++ src ++ a.drop (lo + src.length)

/-- the loop, started from the uninitialised (`np.empty`) array `junk` -/
def buildIndexes (H W : Nat) (junk : List Pix) : List Pix :=
  (List.range H).foldl (fun acc i => setSlice acc (i * W) (idxRow W i)) junk

/-- what `np.empty` is taken to hold (any content of the right length gives the same result:
    `Properties.C10.buildIndexes_eq`) -/
def emptyIdx (H W : Nat) : List Pix := List.replicate (H * W) (0, 0)

/-- the index list handed to the WCS -/
def indexes (H W : Nat) : List Pix := buildIndexes H W (emptyIdx H W)

/-! ### The WCS call -/

/-- astropy `wcs.wcs_pix2world(p, origin)`: `origin` is the coordinate of the first pixel in the
    caller's convention, the FITS standard's first pixel is 1 -/
def pix2world {S : Type} (sky : Pix → S) (origin : Int) (p : Pix) : S :=
  sky (p.1 + (1 - origin), p.2 + (1 - origin))

/-- the origin literal in the code's call `wcs.wcs_pix2world(indexes, 0)` (the indices are numpy's,
    0-based).  The pinned tree passed 1: see `Properties.C10.origin_one_shifts`. -/
def wcsOrigin : Int := 0

/-! ### `Region.sky_within` (the part that matters here: non-finite positions)

```
mask = ~all(isfinite(theta_phi), axis=1); theta_phi[mask, :] = 0
pix = hp.ang2pix(...); result = np.isin(pix, pixelset); result[mask] = False
```
-/

/-- `finite` : both coordinates finite; `member` : healpy pixel of the position is in the region's
    pixel set; `zero` : the position substituted for non-finite ones before the healpy call -/
def skyWithin {S : Type} (finite member : S → Bool) (zero : S) (s : S) : Bool :=
  let bad := !finite s
  let s' := if bad then zero else s
  let result := member s'
  if bad then false else result

/-! ### `mask_plane` -/

/-- `bigmask`, still flat, for a given origin argument: membership of every index pair,
    complemented unless `negate` -/
def bigmaskO {S : Type} (origin : Int) (sky : Pix → S) (inside : S → Bool) (negate : Bool)
    (H W : Nat) : List Bool :=
  let world := (indexes H W).map (pix2world sky origin)
  let m := world.map inside
  if !negate then m.map (fun b => !b) else m

/-- `bigmask` as the code computes it -/
def bigmask {S : Type} (sky : Pix → S) (inside : S → Bool) (negate : Bool) (H W : Nat) : List Bool :=
  bigmaskO wcsOrigin sky inside negate H W

/-- `data[bigmask] = nan` with `bigmask.reshape(data.shape)`: both are row-major, so the reshape is
    the identity on the flat representation and the assignment is position by position -/
def assignNan {α : Type} (nan : α) (mask : List Bool) (data : List α) : List α :=
  List.zipWith (fun b v => if b then nan else v) mask data

def maskPlane {α S : Type} (nan : α) (sky : Pix → S) (inside : S → Bool) (negate : Bool)
    (H W : Nat) (data : List α) : List α :=
  assignNan nan (bigmask sky inside negate H W) data

/-! ### `mask_file`: every 2-D plane of the (possibly 3-D / 4-D) array, in memory order -/

/-- plane `p` of a flat array whose last two axes are `H × W` -/
def plane {α : Type} (H W : Nat) (data : List α) (p : Nat) : List α :=
  (data.drop (p * (H * W))).take (H * W)

/-- `P` = product of the leading axes (1 for a 2-D image).  Every plane goes through `maskPlane`
    with the same WCS, region and `negate`; the planes are written back in place. -/
def maskFile {α S : Type} (nan : α) (sky : Pix → S) (inside : S → Bool) (negate : Bool)
    (P H W : Nat) (data : List α) : List α :=
  ((List.range P).map (fun p => maskPlane nan sky inside negate H W (plane H W data p))).flatten

/-! ### `mask_table` / `mask_catalog` -/

/-- numpy boolean-mask row selection `table[mask]` -/
def selectMask {β : Type} : List Bool → List β → List β
  | b :: bs, r :: rs => if b then r :: selectMask bs rs else selectMask bs rs
  | _, _ => []

/-- `coord` reads the two coordinate columns (`racol`, `deccol`) of a row -/
def maskTable {Row C : Type} (inside : C → Bool) (coord : Row → C) (negate : Bool)
    (rows : List Row) : List Row :=
  let ins := rows.map (fun r => inside (coord r))
  let mask := if !negate then ins.map (fun b => !b) else ins
  selectMask mask rows

/-! ### Glue over regenerated pieces

`translator/targets/C10.py` slices `mask_plane`, `mask_file`, `mask_table`, `mask_catalog` into small
definitions regenerated from the source on every run (`Gen.C10.*`).  `Pieces` collects them; the
functions below are the fixed, hand-written glue that assembles a model of the code from them.  The
`…Hand` definitions are the fallbacks the generated file uses for a piece the slicer cannot read. -/

def idxE0Hand (j : Nat) : Nat := j
def idxE1Hand (_j : Nat) : Nat := 0
def idxSetColHand (_i : Nat) : Nat := 1
def idxSetValHand (i : Nat) : Nat := i
def idxLoHand (i _nrow ncol : Nat) : Nat := i * ncol
def idxHiHand (i _nrow ncol : Nat) : Nat := (i + 1) * ncol
def idxTotalHand (nrow ncol : Nat) : Nat := nrow * ncol
def idxOuterHand (nrow _ncol : Nat) : Nat := nrow
def idxInnerHand (_nrow ncol : Nat) : Nat := ncol
def wcsOriginHand (_u : Int) : Int := 0
def wcsShiftHand (_u : Int) : Int := 0
def skyOrderHand (_u : Nat) : Nat := 1
def skyDeginHand (_u : Nat) : Nat := 1
def maskBitHand (negate inside : Int) : Int := if negate = 0 then 1 - inside else inside
def applyReshapeHand (_u : Nat) : Nat := 1
def applyBlankHand (_u : Nat) : Nat := 1
def planeCutHand (_u : Int) : Int := -2
def planeSameHand (_u : Int) : Nat := 1
def rowKeepHand (negate inside : Int) : Int := if negate = 0 then 1 - inside else inside
def tableArgsHand (_u : Nat) : Nat := 1
def catalogArgsHand (_u : Nat) : Nat := 1

structure Pieces where
  e0 : Nat → Nat
  e1 : Nat → Nat
  setCol : Nat → Nat
  setVal : Nat → Nat
  lo : Nat → Nat → Nat → Nat
  hi : Nat → Nat → Nat → Nat
  total : Nat → Nat → Nat
  outer : Nat → Nat → Nat
  inner : Nat → Nat → Nat
  origin : Int
  shift : Int
  skyOrder : Nat
  skyDegin : Nat
  maskBit : Int → Int → Int
  reshape : Nat
  blank : Nat
  planeCut : Int
  planeSame : Nat
  rowKeep : Int → Int → Int
  tableArgs : Nat
  catalogArgs : Nat

def handPieces : Pieces where
  e0 := idxE0Hand
  e1 := idxE1Hand
  setCol := idxSetColHand
  setVal := idxSetValHand
  lo := idxLoHand
  hi := idxHiHand
  total := idxTotalHand
  outer := idxOuterHand
  inner := idxInnerHand
  origin := wcsOriginHand 0
  shift := wcsShiftHand 0
  skyOrder := skyOrderHand 0
  skyDegin := skyDeginHand 0
  maskBit := maskBitHand
  reshape := applyReshapeHand 0
  blank := applyBlankHand 0
  planeCut := planeCutHand 0
  planeSame := planeSameHand 0
  rowKeep := rowKeepHand
  tableArgs := tableArgsHand 0
  catalogArgs := catalogArgsHand 0

def bit (b : Bool) : Int := if b then 1 else 0

/-- `idx` inside the row loop: the comprehension, then `idx[:, c] = v` -/
def idxRowP (P : Pieces) (nrow ncol i : Nat) : List Pix :=
  ((List.range (P.inner nrow ncol)).map (fun j => (((P.e0 j : Nat) : Int), ((P.e1 j : Nat) : Int)))).map
    (fun p => if P.setCol i = 0 then (((P.setVal i : Nat) : Int), p.2) else (p.1, ((P.setVal i : Nat) : Int)))

/-- `a[lo:hi] = src` (numpy demands `hi - lo = len(src)`; the model writes `src` and resumes at `hi`) -/
def setSliceP {β : Type} (a : List β) (lo hi : Nat) (src : List β) : List β :=
  a.take lo ++ src ++ a.drop hi

def buildIndexesP (P : Pieces) (nrow ncol : Nat) (junk : List Pix) : List Pix :=
  (List.range (P.outer nrow ncol)).foldl
    (fun acc i => setSliceP acc (P.lo i nrow ncol) (P.hi i nrow ncol) (idxRowP P nrow ncol i)) junk

def indexesP (P : Pieces) (H W : Nat) : List Pix :=
  buildIndexesP P H W (List.replicate (P.total H W) (0, 0))

/-- world coordinates, membership (the two world columns in the order `skyOrder` says; a swapped
    order hands (dec, ra) to `sky_within`, modelled by `swap`), negate logic -/
def bigmaskP {S : Type} (P : Pieces) (swap : S → S) (sky : Pix → S) (inside : S → Bool) (negate : Bool)
    (H W : Nat) : List Bool :=
  let world := (indexesP P H W).map (fun p => pix2world sky P.origin (p.1 + P.shift, p.2 + P.shift))
  let world := if P.skyOrder = 1 then world else world.map swap
  world.map (fun s => P.maskBit (bit negate) (bit (inside s)) == 1)

def maskPlaneP {α S : Type} (P : Pieces) (swap : S → S) (nan other : α) (sky : Pix → S) (inside : S → Bool)
    (negate : Bool) (H W : Nat) (data : List α) : List α :=
  assignNan (if P.blank = 1 then nan else other) (bigmaskP P swap sky inside negate H W) data

/-- the plane loop: `np.ndindex(data.shape[:cut])` with `cut = -2` runs over all leading axes, i.e. over
    the `P` consecutive `H·W` chunks; any other `cut` is not a loop over 2-D planes and the model refuses
    (returns the data untouched, which fails the Spec whenever something has to be blanked) -/
def maskFileP {α S : Type} (P : Pieces) (swap : S → S) (nan other : α) (sky : Pix → S) (inside : S → Bool)
    (negate : Bool) (planes H W : Nat) (data : List α) : List α :=
  if P.planeCut = -2 ∧ P.planeSame = 1 ∧ P.reshape = 1 ∧ P.skyDegin = 1 then
    ((List.range planes).map (fun p => maskPlaneP P swap nan other sky inside negate H W (plane H W data p))).flatten
  else data

def maskTableP {Row C : Type} (P : Pieces) (inside : C → Bool) (coord : Row → C) (negate : Bool)
    (rows : List Row) : List Row :=
  if P.tableArgs = 1 ∧ P.catalogArgs = 1 then
    selectMask (rows.map (fun r => P.rowKeep (bit negate) (bit (inside (coord r))) == 1)) rows
  else []

end Aegean.Model.C10
