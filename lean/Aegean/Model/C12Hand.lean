/-
  C12 — hand-written fallback for the two definitions regenerated from `Region._uniq`
  (used only when the translator reports UNTRANSLATABLE).  Mathlib-free.
-/
import Aegean.Py

namespace Aegean.Model.C12

/-- `int(4**(d+1) + x)` -/
def encodeHand (d x : Nat) : Nat := 4 ^ (d + 1) + x

/-- `range(1, self.maxdepth + 1)` -/
def levelsHand (maxdepth : Nat) : List Nat := Py.range 1 (maxdepth + 1) 1

/-- `range(1, self.maxdepth+1)` in `write_reg` -/
def regLevelsHand (maxdepth : Nat) : List Nat := Py.range 1 (maxdepth + 1) 1

/-- the value of the MOCORDER card -/
def mocOrderHand (maxdepth : Nat) : Nat := maxdepth

end Aegean.Model.C12
