/-
  C08 — the glue model instantiated with the leaves regenerated from `regions.py` (`Gen.C08.*`).
  This is what the driver executes.  Mathlib-free.
-/
import Aegean.Model.C08
import Aegean.Generated.C08

namespace Aegean.Model.C08

def genLeaves : Leaves where
  children := Gen.C08.children
  parent := Gen.C08.parent
  quadHead := Gen.C08.quadHead
  degrade := Gen.C08.degrade
  demoteLevels := Gen.C08.demoteLevels
  renormLevels := Gen.C08.renormLevels
  unionShared := Gen.C08.unionShared
  unionFiner := Gen.C08.unionFiner
  finer := Gen.C08.finer
  areaLevels := Gen.C08.areaLevels
  sameDepthW := Gen.C08.sameDepthW
  sameDepthI := Gen.C08.sameDepthI
  sameDepthX := Gen.C08.sameDepthX

/-- one operation of `regions.Region`: hand-written glue around the regenerated arithmetic -/
def stepGen : Region → Op → Except Err (Region × Obs) := stepL genLeaves

def operandAfterGen : Op → Option Region := operandAfterL genLeaves

def sessStepGen : Session → SessOp → Except SessErr (Session × Obs) := sessStepWith stepGen

end Aegean.Model.C08
