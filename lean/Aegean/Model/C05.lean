/-
  C05 — hand model of priorized fitting (`SourceFinder._refit_islands` and the copy-back half of
  `result_to_components`), for the *repaired* code (integer cut-out bounds).

  The arithmetic / decision leaves are parameters of the model (`Env`): the per-source update of the
  cut-out bounds, the bounds of the three cut-outs, the offsets subtracted from / added to the
  positions, the stage → vary table and the two copy-back guards.  The driver and the property file
  instantiate them with the definitions regenerated from source (`Gen.C05.*`); the `…Hand`
  definitions below are only the translator's fall-backs.

  The optimiser (`lmfit.minimize`) and the error propagation (`fitting.errors`) are uninterpreted
  functions of `Env`; what the theorems need from them is stated as hypotheses (`OptLaw`).
  Mathlib-free; executable.
-/
import Aegean.Num
import Aegean.Py

set_option linter.unusedVariables false

namespace Aegean.Model.C05

/-! ### fall-backs for the regenerated leaves -/

def gaussHand {α : Type} [R α] (x y amp xo yo sx sy theta : α) : α :=
  let sint := R.sin (R.radians theta)
  let cost := R.cos (R.radians theta)
  let xxo := x - xo
  let yyo := y - yo
  let e := R.npow (xxo * cost + yyo * sint) 2 / R.npow sx 2 + R.npow (xxo * sint - yyo * cost) 2 / R.npow sy 2
  amp * R.exp (e * (-(R.ofNat 1) / R.ofNat 2))

def xminStepHand (xmin xmax ymin ymax x y : Int) (xwidth ywidth shape0 shape1 : Nat) : Int :=
  min xmin (max 0 (x - ((xwidth / 2 : Nat) : Int)))
def yminStepHand (xmin xmax ymin ymax x y : Int) (xwidth ywidth shape0 shape1 : Nat) : Int :=
  min ymin (max 0 (y - ((ywidth / 2 : Nat) : Int)))
def xmaxStepHand (xmin xmax ymin ymax x y : Int) (xwidth ywidth shape0 shape1 : Nat) : Int :=
  max xmax (min (shape0 : Int) (x + ((xwidth / 2 : Nat) : Int) + 1))
def ymaxStepHand (xmin xmax ymin ymax x y : Int) (xwidth ywidth shape0 shape1 : Nat) : Int :=
  max ymax (min (shape1 : Int) (y + ((ywidth / 2 : Nat) : Int) + 1))

def varyAmpHand (_stage : Nat) : Bool := true
def varyPosHand (stage : Nat) : Bool := decide (stage ≥ 2)
def varyShapeHand (stage : Nat) : Bool := decide (stage ≥ 3)
def varyFlagsHand (_stage : Nat) : Bool := false
def copyPosErrHand (stage : Nat) : Bool := decide (stage < 2)
def copyShapeErrHand (stage : Nat) : Bool := decide (stage < 3)

/-- fall-back of the regenerated per-source acceptance decision (source_finder.py: `if not 0 <= x < shape[0] or … :
    continue`): `true` = the row is skipped.  `data_finite`, `rms_finite`, `beam_none` are 0/1 encodings of
    `np.isfinite(data[x, y])`, `np.isfinite(rmsimg[x, y])`, `pixbeam is None`. -/
def rejectSrcHand (x y : Int) (shape0 shape1 data_finite rms_finite beam_none : Nat) : Bool :=
  !(decide (0 ≤ x) && decide (x < (shape0 : Int)) && decide (0 ≤ y) && decide (y < (shape1 : Int))
    && decide (data_finite ≠ 0) && decide (rms_finite ≠ 0) && decide (beam_none = 0))

/-- the slip of seeded change C05-11, kept for the negation witness: both indices compared with the number of columns -/
def rejectBothAgainstColumns (x y : Int) (shape0 shape1 data_finite rms_finite beam_none : Nat) : Bool :=
  !(decide (0 ≤ x) && decide (x < (shape1 : Int)) && decide (0 ≤ y) && decide (y < (shape1 : Int))
    && decide (data_finite ≠ 0) && decide (rms_finite ≠ 0) && decide (beam_none = 0))

/-! ### the pinned (defective) float bounds, in half-pixel units

`x - xwidth / 2` is a Python float; all the values involved are integers or half-integers, so the
doubled value is an exact integer (and IEEE doubles represent it exactly).  `xmin2 = 2·xmin`. -/

/-- `2 · min(xmin, max(0, x − xwidth/2))` for one source, starting from `xmin = shape0` -/
def pinnedXmin2 (shape0 : Nat) (x : Int) (xwidth : Nat) : Int :=
  min (2 * (shape0 : Int)) (max 0 (2 * x - (xwidth : Int)))
/-- `int(xmin)`: the first row of the data cut-out `data[int(xmin): …]` (truncation = floor for `xmin ≥ 0`) -/
def pinnedSliceX0 (shape0 : Nat) (x : Int) (xwidth : Nat) : Int := pinnedXmin2 shape0 x xwidth / 2
/-- twice the difference between the offset subtracted from `xo` (`xmin`) and the offset of the data
    (`int(xmin)`): the misregistration of model and data, in half pixels -/
def pinnedMisreg2 (shape0 : Nat) (x : Int) (xwidth : Nat) : Int :=
  pinnedXmin2 shape0 x xwidth - 2 * pinnedSliceX0 shape0 x xwidth

/-- the same witness in IEEE doubles, as the pinned code computes it -/
def pinnedXminFloat (shape0 : Nat) (x : Nat) (xwidth : Nat) : Float :=
  let c := Float.ofNat x - Float.ofNat xwidth / 2.0
  let m := if c > 0.0 then c else 0.0
  if m < Float.ofNat shape0 then m else Float.ofNat shape0
def pinnedMisregFloat (shape0 x xwidth : Nat) : Float :=
  pinnedXminFloat shape0 x xwidth - Float.ofNat (Float.toUInt64 (pinnedXminFloat shape0 x xwidth)).toNat

/-! ### data -/

/-- the six parameters of one Gaussian component -/
structure Par (α : Type) where
  amp : α
  xo : α
  yo : α
  sx : α
  sy : α
  theta : α
  deriving Repr, BEq

/-- the input uncertainties that the copy-back may restore -/
structure Errs (α : Type) where
  ra : α
  dec : α
  a : α
  b : α
  pa : α
  deriving Repr, BEq

/-- one catalogue row as `_refit_islands` sees it after `sky2pix` / `sky2pix_ellipse`:
    `x, y` are `int(round(source_x))`, `int(round(source_y))`; `xw, yw` are `xwidth, ywidth`;
    `p` holds `peak_flux, source_x, source_y, sx, sy, theta` (0-based image pixel coordinates) -/
structure Src (α : Type) where
  uuid : Nat
  flags : Nat
  x : Int
  y : Int
  xw : Nat
  yw : Nat
  p : Par α
  e : Errs α

/-- the image as far as the acceptance test reads it -/
structure Img where
  n0 : Nat
  n1 : Nat
  /-- `np.isfinite(data[x, y]) and np.isfinite(rmsimg[x, y])` -/
  finite : Int → Int → Bool

/-- source_finder.py:1670-1676 — the source is used iff its rounded pixel is inside the image and
    both the image and the rms map are finite there -/
def accepted {α : Type} (im : Img) (s : Src α) : Bool :=
  decide (0 ≤ s.x) && decide (s.x < (im.n0 : Int)) && decide (0 ≤ s.y) && decide (s.y < (im.n1 : Int))
    && im.finite s.x s.y

structure Box where
  xmin : Int
  xmax : Int
  ymin : Int
  ymax : Int
  deriving Repr, BEq, DecidableEq

structure Vary where
  amp : Bool
  xo : Bool
  yo : Bool
  sx : Bool
  sy : Bool
  theta : Bool
  deriving Repr, BEq, DecidableEq

def Vary.none : Vary := ⟨false, false, false, false, false, false⟩
def Vary.count (v : Vary) : Nat :=
  v.amp.toNat + v.xo.toNat + v.yo.toNat + v.sx.toNat + v.sy.toNat + v.theta.toNat

/-- one `cN_*` block of the lmfit parameter set -/
structure Comp (α : Type) where
  p : Par α
  v : Vary
  flags : Nat

abbrev StepFn := Int → Int → Int → Int → Int → Int → Nat → Nat → Nat → Nat → Int
abbrev BoxFn := Int → Int → Int → Int → Int

def PRIORIZED : Nat := 64
def FIXED2PSF : Nat := 4
def NOTFIT : Nat := 16

/-- everything the model takes from the code (regenerated) or leaves uninterpreted (numerics) -/
structure Env (α : Type) where
  xminStep : StepFn
  xmaxStep : StepFn
  yminStep : StepFn
  ymaxStep : StepFn
  /-- offsets subtracted from `xo` / `yo` (`.value -= xmin`) -/
  subX : BoxFn
  subY : BoxFn
  /-- first row / column of the data cut-out -/
  sliceX0 : BoxFn
  sliceY0 : BoxFn
  /-- offsets added back by `result_to_components` (`island_data.offsets`) -/
  addX : BoxFn
  addY : BoxFn
  varyAmp : Nat → Bool
  varyXo : Nat → Bool
  varyYo : Nat → Bool
  varySx : Nat → Bool
  varySy : Nat → Bool
  varyTheta : Nat → Bool
  copyPosErr : Nat → Bool
  copyShapeErr : Nat → Bool
  xoLocal : α → α → α → α → α
  yoLocal : α → α → α → α → α
  xPix : α → α → α → α → α
  yPix : α → α → α → α → α
  ofInt : Int → α
  nan : α
  /-- some finite pixel within the central 3×3 of the component's (local) position -/
  hasData : Box → Par α → Bool
  /-- number of unmasked finite pixels in the cut-out -/
  nPix : Box → List (Comp α) → Nat
  /-- `do_lmfit` + `covar_errors`: the fitted parameters, one block per component -/
  opt : Box → List (Comp α) → List (Par α)
  /-- `fitting.errors`: the uncertainties of a fitted component -/
  fitErr : Box → Par α → Vary → Errs α

/-- one measured component, in 1-based FITS pixel coordinates as handed to `pix2sky_ellipse` -/
structure Out (α : Type) where
  uuid : Nat
  flags : Nat
  p : Par α
  e : Errs α

section
variable {α : Type}

def Box.init (im : Img) : Box := ⟨im.n0, 0, im.n1, 0⟩

/-- source_finder.py:1709-1712, one source -/
def boxStep (env : Env α) (im : Img) (b : Box) (s : Src α) : Box :=
  { xmin := env.xminStep b.xmin b.xmax b.ymin b.ymax s.x s.y s.xw s.yw im.n0 im.n1
    ymin := env.yminStep b.xmin b.xmax b.ymin b.ymax s.x s.y s.xw s.yw im.n0 im.n1
    xmax := env.xmaxStep b.xmin b.xmax b.ymin b.ymax s.x s.y s.xw s.yw im.n0 im.n1
    ymax := env.ymaxStep b.xmin b.xmax b.ymin b.ymax s.x s.y s.xw s.yw im.n0 im.n1 }

def bounds (env : Env α) (im : Img) (inc : List (Src α)) : Box := inc.foldl (boxStep env im) (Box.init im)

def varyOf (env : Env α) (stage : Nat) : Vary :=
  ⟨env.varyAmp stage, env.varyXo stage, env.varyYo stage, env.varySx stage, env.varySy stage, env.varyTheta stage⟩

/-- source_finder.py:1717-1751 — the block added for one accepted source (image coordinates) -/
def mkComp (env : Env α) (stage : Nat) (s : Src α) : Comp α := ⟨s.p, varyOf env stage, 0⟩

/-- the state of the per-source loop: running bounds, parameter blocks, `included_sources` -/
structure Acc (α : Type) where
  box : Box
  comps : List (Comp α)
  inc : List (Src α)

/-- source_finder.py:1653-1754 — one iteration: a rejected source `continue`s before anything is touched -/
def loopStep (env : Env α) (im : Img) (stage : Nat) (acc : Acc α) (s : Src α) : Acc α :=
  if accepted im s then
    { box := boxStep env im acc.box s, comps := acc.comps ++ [mkComp env stage s], inc := acc.inc ++ [s] }
  else acc

def loop (env : Env α) (im : Img) (stage : Nat) (isle : List (Src α)) : Acc α :=
  isle.foldl (loopStep env im stage) ⟨Box.init im, [], []⟩

/-- source_finder.py:1770-1779 — positions become relative to the cut-out -/
def toLocal (env : Env α) (b : Box) (c : Comp α) : Comp α :=
  let ox := env.ofInt (env.subX b.xmin b.xmax b.ymin b.ymax)
  let oy := env.ofInt (env.subY b.xmin b.xmax b.ymin b.ymax)
  { c with p := { c.p with xo := env.xoLocal c.p.xo c.p.yo ox oy, yo := env.yoLocal c.p.xo c.p.yo ox oy } }

/-- source_finder.py:1823-1847 — a component with no finite pixel in its central 3×3 is not fitted -/
def dataCheck (env : Env α) (b : Box) (c : Comp α) : Comp α :=
  if env.hasData b c.p then c
  else { p := { c.p with amp := env.nan }, v := Vary.none, flags := c.flags ||| NOTFIT }

def nfree (cs : List (Comp α)) : Nat := (cs.map (fun c => c.v.count)).sum

/-- source_finder.py:1851-1898 — `none` = the island is skipped (`continue`) -/
def fitIsland (env : Env α) (b : Box) (cs : List (Comp α)) : Option (List (Par α)) :=
  if nfree cs < 1 then some (cs.map (·.p))
  else if env.nPix b cs < nfree cs then none
  else some (env.opt b cs)

/-- `result_to_components` for one block: the island offsets are added back, the flags are
    `isflags | cN_flags` -/
def toOut (env : Env α) (b : Box) (isflags : Nat) (pc : Par α × Comp α) : Out α :=
  let ox := env.ofInt (env.addX b.xmin b.xmax b.ymin b.ymax)
  let oy := env.ofInt (env.addY b.xmin b.xmax b.ymin b.ymax)
  { uuid := 0
    flags := isflags ||| pc.2.flags
    p := { pc.1 with xo := env.xPix pc.1.xo pc.1.yo ox oy, yo := env.yPix pc.1.xo pc.1.yo ox oy }
    e := env.fitErr b pc.1 pc.2.v }

/-- source_finder.py:1913-1933 — uuid, PRIORIZED, and the input uncertainties of what was not fitted -/
def copyBack (env : Env α) (stage : Nat) (ns : Out α) (s : Src α) : Out α :=
  let f1 := ns.flags ||| PRIORIZED
  let f2 := if env.copyPosErr stage then f1 ||| FIXED2PSF else f1
  let e1 : Errs α := if env.copyPosErr stage then { ns.e with ra := s.e.ra, dec := s.e.dec } else ns.e
  let e2 : Errs α := if env.copyShapeErr stage then { e1 with a := s.e.a, b := s.e.b, pa := s.e.pa } else e1
  { uuid := s.uuid, flags := f2, p := ns.p, e := e2 }

/-- the flags handed to `result_to_components` are those of the loop variable `src` after the loop,
    i.e. of the **last** row of the island (accepted or not) -/
def isFlags (isle : List (Src α)) : Nat := (isle.getLast?.map (·.flags)).getD 0

/-- the second half of one island, from the loop's final state -/
def finish (env : Env α) (stage : Nat) (isflags : Nat) (acc : Acc α) : List (Out α) :=
  if acc.inc.isEmpty then [] else
  let b := acc.box
  let cs := (acc.comps.map (toLocal env b)).map (dataCheck env b)
  match fitIsland env b cs with
  | none => []
  | some ps => List.zipWith (copyBack env stage) ((ps.zip cs).map (toOut env b isflags)) acc.inc

/-- `_refit_islands` on one island -/
def refitIsland (env : Env α) (im : Img) (stage : Nat) (isle : List (Src α)) : List (Out α) :=
  finish env stage (isFlags isle) (loop env im stage isle)

/-- `_refit_islands` on a group of islands, and `priorized_fit_islands` over all groups -/
def refitAll (env : Env α) (im : Img) (stage : Nat) (groups : List (List (Src α))) : List (Out α) :=
  (groups.map (refitIsland env im stage)).flatten

end

end Aegean.Model.C05
