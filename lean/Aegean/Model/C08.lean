/-
  C08 — executable model of `AegeanTools.regions.Region` (the multi-resolution HEALPix pixel
  dictionary, its aliasing `demoted` cache, and every operation that reads or writes them).
  Mathlib-free.  Healpy is not modelled: circles / polygons reach the model as the pixel list
  that `hp.query_disc` / `hp.query_polygon` returned to the real code.

  The model is of the *repaired* code (fixes/C08-01 … C08-03):
    * `//` (not `/`) in `_renorm` and in `union` with a finer region,
    * `add_pixels` resets the `demoted` cache,
    * `_demote_all` ends with `self.demoted = pd[self.maxdepth]` (so maxdepth = 1 works).

  Python sets are modelled by duplicate-free lists (every constructed list goes through `dedup`
  or is a `filter` of a duplicate-free list); order is irrelevant and is canonicalised (sorted)
  only when printing.
-/
import Aegean.Py

namespace Aegean.Model.C08

/-- a Python `set` built from a list: drop repeated elements -/
def dedup : List Nat → List Nat
  | [] => []
  | a :: l => if a ∈ l then dedup l else a :: dedup l

/-- `set((4*p, 4*p+1, 4*p+2, 4*p+3))` -/
def children (p : Nat) : List Nat := [4 * p, 4 * p + 1, 4 * p + 2, 4 * p + 3]

/--
  `maxdepth`, `pixeldict` (level ↦ set of nested pixel ids) and the aliasing of `demoted`:
  `cached = true`  ⇔ the attribute `demoted` *is* the set object `pixeldict[maxdepth]`
                     (what `_demote_all` leaves behind),
  `cached = false` ⇔ `demoted` is a fresh empty set (after `__init__`, `_renorm`, `add_pixels`).
-/
structure Region where
  m : Nat
  pd : Nat → List Nat
  cached : Bool

/-- `Region(maxdepth)` -/
def empty (m : Nat) : Region := ⟨m, fun _ => [], false⟩

/-- `pd[d] = l` -/
def setLevel (pd : Nat → List Nat) (d : Nat) (l : List Nat) : Nat → List Nat :=
  fun k => if k = d then l else pd k

/-- `add_pixels(pix, depth)`: `pixeldict[depth].update(set(pix))`, cache reset (fix C08-02). -/
def addPixels (r : Region) (ps : List Nat) (d : Nat) : Region :=
  { r with pd := setLevel r.pd d (dedup (r.pd d ++ ps)), cached := false }

/-- one iteration of the loop in `_demote_all`: push level `d` into level `d+1`, clear level `d` -/
def demoteStep (pd : Nat → List Nat) (d : Nat) : Nat → List Nat :=
  setLevel (setLevel pd (d + 1) (dedup (pd (d + 1) ++ (pd d).flatMap children))) d []

/-- iterations `d, d+1, …, d+n-1` of that loop -/
def demoteLoop (pd : Nat → List Nat) : Nat → Nat → Nat → List Nat
  | _, 0 => pd
  | d, n + 1 => demoteLoop (demoteStep pd d) (d + 1) n

/-- the value of `len(self.demoted) == 0` -/
def cacheEmpty (r : Region) : Bool := !r.cached || (r.pd r.m).isEmpty

/-- `_demote_all()`: does nothing when the cached view is non-empty -/
def demoteAll (r : Region) : Region :=
  if cacheEmpty r then { r with pd := demoteLoop r.pd 1 (r.m - 1), cached := true } else r

/-- all four siblings of `x` (its quad `4⌊x/4⌋ … 4⌊x/4⌋+3`) are in `l` -/
def complete (l : List Nat) (x : Nat) : Bool :=
  l.contains (4 * (x / 4)) && l.contains (4 * (x / 4) + 1) &&
  l.contains (4 * (x / 4) + 2) && l.contains (4 * (x / 4) + 3)

/-- the parents that iteration `d` of the `_renorm` loop adds one level up (`p // 4`) -/
def promoted (l : List Nat) : List Nat :=
  (l.filter (fun p => p % 4 == 0 && complete l p)).map (· / 4)

/-- iteration `d` of the loop in `_renorm`: complete sibling quads leave level `d`, their parent
    joins level `d-1` -/
def renormStep (pd : Nat → List Nat) (d : Nat) : Nat → List Nat :=
  setLevel (setLevel pd d ((pd d).filter (fun x => !complete (pd d) x)))
    (d - 1) (dedup (pd (d - 1) ++ promoted (pd d)))

/-- iterations `d, d-1, …` (`n` of them) -/
def renormLoop (pd : Nat → List Nat) : Nat → Nat → Nat → List Nat
  | _, 0 => pd
  | d, n + 1 => renormLoop (renormStep pd d) (d - 1) n

/-- `_renorm()`: reset cache, demote everything, then `for d in range(maxdepth, 2, -1)`, reset cache -/
def renorm (r : Region) : Region :=
  let r1 := demoteAll { r with cached := false }
  { r1 with pd := renormLoop r1.pd r.m (r.m - 2), cached := false }

/-! ### evaluation only: tabulated versions, proved equal and installed with `@[csimp]`

  `pd` is a function; after a few loop iterations it is a tower of closures and compiled code re-runs
  the whole tower on every access (time exponential in the depth).  The versions below compute the
  same functions (`demoteAll_eq_fast`, `renorm_eq_fast`) but store each intermediate dictionary as a
  table for levels `0..m`.  Theorems are stated about `demoteAll` / `renorm`; only the evaluator sees
  the tabulated code. -/

def lookupFn (tbl : List (List Nat)) (f : Nat → List Nat) (k : Nat) : List Nat :=
  match tbl[k]? with
  | some l => l
  | none => f k

theorem lookupFn_tab (m : Nat) (f : Nat → List Nat) : lookupFn ((List.range (m + 1)).map f) f = f := by
  funext k
  simp only [lookupFn, List.getElem?_map]
  by_cases h : k < m + 1
  · simp [h]
  · simp [h]

def demoteLoopFast (m : Nat) (pd : Nat → List Nat) : Nat → Nat → Nat → List Nat
  | _, 0 => pd
  | d, n + 1 =>
    demoteLoopFast m (lookupFn ((List.range (m + 1)).map (demoteStep pd d)) (demoteStep pd d)) (d + 1) n

theorem demoteLoopFast_eq (m : Nat) : ∀ (n d : Nat) (pd : Nat → List Nat),
    demoteLoopFast m pd d n = demoteLoop pd d n
  | 0, _, _ => rfl
  | n + 1, d, pd => by
    simp only [demoteLoopFast, demoteLoop, lookupFn_tab]
    exact demoteLoopFast_eq m n (d + 1) (demoteStep pd d)

def renormLoopFast (m : Nat) (pd : Nat → List Nat) : Nat → Nat → Nat → List Nat
  | _, 0 => pd
  | d, n + 1 =>
    renormLoopFast m (lookupFn ((List.range (m + 1)).map (renormStep pd d)) (renormStep pd d)) (d - 1) n

theorem renormLoopFast_eq (m : Nat) : ∀ (n d : Nat) (pd : Nat → List Nat),
    renormLoopFast m pd d n = renormLoop pd d n
  | 0, _, _ => rfl
  | n + 1, d, pd => by
    simp only [renormLoopFast, renormLoop, lookupFn_tab]
    exact renormLoopFast_eq m n (d - 1) (renormStep pd d)

def demoteAllFast (r : Region) : Region :=
  if cacheEmpty r then
    { r with pd := lookupFn ((List.range (r.m + 1)).map (demoteLoopFast r.m r.pd 1 (r.m - 1)))
                     (demoteLoopFast r.m r.pd 1 (r.m - 1)), cached := true }
  else r

@[csimp] theorem demoteAll_eq_fast : @demoteAll = @demoteAllFast := by
  funext r
  simp only [demoteAll, demoteAllFast, lookupFn_tab, demoteLoopFast_eq]

def renormFast (r : Region) : Region :=
  let r1 := demoteAll { r with cached := false }
  { r1 with pd := lookupFn ((List.range (r.m + 1)).map (renormLoopFast r.m r1.pd r.m (r.m - 2)))
                    (renormLoopFast r.m r1.pd r.m (r.m - 2)), cached := false }

@[csimp] theorem renorm_eq_fast : @renorm = @renormFast := by
  funext r
  simp only [renorm, renormFast, lookupFn_tab, renormLoopFast_eq]

/-- the levels of a finer operand below our own deepest level, degraded with `p // 4**(d-maxdepth)` -/
def degraded (m : Nat) (o : Region) : List Nat :=
  (List.range' (m + 1) (o.m - m)).flatMap (fun d => (o.pd d).map (· / 4 ^ (d - m)))

/-- `union(other, renorm=False)` -/
def unionRaw (r o : Region) : Region :=
  let k := min r.m o.m
  let pd1 : Nat → List Nat := fun d => if 1 ≤ d ∧ d ≤ k then dedup (r.pd d ++ o.pd d) else r.pd d
  let pd2 := if r.m < o.m then setLevel pd1 r.m (dedup (pd1 r.m ++ degraded r.m o)) else pd1
  { r with pd := pd2, cached := if 1 ≤ k then false else r.cached }

inductive Err
  | assertion   -- "Regions must have the same maxdepth"
  | badDepth    -- outside the modelled domain: a level that is not in 1..maxdepth
  deriving DecidableEq, Repr

/-- the part shared by `without` / `intersect` / `symmetric_difference`: both sides are demoted,
    the deepest level is combined with the operand's, then `_renorm` -/
def combineWith (f : List Nat → List Nat → List Nat) (r o : Region) : Except Err Region :=
  if r.m ≠ o.m then .error .assertion else
    let r1 := demoteAll r
    let o1 := demoteAll o
    .ok (renorm { r1 with pd := setLevel r1.pd r.m (f (r1.pd r.m) (o1.pd o1.m)) })

def diffL (a b : List Nat) : List Nat := a.filter (fun x => !b.contains x)
def interL (a b : List Nat) : List Nat := a.filter (fun x => b.contains x)
def symL (a b : List Nat) : List Nat := diffL a b ++ diffL b a

/-- area in units of one deepest-level pixel: `Σ_d len(pixeldict[d]) · 4^(maxdepth-d)` -/
def area (r : Region) : Nat :=
  ((List.range' 1 r.m).map (fun d => (r.pd d).length * 4 ^ (r.m - d))).sum

inductive Op
  /-- the public primitive `add_pixels` on its own (does not normalise) -/
  | addRaw (ps : List Nat) (d : Nat)
  /-- what `add_circles` / `add_poly` / `mask2mim` do: `add_pixels` (healpy's list) then `_renorm` -/
  | add (ps : List Nat) (d : Nat)
  | renorm
  | union (o : Region) (renorm : Bool)
  | without (o : Region)
  | intersect (o : Region)
  | symdiff (o : Region)
  | getDemoted
  | area
  /-- `sky_within` of a position inside deepest-level pixel `q` (`hp.ang2pix` is the oracle) -/
  | within (q : Nat)
  /-- `save` then `load` (pickle keeps the aliasing of `demoted`) -/
  | saveLoad

inductive Obs
  | none
  | pixels (l : List Nat)
  | area (n : Nat)
  | answer (b : Bool)

def step (r : Region) : Op → Except Err (Region × Obs)
  | .addRaw ps d => if 1 ≤ d ∧ d ≤ r.m then .ok (addPixels r ps d, .none) else .error .badDepth
  | .add ps d => if 1 ≤ d ∧ d ≤ r.m then .ok (renorm (addPixels r ps d), .none) else .error .badDepth
  | .renorm => .ok (renorm r, .none)
  | .union o b => .ok (if b then renorm (unionRaw r o) else unionRaw r o, .none)
  | .without o => (combineWith diffL r o).map (·, .none)
  | .intersect o => (combineWith interL r o).map (·, .none)
  | .symdiff o => (combineWith symL r o).map (·, .none)
  | .getDemoted => let r1 := demoteAll r; .ok (r1, .pixels (r1.pd r1.m))
  | .area => .ok (r, .area (area r))
  | .within q => let r1 := demoteAll r; .ok (r1, .answer ((r1.pd r1.m).contains q))
  | .saveLoad => .ok (r, .none)

/-- what the operation leaves in the *operand* object (`other.get_demoted()` demotes it) -/
def operandAfter : Op → Option Region
  | .union o _ => some o
  | .without o | .intersect o | .symdiff o => some (demoteAll o)
  | _ => none

/-- a whole history: an `AssertionError` leaves the region as it was and the caller carries on -/
def run (r : Region) : List Op → Region × List (Except Err Obs)
  | [] => (r, [])
  | op :: ops =>
    match step r op with
    | .ok (r', o) => let (rf, os) := run r' ops; (rf, .ok o :: os)
    | .error e => let (rf, os) := run r ops; (rf, .error e :: os)

/-! ### the abstraction, executably -/

/-- the `4^k` deepest-level descendants of pixel `p`, `k` levels down -/
def desc (k p : Nat) : List Nat := (List.range (4 ^ k)).map (fun i => p * 4 ^ k + i)

/-- every deepest-level pixel the region covers, level by level (with repetition iff some patch
    of sky is represented twice) -/
def absList (r : Region) : List Nat :=
  (List.range' 1 r.m).flatMap (fun d => (r.pd d).flatMap (desc (r.m - d)))

/-- decidable membership: is deepest-level pixel `q` covered by some stored pixel? -/
def covers (r : Region) (q : Nat) : Bool :=
  (List.range' 1 r.m).any (fun d => (r.pd d).contains (q / 4 ^ (r.m - d)))

/-! ### `MIMAS.combine_regions` is a fold of `step` in the documented order -/

structure Container where
  maxdepth : Nat
  addRegion : List Region
  remRegion : List Region
  /-- one entry per `+c` option: the union of healpy's pixel lists for its circles -/
  includeCircles : List (List Nat)
  excludeCircles : List (List Nat)
  includePolygons : List (List Nat)
  excludePolygons : List (List Nat)

/-- a fresh `Region(maxdepth)` with one `add_circles` / `add_poly` applied -/
def fresh (m : Nat) (ps : List Nat) : Region := renorm (addPixels (empty m) ps m)

def combineOps (c : Container) : List Op :=
  c.addRegion.map (fun o => .union o true) ++
  c.remRegion.map .without ++
  c.includeCircles.map (fun ps => .add ps c.maxdepth) ++
  c.excludeCircles.map (fun ps => .without (fresh c.maxdepth ps)) ++
  c.includePolygons.map (fun ps => .add ps c.maxdepth) ++
  c.excludePolygons.map (fun ps => .without (fresh c.maxdepth ps))

/-- like `run`, but the first exception aborts (nobody catches it inside `combine_regions`) -/
def runE (r : Region) : List Op → Except Err Region
  | [] => .ok r
  | op :: ops =>
    match step r op with
    | .ok (r', _) => runE r' ops
    | .error e => .error e

def combineRegions (c : Container) : Except Err Region :=
  runE (empty c.maxdepth) (combineOps c)

/-! ### the same model with its arithmetic leaves and loop ranges as parameters

  `Leaves` collects every expression and loop range of `regions.py` that the translator regenerates
  (`Gen.C08.*`, see `Model/C08Gen.lean`); the functions below are the fixed hand-written glue around them.
  `Proofs/C08Leaves.lean` proves `stepL canon = step`, so every theorem about `step` is a theorem about the
  glue instantiated with leaves that meet their obligations (`Properties.C08.gen_leaves_canon`). -/

structure Leaves where
  children : Nat → List Nat
  parent : Nat → Nat
  quadHead : Nat → Bool
  degrade : Nat → Nat → Nat → Nat
  demoteLevels : Nat → List Nat
  renormLevels : Nat → List Nat
  unionShared : Nat → Nat → List Nat
  unionFiner : Nat → Nat → List Nat
  finer : Nat → Nat → Bool
  areaLevels : Nat → List Nat
  sameDepthW : Nat → Nat → Bool
  sameDepthI : Nat → Nat → Bool
  sameDepthX : Nat → Nat → Bool

def demoteStepL (L : Leaves) (pd : Nat → List Nat) (d : Nat) : Nat → List Nat :=
  setLevel (setLevel pd (d + 1) (dedup (pd (d + 1) ++ (pd d).flatMap L.children))) d []

def demoteAllL (L : Leaves) (r : Region) : Region :=
  if cacheEmpty r then { r with pd := (L.demoteLevels r.m).foldl (demoteStepL L) r.pd, cached := true } else r

def promotedL (L : Leaves) (l : List Nat) : List Nat :=
  (l.filter (fun p => L.quadHead p && complete l p)).map L.parent

def renormStepL (L : Leaves) (pd : Nat → List Nat) (d : Nat) : Nat → List Nat :=
  setLevel (setLevel pd d ((pd d).filter (fun x => !complete (pd d) x)))
    (d - 1) (dedup (pd (d - 1) ++ promotedL L (pd d)))

def renormL (L : Leaves) (r : Region) : Region :=
  let r1 := demoteAllL L { r with cached := false }
  { r1 with pd := (L.renormLevels r.m).foldl (renormStepL L) r1.pd, cached := false }

/-- evaluation only: a fold that tabulates the dictionary after every iteration (see `demoteLoopFast`) -/
def foldTab (m : Nat) (stepf : (Nat → List Nat) → Nat → Nat → List Nat) : (Nat → List Nat) → List Nat → Nat → List Nat
  | pd, [] => pd
  | pd, d :: ds => foldTab m stepf (lookupFn ((List.range (m + 1)).map (stepf pd d)) (stepf pd d)) ds

theorem foldTab_eq (m : Nat) (stepf : (Nat → List Nat) → Nat → Nat → List Nat) :
    ∀ (ds : List Nat) (pd : Nat → List Nat), foldTab m stepf pd ds = ds.foldl stepf pd
  | [], _ => rfl
  | d :: ds, pd => by
    simp only [foldTab, lookupFn_tab, List.foldl_cons]
    exact foldTab_eq m stepf ds (stepf pd d)

def demoteAllLFast (L : Leaves) (r : Region) : Region :=
  if cacheEmpty r then
    { r with pd := lookupFn ((List.range (r.m + 1)).map (foldTab r.m (demoteStepL L) r.pd (L.demoteLevels r.m)))
                     (foldTab r.m (demoteStepL L) r.pd (L.demoteLevels r.m)), cached := true }
  else r

@[csimp] theorem demoteAllL_eq_fast : @demoteAllL = @demoteAllLFast := by
  funext L r
  simp only [demoteAllL, demoteAllLFast, lookupFn_tab, foldTab_eq]

def renormLFast (L : Leaves) (r : Region) : Region :=
  let r1 := demoteAllL L { r with cached := false }
  { r1 with pd := lookupFn ((List.range (r.m + 1)).map (foldTab r.m (renormStepL L) r1.pd (L.renormLevels r.m)))
                    (foldTab r.m (renormStepL L) r1.pd (L.renormLevels r.m)), cached := false }

@[csimp] theorem renormL_eq_fast : @renormL = @renormLFast := by
  funext L r
  simp only [renormL, renormLFast, lookupFn_tab, foldTab_eq]

def degradedL (L : Leaves) (m : Nat) (o : Region) : List Nat :=
  (L.unionFiner m o.m).flatMap (fun d => (o.pd d).map (fun p => L.degrade p d m))

def unionRawL (L : Leaves) (r o : Region) : Region :=
  let sh := L.unionShared r.m o.m
  let pd1 : Nat → List Nat := fun d => if sh.contains d then dedup (r.pd d ++ o.pd d) else r.pd d
  let pd2 := if L.finer r.m o.m then setLevel pd1 r.m (dedup (pd1 r.m ++ degradedL L r.m o)) else pd1
  { r with pd := pd2, cached := if sh.isEmpty then r.cached else false }

def combineWithL (L : Leaves) (ok : Nat → Nat → Bool) (f : List Nat → List Nat → List Nat) (r o : Region) :
    Except Err Region :=
  if !ok r.m o.m then .error .assertion else
    let r1 := demoteAllL L r
    let o1 := demoteAllL L o
    .ok (renormL L { r1 with pd := setLevel r1.pd r.m (f (r1.pd r.m) (o1.pd o1.m)) })

def areaL (L : Leaves) (r : Region) : Nat :=
  ((L.areaLevels r.m).map (fun d => (r.pd d).length * 4 ^ (r.m - d))).sum

def stepL (L : Leaves) (r : Region) : Op → Except Err (Region × Obs)
  | .addRaw ps d => if 1 ≤ d ∧ d ≤ r.m then .ok (addPixels r ps d, .none) else .error .badDepth
  | .add ps d => if 1 ≤ d ∧ d ≤ r.m then .ok (renormL L (addPixels r ps d), .none) else .error .badDepth
  | .renorm => .ok (renormL L r, .none)
  | .union o b => .ok (if b then renormL L (unionRawL L r o) else unionRawL L r o, .none)
  | .without o => (combineWithL L L.sameDepthW diffL r o).map (·, .none)
  | .intersect o => (combineWithL L L.sameDepthI interL r o).map (·, .none)
  | .symdiff o => (combineWithL L L.sameDepthX symL r o).map (·, .none)
  | .getDemoted => let r1 := demoteAllL L r; .ok (r1, .pixels (r1.pd r1.m))
  | .area => .ok (r, .area (areaL L r))
  | .within q => let r1 := demoteAllL L r; .ok (r1, .answer ((r1.pd r1.m).contains q))
  | .saveLoad => .ok (r, .none)

def operandAfterL (L : Leaves) : Op → Option Region
  | .union o _ => some o
  | .without o | .intersect o | .symdiff o => some (demoteAllL L o)
  | _ => none

/-! ### sessions: several region objects, `.mim` files

  `save f` writes the current region to file `f`; `load f` makes a **fresh** region from what was
  written (values, not references: nothing done afterwards to any other object can reach it);
  the `…File` operations load their operand from a file, as `MIMAS.combine_regions` /
  `intersect_regions` do.  -/

structure Session where
  cur : Region
  files : Nat → Option Region

inductive SessErr
  | op (e : Err)
  /-- the file was never written (`FileNotFoundError`) -/
  | noFile
  deriving DecidableEq, Repr

inductive SessOp
  | op (o : Op)
  | save (f : Nat)
  | load (f : Nat)
  | unionFile (f : Nat) (renorm : Bool)
  | withoutFile (f : Nat)
  | intersectFile (f : Nat)
  | symdiffFile (f : Nat)

def onCur (s : Session) (o : Op) : Except SessErr (Session × Obs) :=
  match step s.cur o with
  | .ok (r, ob) => .ok ({ s with cur := r }, ob)
  | .error e => .error (.op e)

def withFile (s : Session) (f : Nat) (mk : Region → Op) : Except SessErr (Session × Obs) :=
  match s.files f with
  | some o => onCur s (mk o)
  | none => .error .noFile

def sessStep (s : Session) : SessOp → Except SessErr (Session × Obs)
  | .op o => onCur s o
  | .save f => .ok ({ s with files := fun g => if g = f then some s.cur else s.files g }, .none)
  | .load f =>
    match s.files f with
    | some r => .ok ({ s with cur := r }, .none)
    | none => .error .noFile
  | .unionFile f b => withFile s f (fun o => .union o b)
  | .withoutFile f => withFile s f .without
  | .intersectFile f => withFile s f .intersect
  | .symdiffFile f => withFile s f .symdiff

/-- `sessStep` with the single-object step as a parameter (the driver runs it with the regenerated `stepGen`) -/
def sessStepWith (stp : Region → Op → Except Err (Region × Obs)) (s : Session) : SessOp → Except SessErr (Session × Obs)
  | .save f => .ok ({ s with files := fun g => if g = f then some s.cur else s.files g }, .none)
  | .load f =>
    match s.files f with
    | some r => .ok ({ s with cur := r }, .none)
    | none => .error .noFile
  | op =>
    let run1 (o : Op) : Except SessErr (Session × Obs) :=
      match stp s.cur o with
      | .ok (r, ob) => .ok ({ s with cur := r }, ob)
      | .error e => .error (.op e)
    let fromFile (f : Nat) (mk : Region → Op) : Except SessErr (Session × Obs) :=
      match s.files f with
      | some o => run1 (mk o)
      | none => .error .noFile
    match op with
    | .op o => run1 o
    | .unionFile f b => fromFile f (fun o => .union o b)
    | .withoutFile f => fromFile f .without
    | .intersectFile f => fromFile f .intersect
    | .symdiffFile f => fromFile f .symdiff
    | .save _ => .error .noFile
    | .load _ => .error .noFile

def sessRun (s : Session) : List SessOp → Session × List (Except SessErr Obs)
  | [] => (s, [])
  | op :: ops =>
    match sessStep s op with
    | .ok (s', o) => let (sf, os) := sessRun s' ops; (sf, .ok o :: os)
    | .error e => let (sf, os) := sessRun s ops; (sf, .error e :: os)

end Aegean.Model.C08
