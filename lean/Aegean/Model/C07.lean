/-
  C07 — hand model of the synchronisation protocol of `BANE.filter_mc_sharemem` / `sigma_filter`.

  * `Phase`   where one stripe (one task of the pool) is.
  * `Barrier` CPython's `threading.Barrier` (which `multiprocessing.Barrier` inherits, with `_state`
              and `_count` in shared memory): `count`, `state ∈ {filling, draining, resetting,
              broken}`; `wait()` is two atomic sections under the condition's lock — ENTER
              (`_enter`; index := count; count += 1; the last arrival releases and leaves at once) and
              EXIT (woken with state ≠ filling; raise if resetting/broken; count -= 1; `_exit`) —
              `reset()` and `abort()` are one atomic section each.
  * pool      `Pool(processes = slots, maxtasksperchild = 1)` with `chunksize = 1`: a queued task starts
              only while fewer than `slots` tasks are running; its slot is free again when it has
              finished (returned or raised).
  * `Cfg`     `n` tasks (= realised stripes), `parties` of the barrier, `slots`, `mask` (domask),
              and two switches that distinguish the pinned from the repaired protocol:
              `reset`  — the party that got index 0 calls `barrier.reset()` after `wait()` (pinned);
              `abort`  — the worker's exception path calls `barrier.abort()` (repaired).
  * data      the two shared maps as `row ↦ Option value`; a stripe writes only its own rows.

  Mathlib-free; executable (the driver runs `adv`/`fault` on observed event traces).
-/
import Aegean.Num
import Aegean.Py

namespace Aegean.Model.C07

/-! ### layout (hand fallback of the regenerated definitions, and the exact-arithmetic width) -/

/-- exact-arithmetic reading of `int(max(img_y/nslice/step, 1) * step)` -/
def widthExact (rows nslice step : Nat) : Nat := max (rows / nslice) step

def widthHand (rows nslice step : Nat) : Nat :=
  (Float.toUInt64 ((if (1 : Float) > (Float.ofNat rows / Float.ofNat nslice / Float.ofNat step)
    then (1 : Float) else (Float.ofNat rows / Float.ofNat nslice / Float.ofNat step)) * Float.ofNat step)).toNat

def yminsHand (rows nslice w : Nat) : List Nat := if nslice > 1 then Py.range 0 rows w else [0]
def ymaxsHand (rows nslice w : Nat) : List Nat := if nslice > 1 then Py.range w rows w ++ [rows] else [rows]

/-- hand fallbacks of the regenerated halo / box arithmetic of `sigma_filter` -/
def dataRowMinHand (lo _hi bh _bw _nrows : Nat) : Int := max 0 ((lo : Int) - ((bh / 2 : Nat) : Int))
def dataRowMaxHand (_lo hi bh _bw nrows : Nat) : Nat := min nrows (hi + bh / 2)
def boxRMinHand (r bh _bw _dlen : Nat) : Int := max 0 ((r : Int) - ((bh / 2 : Nat) : Int))
def boxRMaxHand (r bh _bw dlen : Nat) : Nat := min dlen (r + bh / 2)

/-- `if (nslice is None) or (cores == 1): nslice = cores` -/
def effSlices (cores : Nat) (nslice : Option Nat) : Nat :=
  match nslice with
  | none => cores
  | some k => if cores = 1 then cores else k

/-! ### protocol -/

inductive Phase
  | queued
  | pass1
  /-- about to call the `k`-th `barrier.wait()` (`k = false`: between the passes, `true`: before masking) -/
  | atB (k : Bool)
  /-- inside `wait()`, counted; `first` = it was handed index 0 -/
  | inB (k : Bool) (first : Bool)
  /-- returned from `wait()` with index 0 and about to call `barrier.reset()` (pinned code only) -/
  | rst (k : Bool)
  | pass2
  | masking
  | done
  | failed
  deriving DecidableEq, Repr, Inhabited

inductive BState | filling | draining | resetting | broken
  deriving DecidableEq, Repr, Inhabited

structure Barrier where
  count : Nat
  state : BState
  deriving DecidableEq, Repr, Inhabited

structure Cfg where
  n : Nat
  parties : Nat
  slots : Nat
  mask : Bool
  reset : Bool
  abort : Bool
  deriving DecidableEq, Repr, Inhabited

structure State where
  ph : Nat → Phase
  b : Barrier

/-- number of `i < n` with `p i` -/
def cnt (p : Nat → Bool) : Nat → Nat
  | 0 => 0
  | n + 1 => cnt p n + (if p n then 1 else 0)

/-- `Σ_{i<n} f i` -/
def sumTo (f : Nat → Nat) : Nat → Nat
  | 0 => 0
  | n + 1 => sumTo f n + f n

def Phase.active : Phase → Bool
  | .queued | .done | .failed => false
  | _ => true

def Phase.terminal : Phase → Bool
  | .done | .failed => true
  | _ => false

def running (c : Cfg) (s : State) : Nat := cnt (fun i => (s.ph i).active) c.n

def upd (f : Nat → Phase) (i : Nat) (p : Phase) : Nat → Phase := fun j => if j = i then p else f j

def init (_c : Cfg) : State := { ph := fun _ => .queued, b := { count := 0, state := .filling } }

/-- the phase that follows the `k`-th barrier -/
def afterB (k : Bool) : Phase := if k then .masking else .pass2

/-- where a party goes when `wait()` has returned its index -/
def next (c : Cfg) (k first : Bool) : Phase := if c.reset && first then .rst k else afterB k

/-- the `finally: count -= 1; _exit()` section of `wait()` -/
def Barrier.leave (b : Barrier) : Barrier :=
  { count := b.count - 1,
    state := if b.count - 1 = 0 ∧ (b.state = .draining ∨ b.state = .resetting) then .filling else b.state }

/-- `Barrier.reset()` -/
def Barrier.doReset (b : Barrier) : Barrier :=
  if b.count > 0 then
    { b with state := match b.state with
        | .filling => .resetting
        | .broken => .resetting
        | st => st }
  else { b with state := .filling }

/-- `Barrier.abort()` -/
def Barrier.doAbort (b : Barrier) : Barrier := { b with state := .broken }

/-- the worker's exception path (`_sf2`): the task ends as failed; the repaired code aborts the barrier -/
def failOut (c : Cfg) (s : State) (i : Nat) (b : Barrier) : State :=
  { ph := upd s.ph i .failed, b := if c.abort then b.doAbort else b }

/-- stripe `i` takes its next step, if it can -/
def adv (c : Cfg) (s : State) (i : Nat) : Option State :=
  if i < c.n then
    match s.ph i with
    | .queued => if running c s < c.slots then some { s with ph := upd s.ph i .pass1 } else none
    | .pass1 => some { s with ph := upd s.ph i (.atB false) }
    | .atB k =>
      match s.b.state with
      | .filling =>
        if s.b.count + 1 = c.parties then
          -- last arrival: `_release()` then `finally` in the same critical section
          some { ph := upd s.ph i (next c k (s.b.count == 0)),
                 b := { count := s.b.count, state := if s.b.count = 0 then .filling else .draining } }
        else
          some { ph := upd s.ph i (.inB k (s.b.count == 0)), b := { count := s.b.count + 1, state := .filling } }
      | .broken => some (failOut c s i s.b)          -- `_enter` raises BrokenBarrierError
      | _ => none                                     -- `_enter` blocks while draining / resetting
    | .inB k first =>
      match s.b.state with
      | .filling => none                              -- `_wait`: still waiting
      | .draining => some { ph := upd s.ph i (next c k first), b := s.b.leave }
      | _ => some (failOut c s i s.b.leave)           -- resetting / broken: BrokenBarrierError
    | .rst k => some { ph := upd s.ph i (afterB k), b := s.b.doReset }
    | .pass2 => some { s with ph := upd s.ph i (if c.mask then .atB true else .done) }
    | .masking => some { s with ph := upd s.ph i .done }
    | .done => none
    | .failed => none
  else none

/-- an exception raised in stripe `i` outside `wait()` (injected at a hook point) -/
def fault (c : Cfg) (s : State) (i : Nat) : Option State :=
  if i < c.n then
    match s.ph i with
    | .queued | .inB _ _ | .done | .failed => none
    | _ => some (failOut c s i s.b)
  else none

inductive Act | adv (i : Nat) | fault (i : Nat)
  deriving DecidableEq, Repr

def step (c : Cfg) (s : State) : Act → Option State
  | .adv i => adv c s i
  | .fault i => fault c s i

/-- run a list of actions; `none` if one of them is not enabled -/
def exec (c : Cfg) (s : State) : List Act → Option State
  | [] => some s
  | a :: rest => match step c s a with
    | some s' => exec c s' rest
    | none => none

/-- states reachable from `init`; faults only if `F` -/
inductive Reach (c : Cfg) (F : Bool) : State → Prop
  | init : Reach c F (init c)
  | adv {s s' : State} {i : Nat} : Reach c F s → adv c s i = some s' → Reach c F s'
  | fault {s s' : State} {i : Nat} : F = true → Reach c F s → fault c s i = some s' → Reach c F s'

def allTerminal (c : Cfg) (s : State) : Bool := cnt (fun i => (s.ph i).terminal) c.n == c.n
def allDone (c : Cfg) (s : State) : Bool := cnt (fun i => s.ph i == .done) c.n == c.n
def anyFailed (c : Cfg) (s : State) : Bool := cnt (fun i => s.ph i == .failed) c.n != 0
/-- no stripe can move (fault injection aside) -/
def stuck (c : Cfg) (s : State) : Bool := cnt (fun i => (adv c s i).isSome) c.n == 0

/-- remaining steps of a stripe: the termination measure is the sum over the stripes -/
def Phase.rank : Phase → Nat
  | .queued => 10
  | .pass1 => 9
  | .atB false => 8
  | .inB false _ => 7
  | .rst false => 6
  | .pass2 => 5
  | .atB true => 4
  | .inB true _ => 3
  | .rst true => 2
  | .masking => 1
  | .done => 0
  | .failed => 0

def mu (c : Cfg) (s : State) : Nat := sumTo (fun i => (s.ph i).rank) c.n

/-! ### the two configurations of interest -/

/-- the pinned code: `Barrier(parties = len(ymaxs))`, `Pool(processes = cores)`, `reset()` by index 0,
    no `abort()` -/
def pinned (n cores : Nat) (mask : Bool) : Cfg :=
  { n := n, parties := n, slots := cores, mask := mask, reset := true, abort := false }

/-- the repaired code: pool sized to the realised number of stripes, no `reset()`, `abort()` in the
    worker's exception path -/
def repaired (n cores : Nat) (mask : Bool) : Cfg :=
  { n := n, parties := n, slots := max cores n, mask := mask, reset := false, abort := true }

/-! ### data: the shared maps -/

structure Layout where
  lo : Nat → Nat
  hi : Nat → Nat

/-- the numerical work, abstract: functions of the input image only -/
structure Work (V : Type) where
  /-- background of row `r` as stripe `i` computes it in pass 1 -/
  f1 : Nat → Nat → V
  /-- noise of row `r` as stripe `i` computes it in pass 2, given the background map it reads -/
  f2 : Nat → Nat → (Nat → Option V) → V
  /-- masking of row `r` (NaN where the input is not finite) -/
  msk : Nat → V → V

structure Maps (V : Type) where
  bkg : Nat → Option V
  rms : Nat → Option V

def Maps.empty {V : Type} : Maps V := { bkg := fun _ => none, rms := fun _ => none }

/-- per-row write of the rows `[lo, hi)` -/
def writeRows {V : Type} (m : Nat → Option V) (lo hi : Nat) (f : Nat → Option V) : Nat → Option V :=
  fun r => if lo ≤ r ∧ r < hi then f r else m r

/-- what the step of stripe `i` out of phase `p` does to the shared maps -/
def effect {V : Type} (L : Layout) (W : Work V) (i : Nat) (p : Phase) (m : Maps V) : Maps V :=
  match p with
  | .pass1 => { m with bkg := writeRows m.bkg (L.lo i) (L.hi i) (fun r => some (W.f1 i r)) }
  | .pass2 => { m with rms := writeRows m.rms (L.lo i) (L.hi i) (fun r => some (W.f2 i r m.bkg)) }
  | .masking => { bkg := writeRows m.bkg (L.lo i) (L.hi i) (fun r => (m.bkg r).map (W.msk r)),
                  rms := writeRows m.rms (L.lo i) (L.hi i) (fun r => (m.rms r).map (W.msk r)) }
  | _ => m

/-- protocol and data together (fault-free runs) -/
inductive ReachD {V : Type} (c : Cfg) (L : Layout) (W : Work V) : State → Maps V → Prop
  | init : ReachD c L W (init c) Maps.empty
  | adv {s s' : State} {m : Maps V} {i : Nat} :
      ReachD c L W s m → adv c s i = some s' → ReachD c L W s' (effect L W i (s.ph i) m)

/-! ### the synchronisation skeleton of a worker (`sigma_filter`, `_sf2`), regenerated from the AST -/

/-- what a statement of the worker does, as far as the protocol and the shared maps are concerned;
    `waitT` is a `barrier.wait(timeout)`: a timed wait breaks the barrier when a stripe lags, although nobody failed -/
inductive SEv | wait | reset | abort | wBkg | rBkg | wRms | rRms | waitT
  deriving DecidableEq, Repr

/-- structured skeleton: `ifMask` branches on `domask`, `ifData` on anything else (either branch possible),
    `loop` runs its body any number of times -/
inductive Skel
  | ev (e : SEv)
  | skip
  | ret
  | raise_
  | seq (a b : Skel)
  | ifMask (thn els : Skel)
  | ifData (thn els : Skel)
  | loop (body : Skel)
  /-- the body of an inlined helper function: its `return` only ends the helper -/
  | call (body : Skel)
  deriving Repr

inductive SEnd | fall | ret | raised
  deriving DecidableEq, Repr

/-- every path through a skeleton for a given `domask`: (events, how the path ended).  A loop is unrolled
    0, 1 and 2 times (enough: the conformance automaton ignores repeated work events, and a loop containing a
    `wait` already differs between 0 and 1 iterations) -/
def Skel.paths (m : Bool) : Skel → List (List SEv × SEnd)
  | .ev e => [([e], .fall)]
  | .skip => [([], .fall)]
  | .ret => [([], .ret)]
  | .raise_ => [([], .raised)]
  | .seq a b =>
    (a.paths m).flatMap (fun (ta, ea) =>
      match ea with
      | .fall => (b.paths m).map (fun (tb, eb) => (ta ++ tb, eb))
      | e => [(ta, e)])
  | .ifMask t e => if m then t.paths m else e.paths m
  | .ifData t e => t.paths m ++ e.paths m
  | .loop body =>
    let once := body.paths m
    let twice := once.flatMap (fun (ta, ea) =>
      match ea with
      | .fall => once.map (fun (tb, eb) => (ta ++ tb, eb))
      | e => [(ta, e)])
    ([], .fall) :: (once ++ twice)
  | .call body => (body.paths m).map (fun (t, e) => (t, match e with | .ret => .fall | e => e))

/-- the generated file carries the skeleton as a token list (so that it needs no import of this file):
    `0 k` event k · `1` skip · `2` return · `3` raise · `4 a b` seq · `5 t e` ifMask · `6 t e` ifData · `7 b` loop · `8 b` call -/
def sevOfNat : Nat → Option SEv
  | 0 => some .wait | 1 => some .reset | 2 => some .abort | 3 => some .wBkg | 4 => some .rBkg | 5 => some .wRms | 6 => some .rRms | 7 => some .waitT
  | _ => none

def Skel.parse : Nat → List Nat → Option (Skel × List Nat)
  | 0, _ => none
  | _ + 1, [] => none
  | f + 1, tag :: r =>
    match tag with
    | 0 => match r with
      | k :: r' => (sevOfNat k).map (fun e => (Skel.ev e, r'))
      | [] => none
    | 1 => some (.skip, r)
    | 2 => some (.ret, r)
    | 3 => some (.raise_, r)
    | 4 => match Skel.parse f r with
      | some (a, r1) => match Skel.parse f r1 with
        | some (b, r2) => some (.seq a b, r2)
        | none => none
      | none => none
    | 5 => match Skel.parse f r with
      | some (a, r1) => match Skel.parse f r1 with
        | some (b, r2) => some (.ifMask a b, r2)
        | none => none
      | none => none
    | 6 => match Skel.parse f r with
      | some (a, r1) => match Skel.parse f r1 with
        | some (b, r2) => some (.ifData a b, r2)
        | none => none
      | none => none
    | 7 => match Skel.parse f r with
      | some (a, r1) => some (.loop a, r1)
      | none => none
    | 8 => match Skel.parse f r with
      | some (a, r1) => some (.call a, r1)
      | none => none
    | _ => none

/-- a token list that does not parse becomes a skeleton that conforms to nothing -/
def Skel.ofCode (c : List Nat) : Skel :=
  match Skel.parse (c.length + 1) c with
  | some (s, []) => s
  | _ => .ev .reset

def waits (t : List SEv) : Nat := t.count .wait

/-- the protocol phases of a stripe as seen from its own code: 0 = pass 1, 1 = pass 2, 2 = masking -/
def sevStep (m : Bool) (st : Nat) (e : SEv) : Option Nat :=
  match st, e with
  | 0, .wBkg => some 0
  | 0, .wRms => some 0      -- a stripe's own noise rows are read by nobody else: harmless at any time
  | 0, .rRms => some 0
  | 0, .wait => some 1
  | 1, .rBkg => some 1
  | 1, .wRms => some 1
  | 1, .rRms => some 1
  | 1, .wait => if m then some 2 else none
  | 2, .wBkg => some 2
  | 2, .wRms => some 2
  | 2, .rBkg => some 2
  | 2, .rRms => some 2
  | _, _ => none

def sevRun (m : Bool) : Nat → List SEv → Option Nat
  | st, [] => some st
  | st, e :: rest => match sevStep m st e with
    | some st' => sevRun m st' rest
    | none => none

/-- a complete (normally ending) path of a stripe conforms to the protocol model: the background map is written
    only before the first barrier (and again, masked, after the second), read only between the barriers (and in
    masking); the noise map (own rows, read by nobody else) may be touched at any time; barrier 1 is passed once, barrier 2 once iff
    `domask`; no `reset()` / `abort()` on the way -/
def conforms (m : Bool) (t : List SEv) : Bool := sevRun m 0 t == some (if m then 2 else 1)

/-- hand fallback of the regenerated skeleton of `sigma_filter`, as tokens:
    wBkg; wait; rBkg; wRms; if domask: (wait; wBkg; wRms); return -/
def sigmaSkelHand : List Nat :=
  [4, 0, 3, 4, 0, 0, 4, 0, 4, 4, 0, 5, 4, 5, 4, 0, 0, 4, 0, 3, 0, 5, 1, 2]

/-- an `except` clause of `_sf2`: the class it catches, what it does, whether it ends by raising -/
structure Handler where
  cls : String
  events : List SEv
  raises : Bool
  /-- number of calls (anything that could itself raise) before `barrier.abort()` in the clause -/
  before : Nat
  deriving DecidableEq, Repr

/-- raw form used by the generated file: (class, event tokens, ends by raising) -/
def Handler.ofRaw (r : String × List Nat × Bool × Nat) : Handler :=
  { cls := r.1, events := r.2.1.map (fun k => (sevOfNat k).getD .reset), raises := r.2.2.1, before := r.2.2.2 }

def sf2HandlersHand : List (String × List Nat × Bool × Nat) := [("BaseException", [2], true, 0)]

/-- the arguments of the `Barrier(...)` constructor in `filter_mc_sharemem`: the source text of `parties`,
    whether a timeout / an action is configured (`timeout`: seconds if a literal, 0 if present but not a literal) -/
structure BarrierCtor where
  parties : String
  timeout : Option Nat
  action : Bool
  deriving DecidableEq, Repr

def barrierCtorHand : String × Option Nat × Bool := ("len(ymaxs)", none, false)
def BarrierCtor.ofRaw (r : String × Option Nat × Bool) : BarrierCtor := { parties := r.1, timeout := r.2.1, action := r.2.2 }

/-- the protocol model's barrier waits without limit and has no action.  A timeout would add a transition (a
    lagging stripe breaks the barrier) that the theorems exclude.  (That `parties` equals the number of submitted
    tasks is not pinned to one spelling of the source — `len(ymaxs)`, `nstripes`, … — but checked by the layout
    sweep on every case: Spec `parties-vs-tasks`.) -/
def barrierCtorOK (b : BarrierCtor) : Bool := b.timeout.isNone && !b.action

/-- every way out of `_sf2` with an exception aborts the barrier first — before any other call that could
    itself raise (a deprecated `logging.warn` under `-W error`, …) — and every exception is caught:
    the first clause that is not abort-and-raise must not exist, and some clause catches everything -/
def handlersOK (hs : List Handler) : Bool :=
  hs.all (fun h => h.events == [.abort] && h.raises && h.before == 0) && hs.any (fun h => h.cls == "BaseException" || h.cls == "")

/-! ### `try … finally` of the parent, as a small control-flow model -/

/-- events of the parent that matter for shared memory -/
inductive Ev | createBkg | createRms | setup | mapGet | collect | poolClose | poolTerminate
  | closeBkg | unlinkBkg | closeRms | unlinkRms
  deriving DecidableEq, Repr

/-- structured programs: an atomic statement may complete or raise (if `mayRaise`) -/
inductive Prog
  | atom (e : Ev) (mayRaise : Bool)
  | raise_
  | seq (a b : Prog)
  | tryFinally (body fin : Prog)
  /-- `try body except A: h1 except B: h2 else: orelse` — which handler matches depends on the exception's
      class, which the model leaves open: either handler may run, or the exception propagates -/
  | tryExcept (body h1 h2 orelse : Prog)
  deriving Repr

inductive Outcome | normal | raised
  deriving DecidableEq, Repr

/-- all executions: (trace of statements that *completed*, outcome) -/
def Prog.runs : Prog → List (List Ev × Outcome)
  | .atom e r => ([e], .normal) :: (if r then [([], .raised)] else [])
  | .raise_ => [([], .raised)]
  | .seq a b =>
    (a.runs).flatMap (fun (ta, oa) =>
      match oa with
      | .raised => [(ta, .raised)]
      | .normal => (b.runs).map (fun (tb, ob) => (ta ++ tb, ob)))
  | .tryFinally body fin =>
    (body.runs).flatMap (fun (tb, ob) =>
      (fin.runs).map (fun (tf, of_) =>
        (tb ++ tf, match of_ with | .raised => .raised | .normal => ob)))
  | .tryExcept body h1 h2 orelse =>
    (body.runs).flatMap (fun (tb, ob) =>
      match ob with
      | .normal => (orelse.runs).map (fun (t, o) => (tb ++ t, o))
      | .raised =>
        (tb, .raised) :: ((h1.runs).map (fun (t, o) => (tb ++ t, o)) ++ (h2.runs).map (fun (t, o) => (tb ++ t, o))))

/-- the `finally:` block: `ibkg.close(); ibkg.unlink(); irms.close(); irms.unlink()` (closing and
    unlinking a segment that exists does not raise) -/
def releaseProg : Prog :=
  .seq (.seq (.atom .closeBkg false) (.atom .unlinkBkg false))
       (.seq (.atom .closeRms false) (.atom .unlinkRms false))

/-- the body of the `try:` in `filter_mc_sharemem`: create both segments, set up barrier and pool,
    `try: map_async().get()  except KeyboardInterrupt: pool.close()  except Exception: pool.terminate(); raise
     else: pool.close(); pool.join(); copy the maps` -/
def bodyProg : Prog :=
  .seq (.atom .createBkg true) (.seq (.atom .createRms true) (.seq (.atom .setup true)
    (.tryExcept (.atom .mapGet true) (.atom .poolClose false) (.seq (.atom .poolTerminate false) .raise_)
      (.atom .collect true))))

/-- the parent's skeleton (BANE.py `filter_mc_sharemem`) -/
def parentProg : Prog := .tryFinally bodyProg releaseProg

end Aegean.Model.C07
