/-
  C20 — hand model of `fits_tools.load_image_band` (everything except the two row-bound
  expressions, which are regenerated from source into `Gen.C20.rowMin/rowMax`).
  Mathlib-free; executable.
-/
import Aegean.Num
import Aegean.Py

namespace Aegean.Model.C20

/-- fallback for the regenerated bounds (used only when the translator reports UNTRANSLATABLE) -/
def rowMinHand (rows n i : Nat) : Nat := rows * i / n
def rowMaxHand (rows n i : Nat) : Nat := rows * (i + 1) / n

/-- the pinned (defective) float arithmetic `int(NAXIS2/n*(i+1))`, kept for the negation witness -/
def rowMaxFloat (rows n i : Nat) : Nat :=
  (Float.toUInt64 ((Float.ofNat rows / Float.ofNat n) * Float.ofNat (i + 1))).toNat

inductive Err | badTotal | tooLarge | negative
  deriving DecidableEq, Repr

/-- the three argument guards, in the order the code tests them -/
def validate (i n : Int) : Except Err Unit :=
  if n ≤ 0 then .error .badTotal
  else if i ≥ n then .error .tooLarge
  else if i < 0 then .error .negative
  else .ok ()

/-- what a band is: rows `[lo, hi)` of the image (a list of rows) -/
def slice {β : Type} (img : List β) (lo hi : Nat) : List β := (img.drop lo).take (hi - lo)

structure Band (β : Type) where
  data : List β
  naxis2 : Nat
  /-- CRPIX2 of the band, as an offset from the image's CRPIX2 (the code does `CRPIX2 -= row_min`) -/
  crpix2Shift : Int

/-- `load_image_band` on an image given as its list of rows, with the bounds functions as parameters -/
def loadBand {β : Type} (rowMin rowMax : Nat → Nat → Nat → Nat) (img : List β) (i n : Int) :
    Except Err (Band β) :=
  match validate i n with
  | .error e => .error e
  | .ok () =>
    let rows := img.length
    let lo := rowMin rows n.toNat i.toNat
    let hi := rowMax rows n.toNat i.toNat
    .ok { data := slice img lo hi, naxis2 := hi - lo, crpix2Shift := -(lo : Int) }

end Aegean.Model.C20
