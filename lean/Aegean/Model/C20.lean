/-
  C20 — hand model of `fits_tools.load_image_band` (everything except the two row-bound
  expressions, which are regenerated from source into `Gen.C20.rowMin/rowMax`).
  Mathlib-free; executable.
-/
import Aegean.Num
import Aegean.Py

set_option linter.unusedVariables false

namespace Aegean.Model.C20

/-- fallback for the regenerated bounds (used only when the translator reports UNTRANSLATABLE) -/
def rowMinHand (rows n i : Nat) : Nat := rows * i / n
def rowMaxHand (rows n i : Nat) : Nat := rows * (i + 1) / n

/-- the pinned (defective) float arithmetic `int(NAXIS2/n*(i+1))`, kept for the negation witness -/
def rowMaxFloat (rows n i : Nat) : Nat :=
  (Float.toUInt64 ((Float.ofNat rows / Float.ofNat n) * Float.ofNat (i + 1))).toNat

inductive Err | badTotal | tooLarge | negative
  deriving DecidableEq, Repr

/-- the three argument guards, in the order the code tests them -/
def validate (i n : Int) : Except Err Unit :=
  if n ≤ 0 then .error .badTotal
  else if i ≥ n then .error .tooLarge
  else if i < 0 then .error .negative
  else .ok ()

/-- what a band is: rows `[lo, hi)` of the image (a list of rows) -/
def slice {β : Type} (img : List β) (lo hi : Nat) : List β := (img.drop lo).take (hi - lo)

structure Band (β : Type) where
  data : List β
  naxis2 : Nat
  /-- CRPIX2 of the band, as an offset from the image's CRPIX2 (the code does `CRPIX2 -= row_min`) -/
  crpix2Shift : Int

/-- `load_image_band` on an image given as its list of rows, with the bounds functions as parameters -/
def loadBand {β : Type} (rowMin rowMax : Nat → Nat → Nat → Nat) (img : List β) (i n : Int) :
    Except Err (Band β) :=
  match validate i n with
  | .error e => .error e
  | .ok () =>
    let rows := img.length
    let lo := rowMin rows n.toNat i.toNat
    let hi := rowMax rows n.toNat i.toNat
    .ok { data := slice img lo hi, naxis2 := hi - lo, crpix2Shift := -(lo : Int) }


/-! ### Which image of the file a band is cut from

A FITS file is a list of HDUs; an image HDU with NAXIS ∈ {2,3,4} is held as the list of its 2-D planes in
C order of the leading axes (a 2-D image has one plane; the code reads `section[cube_index, …]` of a
3-D image and `section[0, cube_index, …]` of a 4-D one, i.e. plane number `cube_index` in both cases). -/

structure Hdu (β : Type) where
  naxis : Nat
  /-- the 2-D planes, each a list of rows -/
  planes : List (List β)

inductive FileErr | noSuchHdu | tooManyAxes | noSuchPlane | band (e : Err)
  deriving DecidableEq, Repr

/-- the plane `load_image_band` reads from an HDU -/
def selectPlane {β : Type} (h : Hdu β) (cube : Nat) : Except FileErr (List β) :=
  match h.naxis with
  | 2 => match h.planes[0]? with | some p => .ok p | none => .error .noSuchPlane
  | 3 => match h.planes[cube]? with | some p => .ok p | none => .error .noSuchPlane
  | 4 => match h.planes[cube]? with | some p => .ok p | none => .error .noSuchPlane
  | _ => .error .tooManyAxes

/-- `load_image_band(filename, band=(i, n), hdu_index=hdu, cube_index=cube)` on a file given as its HDUs -/
def loadBandFile {β : Type} (rowMin rowMax : Nat → Nat → Nat → Nat) (file : List (Hdu β))
    (hdu cube : Nat) (i n : Int) : Except FileErr (Band β) :=
  match file[hdu]? with
  | none => .error .noSuchHdu
  | some h =>
    match selectPlane h cube with
    | .error e => .error e
    | .ok plane =>
      match loadBand rowMin rowMax plane i n with
      | .error e => .error (.band e)
      | .ok b => .ok b


/-! ### The whole function assembled from its regenerated pieces

`Pieces` are the parts of `load_image_band` that the translator regenerates from the source on every run
(`Gen.C20.*`; the `…Hand` definitions below are what the code looked like when this model was written and stand in
only when a piece is reported UNTRANSLATABLE).  `loadFull` is the fixed glue between them: validate, compute the row
bounds from NAXIS2, read `section[lead…, rlo:rhi, clo:chi]` of the requested image (or `data[rlo:rhi, clo:chi]` of the
expanded image for a compressed file), adjust NAXIS2 / CRPIX2. -/

def guardHand (i n : Int) : Nat := if n ≤ 0 then 1 else if i ≥ n then 2 else if i < 0 then 3 else 0
def hdrNaxis2Hand (naxis2 crpix2 rowMin rowMax : Int) : Int := rowMax - rowMin
def hdrCrpix2Hand (naxis2 crpix2 rowMin rowMax : Int) : Int := crpix2 - rowMin
def secNHand (naxis cube rowMin rowMax naxis1 naxis2 : Nat) : Nat :=
  if naxis = 2 then 0 else if naxis = 3 then 1 else if naxis = 4 then 2 else 99
def secL0Hand (naxis cube rowMin rowMax naxis1 naxis2 : Nat) : Nat := if naxis = 3 then cube else 0
def secL1Hand (naxis cube rowMin rowMax naxis1 naxis2 : Nat) : Nat := if naxis = 4 then cube else 0
def secRloHand (naxis cube rowMin rowMax naxis1 naxis2 : Nat) : Nat := if naxis = 2 ∨ naxis = 3 ∨ naxis = 4 then rowMin else 0
def secRhiHand (naxis cube rowMin rowMax naxis1 naxis2 : Nat) : Nat := if naxis = 2 ∨ naxis = 3 ∨ naxis = 4 then rowMax else 0
def secCloHand (naxis cube rowMin rowMax naxis1 naxis2 : Nat) : Nat := 0
def secChiHand (naxis cube rowMin rowMax naxis1 naxis2 : Nat) : Nat := if naxis = 2 ∨ naxis = 3 ∨ naxis = 4 then naxis1 else 0
def cmpRloHand (rowMin rowMax naxis1 naxis2 : Nat) : Nat := rowMin
def cmpRhiHand (rowMin rowMax naxis1 naxis2 : Nat) : Nat := rowMax
def cmpCloHand (rowMin rowMax naxis1 naxis2 : Nat) : Nat := 0
def cmpChiHand (rowMin rowMax naxis1 naxis2 : Nat) : Nat := naxis1

structure Pieces where
  guard : Int → Int → Nat
  rowMin : Nat → Nat → Nat → Nat
  rowMax : Nat → Nat → Nat → Nat
  hdrNaxis2P : Int → Int → Int → Int → Int
  hdrCrpix2P : Int → Int → Int → Int → Int
  hdrNaxis2C : Int → Int → Int → Int → Int
  hdrCrpix2C : Int → Int → Int → Int → Int
  secN : Nat → Nat → Nat → Nat → Nat → Nat → Nat
  secL0 : Nat → Nat → Nat → Nat → Nat → Nat → Nat
  secL1 : Nat → Nat → Nat → Nat → Nat → Nat → Nat
  secRlo : Nat → Nat → Nat → Nat → Nat → Nat → Nat
  secRhi : Nat → Nat → Nat → Nat → Nat → Nat → Nat
  secClo : Nat → Nat → Nat → Nat → Nat → Nat → Nat
  secChi : Nat → Nat → Nat → Nat → Nat → Nat → Nat
  cmpRlo : Nat → Nat → Nat → Nat → Nat
  cmpRhi : Nat → Nat → Nat → Nat → Nat
  cmpClo : Nat → Nat → Nat → Nat → Nat
  cmpChi : Nat → Nat → Nat → Nat → Nat

def handPieces : Pieces :=
  { guard := guardHand, rowMin := rowMinHand, rowMax := rowMaxHand,
    hdrNaxis2P := hdrNaxis2Hand, hdrCrpix2P := hdrCrpix2Hand, hdrNaxis2C := hdrNaxis2Hand, hdrCrpix2C := hdrCrpix2Hand,
    secN := secNHand, secL0 := secL0Hand, secL1 := secL1Hand, secRlo := secRloHand, secRhi := secRhiHand,
    secClo := secCloHand, secChi := secChiHand,
    cmpRlo := cmpRloHand, cmpRhi := cmpRhiHand, cmpClo := cmpCloHand, cmpChi := cmpChiHand }

/-- an image HDU as the header cards the function reads and the pixel array in C order
    `data[axis4][axis3][row][col]` (a 2-D image is 1 × 1 × rows × cols, a 3-D one 1 × k × rows × cols) -/
structure Img (β : Type) where
  naxis : Nat
  naxis1 : Nat
  naxis2 : Nat
  crpix2 : Int
  data : List (List (List (List β)))

structure FullBand (β : Type) where
  data : List (List β)
  naxis2 : Int
  crpix2 : Int

inductive FullErr
  | guard (code : Nat)     -- the k-th `raise` of the validation prologue
  | tooManyAxes            -- `raise Exception("Too many NAXIS")`
  | index                  -- numpy / astropy IndexError: no such plane
  | shape                  -- the number of leading indices does not leave a 2-D array
  deriving DecidableEq, Repr

/-- rows `[rlo, rhi)` and of each of them columns `[clo, chi)` -/
def sliceRC {β : Type} (plane : List (List β)) (rlo rhi clo chi : Nat) : List (List β) :=
  (slice plane rlo rhi).map (fun r => slice r clo chi)

/-- `a[hdu].section[lead…, rows, cols]` on the 4-level array: the leading indices must use up exactly the
    axes above the image plane -/
def readSection {β : Type} (img : Img β) (nlead l0 l1 rlo rhi clo chi : Nat) : Except FullErr (List (List β)) :=
  if nlead = 99 then .error .tooManyAxes
  else if nlead + 2 ≠ img.naxis then .error .shape
  else
    let a := if nlead = 2 then l0 else 0
    let b := if nlead = 2 then l1 else if nlead = 1 then l0 else 0
    match img.data[a]? with
    | none => .error .index
    | some vol => match vol[b]? with
      | none => .error .index
      | some plane => .ok (sliceRC plane rlo rhi clo chi)

/-- `load_image_band` on one image HDU.  For a compressed file `img` is the expanded image (2-D) and the
    compressed-branch pieces are used. -/
def loadFull {β : Type} (P : Pieces) (img : Img β) (compressed : Bool) (cube : Nat) (i n : Int) :
    Except FullErr (FullBand β) :=
  let g := P.guard i n
  if g ≠ 0 then .error (.guard g)
  else
    let lo := P.rowMin img.naxis2 n.toNat i.toNat
    let hi := P.rowMax img.naxis2 n.toNat i.toNat
    if compressed then
      match img.data[0]? with
      | none => .error .index
      | some vol => match vol[0]? with
        | none => .error .index
        | some plane =>
          .ok { data := sliceRC plane (P.cmpRlo lo hi img.naxis1 img.naxis2) (P.cmpRhi lo hi img.naxis1 img.naxis2)
                                    (P.cmpClo lo hi img.naxis1 img.naxis2) (P.cmpChi lo hi img.naxis1 img.naxis2),
                naxis2 := P.hdrNaxis2C img.naxis2 img.crpix2 lo hi,
                crpix2 := P.hdrCrpix2C img.naxis2 img.crpix2 lo hi }
    else
      let s (f : Nat → Nat → Nat → Nat → Nat → Nat → Nat) := f img.naxis cube lo hi img.naxis1 img.naxis2
      match readSection img (s P.secN) (s P.secL0) (s P.secL1) (s P.secRlo) (s P.secRhi) (s P.secClo) (s P.secChi) with
      | .error e => .error e
      | .ok d =>
        .ok { data := d,
              naxis2 := P.hdrNaxis2P img.naxis2 img.crpix2 lo hi,
              crpix2 := P.hdrCrpix2P img.naxis2 img.crpix2 lo hi }

/-- the plane of a well-formed image that the property's statement is about -/
def planeOf {β : Type} (img : Img β) (cube : Nat) : Option (List (List β)) :=
  match img.naxis with
  | 2 => img.data[0]? >>= (·[0]?)
  | 3 => img.data[0]? >>= (·[cube]?)
  | 4 => img.data[0]? >>= (·[cube]?)
  | _ => none

/-- every plane has NAXIS2 rows of NAXIS1 pixels -/
def WF {β : Type} (img : Img β) : Prop :=
  ∀ vol ∈ img.data, ∀ plane ∈ vol, plane.length = img.naxis2 ∧ ∀ r ∈ plane, r.length = img.naxis1


/-! ### The file level: which HDU, and BSCALE -/

def extHeaderHand (hdu : Nat) : Nat := hdu
def extDataHand (hdu : Nat) : Nat := hdu
def extCmpHand (hdu : Nat) : Nat := 0
def scaledHand (has data bs : Nat) : Nat := if has = 1 then data * bs else data

structure FilePieces where
  extHeader : Nat → Nat
  extData : Nat → Nat
  extCmp : Nat → Nat
  scaled : Nat → Nat → Nat → Nat

def handFilePieces : FilePieces :=
  { extHeader := extHeaderHand, extData := extDataHand, extCmp := extCmpHand, scaled := scaledHand }

/-- one HDU of a file: the image, its BSCALE card if any, and whether the BANE compression keywords are present -/
structure FHdu where
  img : Img Nat
  bscale : Option Nat
  compressed : Bool

/-- the BSCALE step as the code performs it: `has` is 1 when the card is present -/
def applyScale (F : FilePieces) (bscale : Option Nat) (b : FullBand Nat) : FullBand Nat :=
  match bscale with
  | some v => { b with data := b.data.map (fun r => r.map (fun x => F.scaled 1 x v)) }
  | none => { b with data := b.data.map (fun r => r.map (fun x => F.scaled 0 x 1)) }

/-- `load_image_band(filename, band=(i, n), hdu_index=hdu, cube_index=cube)` on a file given as its HDUs; `expanded` is
    the HDU list `expand(filename)` returns.  The header cards come from HDU `extHeader hdu`, the pixels from HDU
    `extData hdu`; the compressed branch returns before the BSCALE step. -/
def loadFullFile (P : Pieces) (F : FilePieces) (file expanded : List FHdu) (hdu cube : Nat) (i n : Int) :
    Except FullErr (FullBand Nat) :=
  let g := P.guard i n
  if g ≠ 0 then .error (.guard g)
  else match file[F.extHeader hdu]? with
    | none => .error .index
    | some hh =>
      if hh.compressed then
        match expanded[F.extCmp hdu]? with
        | none => .error .index
        | some e => loadFull P e.img true cube i n
      else
        match file[F.extData hdu]? with
        | none => .error .index
        | some dh =>
          match loadFull P { hh.img with data := dh.img.data } false cube i n with
          | .error e => .error e
          | .ok b => .ok (applyScale F hh.bscale b)

end Aegean.Model.C20
