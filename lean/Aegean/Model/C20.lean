/-
  C20 — hand model of `fits_tools.load_image_band` (everything except the two row-bound
  expressions, which are regenerated from source into `Gen.C20.rowMin/rowMax`).
  Mathlib-free; executable.
-/
import Aegean.Num
import Aegean.Py

namespace Aegean.Model.C20

/-- fallback for the regenerated bounds (used only when the translator reports UNTRANSLATABLE) -/
def rowMinHand (rows n i : Nat) : Nat := rows * i / n
def rowMaxHand (rows n i : Nat) : Nat := rows * (i + 1) / n

/-- the pinned (defective) float arithmetic `int(NAXIS2/n*(i+1))`, kept for the negation witness -/
def rowMaxFloat (rows n i : Nat) : Nat :=
  (Float.toUInt64 ((Float.ofNat rows / Float.ofNat n) * Float.ofNat (i + 1))).toNat

inductive Err | badTotal | tooLarge | negative
  deriving DecidableEq, Repr

/-- the three argument guards, in the order the code tests them -/
def validate (i n : Int) : Except Err Unit :=
  if n ≤ 0 then .error .badTotal
  else if i ≥ n then .error .tooLarge
  else if i < 0 then .error .negative
  else .ok ()

/-- what a band is: rows `[lo, hi)` of the image (a list of rows) -/
def slice {β : Type} (img : List β) (lo hi : Nat) : List β := (img.drop lo).take (hi - lo)

structure Band (β : Type) where
  data : List β
  naxis2 : Nat
  /-- CRPIX2 of the band, as an offset from the image's CRPIX2 (the code does `CRPIX2 -= row_min`) -/
  crpix2Shift : Int

/-- `load_image_band` on an image given as its list of rows, with the bounds functions as parameters -/
def loadBand {β : Type} (rowMin rowMax : Nat → Nat → Nat → Nat) (img : List β) (i n : Int) :
    Except Err (Band β) :=
  match validate i n with
  | .error e => .error e
  | .ok () =>
    let rows := img.length
    let lo := rowMin rows n.toNat i.toNat
    let hi := rowMax rows n.toNat i.toNat
    .ok { data := slice img lo hi, naxis2 := hi - lo, crpix2Shift := -(lo : Int) }


/-! ### Which image of the file a band is cut from

A FITS file is a list of HDUs; an image HDU with NAXIS ∈ {2,3,4} is held as the list of its 2-D planes in
C order of the leading axes (a 2-D image has one plane; the code reads `section[cube_index, …]` of a
3-D image and `section[0, cube_index, …]` of a 4-D one, i.e. plane number `cube_index` in both cases). -/

structure Hdu (β : Type) where
  naxis : Nat
  /-- the 2-D planes, each a list of rows -/
  planes : List (List β)

inductive FileErr | noSuchHdu | tooManyAxes | noSuchPlane | band (e : Err)
  deriving DecidableEq, Repr

/-- the plane `load_image_band` reads from an HDU -/
def selectPlane {β : Type} (h : Hdu β) (cube : Nat) : Except FileErr (List β) :=
  match h.naxis with
  | 2 => match h.planes[0]? with | some p => .ok p | none => .error .noSuchPlane
  | 3 => match h.planes[cube]? with | some p => .ok p | none => .error .noSuchPlane
  | 4 => match h.planes[cube]? with | some p => .ok p | none => .error .noSuchPlane
  | _ => .error .tooManyAxes

/-- `load_image_band(filename, band=(i, n), hdu_index=hdu, cube_index=cube)` on a file given as its HDUs -/
def loadBandFile {β : Type} (rowMin rowMax : Nat → Nat → Nat → Nat) (file : List (Hdu β))
    (hdu cube : Nat) (i n : Int) : Except FileErr (Band β) :=
  match file[hdu]? with
  | none => .error .noSuchHdu
  | some h =>
    match selectPlane h cube with
    | .error e => .error e
    | .ok plane =>
      match loadBand rowMin rowMax plane i n with
      | .error e => .error (.band e)
      | .ok b => .ok b

end Aegean.Model.C20
