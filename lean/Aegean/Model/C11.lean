/-
  C11 — region-restricted island finding.  The executable model is C02's `findIslands` with
  `inside := some f`, where `f : Px → Bool` says whether the *centre* of pixel `(row, col)` lies in
  the region (WCS and HEALPix are oracles: the harness evaluates `f` with astropy/healpy and ships it
  as a bit mask).  This file names the two runs and the Spec's filter.  Mathlib-free.
-/
import Aegean.Model.C02

namespace Aegean.Model.C11
open Aegean.Model.C02

/-- `find_islands(..., region=None)` -/
def findUnrestricted (g : Grid) (lab : Px → Nat) (n : Nat) : List Island := findIslands g lab n none

/-- `find_islands(..., region=region, wcs=wcs)` after repair -/
def findRestricted (g : Grid) (lab : Px → Nat) (n : Nat) (f : Px → Bool) : List Island :=
  findIslands g lab n (some f)

/-- "the island has at least one own pixel whose centre lies inside the region" -/
def touches (f : Px → Bool) (I : Island) : Bool := I.pixels.any f

/-- Spec: the unrestricted run filtered by island membership -/
def filterSpec (g : Grid) (lab : Px → Nat) (n : Nat) (f : Px → Bool) : List Island :=
  (findUnrestricted g lab n).filter (touches f)

/-- the pinned (defective) region test, kept for the negation witness: every flood pixel of the box
    (whichever island it belongs to) is probed at the crossed, origin-1 position
    `(y + ymin, x + xmin)` read as `(X, Y)`, i.e. at row `x + xmin − 1`, column `y + ymin − 1`
    where `y` = row offset, `ymin` = column offset, `x` = column offset, `xmin` = row offset -/
def pinnedTouches (g : Grid) (fb : Box) (f : Int × Int → Bool) : Bool :=
  ((boxPx fb).filter g.A).any (fun p =>
    f ((((p.2 - fb.clo : Nat) : Int) + fb.rlo - 1), (((p.1 - fb.rlo : Nat) : Int) + fb.clo - 1)))

/-! ### glue for the regenerated region probe (translator/targets/C11.py → `Gen.C11`) -/

/-- hand fallbacks -/
def probeXHand (_r c _row0 col0 : Nat) : Nat := c + col0
def probeYHand (r _c row0 _col0 : Nat) : Nat := r + row0
def probeOriginHand (_r _c _row0 _col0 : Nat) : Nat := 0
def probeScopeHand (_r _c _row0 _col0 : Nat) : Nat := 1
def probeFullHand (_r _c _row0 _col0 : Nat) : Nat := 1

/-- the 0-based FITS pixel position `(x, y)` at which the code asks "is this island pixel inside the region?":
    the coordinates handed to `pix2world(…, origin)` for the pixel at offsets `(r, c)` of the box, minus `origin` -/
def probeOf (px py org : Nat → Nat → Nat → Nat → Nat) (fb : Box) (p : Px) : Int × Int :=
  let r := p.1 - fb.rlo
  let c := p.2 - fb.clo
  ((px r c fb.rlo fb.clo : Int) - (org r c fb.rlo fb.clo : Int), (py r c fb.rlo fb.clo : Int) - (org r c fb.rlo fb.clo : Int))

/-- `find_islands(region=…)` assembled from the regenerated probe: `sky (x, y)` says whether the 0-based FITS
    pixel position `(x, y)` (x = column, y = row) is inside the region -/
def findRestrictedSky (px py org : Nat → Nat → Nat → Nat → Nat) (sky : Int × Int → Bool)
    (g : Grid) (lab : Px → Nat) (n : Nat) : List Island :=
  (List.range n).filterMap (fun k =>
    (boxOf (labelled g lab (k + 1))).bind (fun fb =>
      islandIn g lab (some (fun p => sky (probeOf px py org fb p))) (k + 1) fb))

end Aegean.Model.C11
