/-
  C11 — region-restricted island finding.  The executable model is C02's `findIslands` with
  `inside := some f`, where `f : Px → Bool` says whether the *centre* of pixel `(row, col)` lies in
  the region (WCS and HEALPix are oracles: the harness evaluates `f` with astropy/healpy and ships it
  as a bit mask).  This file names the two runs and the Spec's filter.  Mathlib-free.
-/
import Aegean.Model.C02

namespace Aegean.Model.C11
open Aegean.Model.C02

/-- `find_islands(..., region=None)` -/
def findUnrestricted (g : Grid) (lab : Px → Nat) (n : Nat) : List Island := findIslands g lab n none

/-- `find_islands(..., region=region, wcs=wcs)` after repair -/
def findRestricted (g : Grid) (lab : Px → Nat) (n : Nat) (f : Px → Bool) : List Island :=
  findIslands g lab n (some f)

/-- "the island has at least one own pixel whose centre lies inside the region" -/
def touches (f : Px → Bool) (I : Island) : Bool := I.pixels.any f

/-- Spec: the unrestricted run filtered by island membership -/
def filterSpec (g : Grid) (lab : Px → Nat) (n : Nat) (f : Px → Bool) : List Island :=
  (findUnrestricted g lab n).filter (touches f)

/-- the pinned (defective) region test, kept for the negation witness: every flood pixel of the box
    (whichever island it belongs to) is probed at the crossed, origin-1 position
    `(y + ymin, x + xmin)` read as `(X, Y)`, i.e. at row `x + xmin − 1`, column `y + ymin − 1`
    where `y` = row offset, `ymin` = column offset, `x` = column offset, `xmin` = row offset -/
def pinnedTouches (g : Grid) (fb : Box) (f : Int × Int → Bool) : Bool :=
  ((boxPx fb).filter g.A).any (fun p =>
    f ((((p.2 - fb.clo : Nat) : Int) + fb.rlo - 1), (((p.1 - fb.rlo : Nat) : Int) + fb.clo - 1)))

end Aegean.Model.C11
