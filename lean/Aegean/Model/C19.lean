/-
  C19 — hand model of `cluster.regroup_dbscan`, `cluster.regroup` (greedy, elliptical distance),
  the flux-ordered relabelling and `cluster.resize`.  Mathlib-free; executable.

  Numeric leaves (`unitVec`, `chord`, the hand fall-backs of the regenerated conversions) are
  polymorphic in `[R α]`; the graph logic works on row indices / source records and takes the
  adjacency as a parameter, so that exactly the same definitions run in the driver (adjacency
  decided in `Float`) and are reasoned about in `Properties/C19.lean`.
-/
import Aegean.Num
import Aegean.Py

namespace Aegean.Model.C19

/-! ### 1. Unit-vector embedding (cluster.py:167-177) -/

structure V3 (α : Type) where
  x : α
  y : α
  z : α

section numeric
variable {α : Type} [R α]

/-- `ras, decs` in radians → `(cos ra · cos dec, cos dec · sin ra, sin dec)`, in the order of
    operations of the code (`y = cos(decs); x = cos(ras)*y; y *= sin(ras); z = sin(decs)`). -/
def unitVec (ra dec : α) : V3 α :=
  let y := R.cos dec
  { x := R.cos ra * y, y := y * R.sin ra, z := R.sin dec }

/-- the embedding of a catalogue row given in degrees (`np.radians` first) -/
def unitVecDeg (raDeg decDeg : α) : V3 α := unitVec (R.radians raDeg) (R.radians decDeg)

/-- hand fall-backs of the three regenerated columns of the array given to DBSCAN -/
def vec0Hand (raDeg decDeg : α) : α := (unitVecDeg raDeg decDeg).x
def vec1Hand (raDeg decDeg : α) : α := (unitVecDeg raDeg decDeg).y
def vec2Hand (raDeg decDeg : α) : α := (unitVecDeg raDeg decDeg).z

/-- glue: the embedded row, from the three column functions (regenerated `Gen.C19.vec0/1/2` in the driver and
    in the theorems) -/
def embedWith (f0 f1 f2 : α → α → α) (raDeg decDeg : α) : V3 α :=
  { x := f0 raDeg decDeg, y := f1 raDeg decDeg, z := f2 raDeg decDeg }

def dot (u v : V3 α) : α := u.x * v.x + u.y * v.y + u.z * v.z

/-- squared Euclidean distance between two embedded rows -/
def chordSq (u v : V3 α) : α :=
  (u.x - v.x) * (u.x - v.x) + (u.y - v.y) * (u.y - v.y) + (u.z - v.z) * (u.z - v.z)

/-- Euclidean (chord) distance — what DBSCAN compares with `eps` -/
def chord (u v : V3 α) : α := R.sqrt (chordSq u v)

/-- the chord subtended by an angle `ε` (radians) on the unit sphere: `2 sin(ε/2)` -/
def chordOfAngle (eps : α) : α := R.ofNat 2 * R.sin (eps / R.ofNat 2)

/-- hand fall-back of the conversion at both call sites (linking length in arcmin → chord) -/
def epsHand (epsArcmin : α) : α := chordOfAngle (R.radians (epsArcmin / R.ofNat 60))

/-- hand fall-back of the `resize` ratio formula: `sqrt(a² + psf² (1 − 1/ratio²))` -/
def resizeHand (a psf ratio : α) : α :=
  R.sqrt (R.npow a 2 + R.npow psf 2 * (R.ofNat 1 - R.ofNat 1 / R.npow ratio 2))

end numeric


/-! ### 2. Connected components with a checked certificate

`components` is an ordinary breadth-first labelling (labels in order of first row, as DBSCAN
numbers its clusters).  Nothing is proved about it: its answer is accepted only if
`checkComponents` — which *is* proved sound (`Proofs/C19Graph.lean`) — says so. -/

/-- a labelling of rows `0 … n-1` with a spanning-forest certificate -/
structure Cert where
  /-- label of a row -/
  lab : Nat → Nat
  /-- parent of a row in the spanning forest (a root is its own parent) -/
  par : Nat → Nat
  /-- depth of a row in its tree (strictly smaller at the parent) -/
  dep : Nat → Nat
  /-- the root row of each label -/
  root : Nat → Nat

def allBelow (n : Nat) (p : Nat → Bool) : Bool := (List.range n).all p

/-- `checkComponents n adj K c = true` ⇒ the labels `c.lab` on rows `< n` are exactly the connected
    components of the graph `adj` (used in either direction), numbered `0 … K-1`, none empty. -/
def checkComponents (n : Nat) (adj : Nat → Nat → Bool) (K : Nat) (c : Cert) : Bool :=
  (allBelow n fun i =>
      decide (c.par i < n) && decide (c.lab i < K)
      -- a non-root hangs off a linked, equally labelled, strictly shallower parent
      && (c.par i == i ||
           (decide (c.dep (c.par i) < c.dep i) && (adj i (c.par i) || adj (c.par i) i)
             && c.lab (c.par i) == c.lab i))
      -- one root per label
      && (c.par i != i || c.root (c.lab i) == i)
      -- no link leaves a label class
      && allBelow n fun j => !(adj i j) || c.lab i == c.lab j)
  && allBelow K fun k => decide (c.root k < n) && c.lab (c.root k) == k

/-- breadth-first labelling; returns the number of labels and the certificate -/
def components (n : Nat) (adj : Nat → Nat → Bool) : Nat × Cert := Id.run do
  let mut lab : Array Nat := Array.replicate n n      -- `n` = not yet labelled
  let mut par : Array Nat := Array.range n
  let mut dep : Array Nat := Array.replicate n 0
  let mut roots : Array Nat := #[]
  let mut next := 0
  for s in [0:n] do
    if lab[s]! == n then
      lab := lab.set! s next
      roots := roots.push s
      let mut queue : Array Nat := #[s]
      let mut head := 0
      for _ in [0:n] do
        if head < queue.size then
          let u := queue[head]!
          head := head + 1
          for v in [0:n] do
            if lab[v]! == n && (adj u v || adj v u) then
              lab := lab.set! v next
              par := par.set! v u
              dep := dep.set! v (dep[u]! + 1)
              queue := queue.push v
        else break
      next := next + 1
  return (next, { lab := fun i => lab[i]!, par := fun i => par[i]!, dep := fun i => dep[i]!,
                  root := fun k => roots[k]! })

/-! ### 3. Sources, groups, flux-ordered relabelling (cluster.py:185-209, 351-365) -/

/-- A catalogue row as far as regrouping is concerned.  `flux` and `dec` are order-preserving
    integer keys of the floating-point columns (only ever compared); `rest` stands for every
    other attribute of the source. -/
structure Src where
  id : Nat
  flux : Int
  dec : Int
  island : Nat
  source : Nat
  rest : Nat
  deriving DecidableEq, Repr, Inhabited

/-- `sorted(group, key=lambda x: -1*x.peak_flux)`: ascending in `-flux`, i.e. `a` may precede `b`
    when `flux a ≥ flux b`; Python's sort is stable and so is `List.mergeSort`. -/
def fluxGe (a b : Src) : Bool := decide (b.flux ≤ a.flux)

/-- position of a source in the flux-sorted copy of its group -/
def rankIn (g : List Src) (s : Src) : Nat := (g.mergeSort fluxGe).idxOf s

/-- relabel one group: the order of the group list is not changed, only the labels -/
def relabelGroup (isle : Nat) (g : List Src) : List Src :=
  g.map fun s => { s with island := isle, source := rankIn g s }

/-- `list(map(srccat.__getitem__, np.where(labels == l)[0]))`: members of label `k`, in row order -/
def groupRows (cat : List Src) (lab : Src → Nat) (k : Nat) : List Src :=
  cat.filter fun s => lab s == k

/-- the groups for labels `0 … K-1`, relabelled -/
def regroupWith (cat : List Src) (lab : Src → Nat) (K : Nat) : List (List Src) :=
  (List.range K).map fun k => relabelGroup k (groupRows cat lab k)

/-- row adjacency induced by a link test on sources -/
def rowAdj (link : Src → Src → Bool) (cat : List Src) : Nat → Nat → Bool :=
  let arr := cat.toArray
  fun i j => link arr[i]! arr[j]!

/-- `regroup_dbscan`: label by connected components (checked), group, relabel.
    `none` only if the component certificate does not check. -/
def regroupDbscan (link : Src → Src → Bool) (cat : List Src) : Option (List (List Src)) :=
  let n := cat.length
  let adj := rowAdj link cat
  let (K, c) := components n adj
  if checkComponents n adj K c then
    some (regroupWith cat (fun s => c.lab (cat.idxOf s)) K)
  else none

/-- a source with its labels blanked: "every other attribute" -/
def unlabel (s : Src) : Src := { s with island := 0, source := 0 }

/-! ### 4. The elliptical-distance variant `regroup` / `regroup_vectorized` (cluster.py:212-365)

Rows are visited in decreasing declination (`np.argsort(dec, kind='mergesort')[::-1]`); each one
joins the most recently created group that has a member `near` it (`|Δra| ≤ far/cos(dec)` and
`dist < eps`), or starts a new group.  The `if srccat.dec[group[-1]] < decmin` test in the code can
never fire for `far ≥ 0` because rows arrive in decreasing declination; it is not modelled. -/

def decLe (a b : Src) : Bool := decide (a.dec ≤ b.dec)

/-- stable ascending argsort, reversed -/
def decOrder (cat : List Src) : List Src := (cat.mergeSort decLe).reverse

/-- groups are kept most-recent-first; `none` = no group has a member near `s` -/
def placeRev (near : Src → Src → Bool) (s : Src) : List (List Src) → Option (List (List Src))
  | [] => none
  | g :: gs =>
    if g.any (near s) then some ((g ++ [s]) :: gs)
    else (placeRev near s gs).map (g :: ·)

def greedyStep (near : Src → Src → Bool) (groupsRev : List (List Src)) (s : Src) : List (List Src) :=
  match placeRev near s groupsRev with
  | some gs => gs
  | none => [s] :: groupsRev

/-- groups (most recent first) after scanning `order` -/
def greedyRev (near : Src → Src → Bool) (order : List Src) : List (List Src) :=
  order.foldl (greedyStep near) []

/-- `regroup_vectorized`, in creation order -/
def greedy (near : Src → Src → Bool) (cat : List Src) : List (List Src) :=
  (greedyRev near (decOrder cat)).reverse

/-- `regroup`: greedy groups, relabelled by flux -/
def regroupGreedy (near : Src → Src → Bool) (cat : List Src) : List (List Src) :=
  (greedy near cat).zipIdx.map fun (g, k) => relabelGroup k g

/-! ### 5. `resize` with a ratio (cluster.py:399-418, repaired: a source without psf information
keeps its shape) -/

structure Shape (α : Type) where
  a : α
  b : α
  /-- `none` = the catalogue has no (finite) psf for this source -/
  psf : Option (α × α)

/-- new `(a, b)` of one source; `fa a b psf_a psf_b ratio`, `fb …` are the regenerated formulas -/
def resizeShape {α : Type} (fa fb : α → α → α → α → α → α) (ratio : α) (s : Shape α) : α × α :=
  match s.psf with
  | none => (s.a, s.b)
  | some (pa, pb) => (fa s.a s.b pa pb ratio, fb s.a s.b pa pb ratio)

/-- the whole catalogue: sources whose new shape is not finite are not returned -/
def resizeCat {α : Type} (fa fb : α → α → α → α → α → α) (finite : α → Bool) (ratio : α)
    (cat : List (Nat × Shape α)) : List (Nat × α × α) :=
  cat.filterMap fun (id, s) =>
    let (a, b) := resizeShape fa fb ratio s
    if finite a && finite b then some (id, a, b) else none

end Aegean.Model.C19
