/-
  C13 — the regenerated leaves (`Gen.C13.*`, written by the translator on every run) packaged for
  the hand-written glue of `Aegean/Model/C13.lean` (`ampBounds`, `summitMask`).  Mathlib-free.
-/
import Aegean.Generated.C13
import Aegean.Model.C13

namespace Aegean.Model.C13

def genLeaves {α : Type} [R α] : Leaves α :=
  ⟨Gen.C13.ampMinPos, Gen.C13.ampMaxPos, Gen.C13.ampMinNeg, Gen.C13.ampMaxNeg,
   Gen.C13.summitArgPos, Gen.C13.summitArgNeg⟩

end Aegean.Model.C13
