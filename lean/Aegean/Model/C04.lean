/-
  C04 — hand model of the parts of `AegeanTools/fitting.py` around the Jacobian that are not
  arithmetic leaves (those are regenerated into `Gen.C04.gauss`, `Gen.C04.dmds … dmdtheta`):

  * the row order of `fitting.jacobian` for a multi-component model with `vary` flags
    (`jacRows`: the loop as coded; `freeList`: the documented order, as a specification),
  * the sum model of `ntwodgaussian_lmfit` (`modelSum`),
  * the munging of `lmfit_jacobian` (`lmfitJac`: divide by `errs`, multiply by `B`, transpose),
  * the stderr-assignment loop at the end of `covar_errors` (`assignIdx`, repaired: the running
    index `j` is initialised once, before the component loop) and the pinned variant
    (`assignIdxPinned`: `j = 0` inside the component loop), kept for the negation witness.

  Mathlib-free, executable; numeric code polymorphic in `[R α]`.  The derivative entries are a
  parameter (`Derivs`), instantiated with the regenerated definitions by the driver and by the
  property file, so this file does not depend on `Aegean/Generated`.
-/
import Aegean.Num

namespace Aegean.Model.C04

/-! ### fall-backs for the regenerated arithmetic (used only when the translator reports
    UNTRANSLATABLE; they are the repaired formulas) -/
section Hand
variable {α : Type} [R α]

def gaussHand (x y amp xo yo sx sy theta : α) : α :=
  let sint := R.sin (R.radians theta)
  let cost := R.cos (R.radians theta)
  let xxo := x - xo
  let yyo := y - yo
  let e := R.npow (xxo * cost + yyo * sint) 2 / R.npow sx 2 + R.npow (xxo * sint - yyo * cost) 2 / R.npow sy 2
  amp * R.exp (e * (-(R.ofNat 1) / R.ofNat 2))

def dmdsHand (x y amp xo yo sx sy theta : α) : α := gaussHand x y amp xo yo sx sy theta / amp

/-- the amplitude derivative at `amp = 0` (where `model/amp` is 0/0): the unit-amplitude Gaussian -/
def dmds0Hand (x y amp xo yo sx sy theta : α) : α := gaussHand x y (R.ofNat 1) xo yo sx sy theta

/-- fallback of the flag "the source has an `amp == 0` special case": 0 = nothing is claimed -/
def dmdsZeroHand (x y amp xo yo sx sy theta : α) : α := R.ofNat 0

def dmdxoHand (x y amp xo yo sx sy theta : α) : α :=
  let sint := R.sin (R.radians theta)
  let cost := R.cos (R.radians theta)
  let u := (x - xo) * cost + (y - yo) * sint
  let w := (x - xo) * sint - (y - yo) * cost
  (cost * u / R.npow sx 2 + sint * w / R.npow sy 2) * gaussHand x y amp xo yo sx sy theta

def dmdyoHand (x y amp xo yo sx sy theta : α) : α :=
  let sint := R.sin (R.radians theta)
  let cost := R.cos (R.radians theta)
  let u := (x - xo) * cost + (y - yo) * sint
  let w := (x - xo) * sint - (y - yo) * cost
  (sint * u / R.npow sx 2 - cost * w / R.npow sy 2) * gaussHand x y amp xo yo sx sy theta

def dmdsxHand (x y amp xo yo sx sy theta : α) : α :=
  let u := (x - xo) * R.cos (R.radians theta) + (y - yo) * R.sin (R.radians theta)
  gaussHand x y amp xo yo sx sy theta / R.npow sx 3 * R.npow u 2

def dmdsyHand (x y amp xo yo sx sy theta : α) : α :=
  let w := (x - xo) * R.sin (R.radians theta) - (y - yo) * R.cos (R.radians theta)
  gaussHand x y amp xo yo sx sy theta / R.npow sy 3 * R.npow w 2

def dmdthetaHand (x y amp xo yo sx sy theta : α) : α :=
  let sint := R.sin (R.radians theta)
  let cost := R.cos (R.radians theta)
  let u := (x - xo) * cost + (y - yo) * sint
  let w := (x - xo) * sint - (y - yo) * cost
  gaussHand x y amp xo yo sx sy theta * (R.npow sy 2 - R.npow sx 2) * w * u / R.npow sx 2 / R.npow sy 2
    * (R.pi / R.ofNat 180)
end Hand

/-! ### parameters, components, vary flags -/

/-- the six parameters of a component, in the order of the code's loop
    `['amp', 'xo', 'yo', 'sx', 'sy', 'theta']` -/
inductive Par | amp | xo | yo | sx | sy | theta
  deriving DecidableEq, Repr

def Par.all : List Par := [.amp, .xo, .yo, .sx, .sy, .theta]

def Par.idx : Par → Nat
  | .amp => 0 | .xo => 1 | .yo => 2 | .sx => 3 | .sy => 4 | .theta => 5

structure Comp (α : Type) where
  amp : α
  xo : α
  yo : α
  sx : α
  sy : α
  theta : α

def Comp.get {α : Type} (c : Comp α) : Par → α
  | .amp => c.amp | .xo => c.xo | .yo => c.yo | .sx => c.sx | .sy => c.sy | .theta => c.theta

def Comp.setPar {α : Type} (c : Comp α) (p : Par) (v : α) : Comp α :=
  match p with
  | .amp => { c with amp := v } | .xo => { c with xo := v } | .yo => { c with yo := v }
  | .sx => { c with sx := v } | .sy => { c with sy := v } | .theta => { c with theta := v }

/-- which parameters of one component are free (`pars[prefix+p].vary`) -/
abbrev Vary := Par → Bool

/-- vary flags from a 6-bit mask, bit `k` = parameter number `k` (amp = bit 0 … theta = bit 5) -/
def Vary.ofMask (m : Nat) : Vary := fun p => m.testBit p.idx

/-- the model function and its six per-parameter derivative entries, as functions of
    (x y amp xo yo sx sy theta) -/
structure Derivs (α : Type) where
  gauss : α → α → α → α → α → α → α → α → α
  dmds : α → α → α → α → α → α → α → α → α
  dmdxo : α → α → α → α → α → α → α → α → α
  dmdyo : α → α → α → α → α → α → α → α → α
  dmdsx : α → α → α → α → α → α → α → α → α
  dmdsy : α → α → α → α → α → α → α → α → α
  dmdtheta : α → α → α → α → α → α → α → α → α

/-- the hand-written (repaired) formulas: proved to be the true derivatives in
    `Aegean/Proofs/C04Hand.lean` independently of the source; the failing-input search evaluates
    them at `Float` as the reference -/
def handDerivs {α : Type} [R α] : Derivs α where
  gauss := gaussHand
  dmds := dmdsHand
  dmdxo := dmdxoHand
  dmdyo := dmdyoHand
  dmdsx := dmdsxHand
  dmdsy := dmdsyHand
  dmdtheta := dmdthetaHand

variable {α : Type}

def Derivs.model (D : Derivs α) (c : Comp α) (x y : α) : α := D.gauss x y c.amp c.xo c.yo c.sx c.sy c.theta

/-- the Jacobian entry for parameter `p` of component `c` at pixel `(x, y)` -/
def Derivs.entry (D : Derivs α) (p : Par) (c : Comp α) (x y : α) : α :=
  match p with
  | .amp => D.dmds x y c.amp c.xo c.yo c.sx c.sy c.theta
  | .xo => D.dmdxo x y c.amp c.xo c.yo c.sx c.sy c.theta
  | .yo => D.dmdyo x y c.amp c.xo c.yo c.sx c.sy c.theta
  | .sx => D.dmdsx x y c.amp c.xo c.yo c.sx c.sy c.theta
  | .sy => D.dmdsy x y c.amp c.xo c.yo c.sx c.sy c.theta
  | .theta => D.dmdtheta x y c.amp c.xo c.yo c.sx c.sy c.theta

/-- one row of the Jacobian: the entry at every pixel -/
def Derivs.row (D : Derivs α) (pix : List (α × α)) (c : Comp α) (p : Par) : List α :=
  pix.map (fun xy => D.entry p c xy.1 xy.2)

/-! ### `fitting.jacobian`: the loop as coded -/

/-- the body of the component loop: six `if pars[prefix+p].vary: matrix.append(…)` in the
    order they appear in the source -/
def compRows (D : Derivs α) (pix : List (α × α)) (c : Comp α) (v : Vary) (matrix : List (List α)) :
    List (List α) :=
  let matrix := if v .amp then matrix ++ [D.row pix c .amp] else matrix
  let matrix := if v .xo then matrix ++ [D.row pix c .xo] else matrix
  let matrix := if v .yo then matrix ++ [D.row pix c .yo] else matrix
  let matrix := if v .sx then matrix ++ [D.row pix c .sx] else matrix
  let matrix := if v .sy then matrix ++ [D.row pix c .sy] else matrix
  let matrix := if v .theta then matrix ++ [D.row pix c .theta] else matrix
  matrix

/-- `for i in range(components): …` starting from `matrix = []` -/
def jacLoop (D : Derivs α) (pix : List (α × α)) : List (Comp α × Vary) → List (List α) → List (List α)
  | [], matrix => matrix
  | (c, v) :: rest, matrix => jacLoop D pix rest (compRows D pix c v matrix)

def jacRows (D : Derivs α) (pix : List (α × α)) (comps : List (Comp α × Vary)) : List (List α) :=
  jacLoop D pix comps []

/-! ### the documented order, as a specification

  "Documented order" is a property of the MODEL (components and their vary flags), not of the
  `lmfit.Parameters` object that carries it: component 0 first, then component 1, …; inside a
  component amp, xo, yo, sx, sy, theta; only the free ones.  It does not depend on the order in
  which the `c<i>_<name>` entries were inserted into the Parameters object (the correspondence
  builds them component by component, quantity by quantity, reversed, and with entries deleted
  and re-added).  lmfit's own variable order *is* the insertion order; `do_lmfit` has to permute
  the columns it hands over accordingly (harness probe `optimiser_pairing`). -/

/-- the free parameters, component-major, inside a component in the order amp, xo, yo, sx, sy,
    theta; `i₀` is the index of the first component of the list -/
def freeListFrom : List Vary → Nat → List (Nat × Par)
  | [], _ => []
  | v :: vs, i₀ => (Par.all.filter v).map (fun p => (i₀, p)) ++ freeListFrom vs (i₀ + 1)

def freeList (vs : List Vary) : List (Nat × Par) := freeListFrom vs 0

/-- number of free parameters of one component -/
def nfreeComp (v : Vary) : Nat := (Par.all.filter v).length

/-- number of free parameters of the whole model -/
def nfree (vs : List Vary) : Nat := (vs.map nfreeComp).sum

/-- number of free parameters of a component that come before `p` -/
def countBefore (v : Vary) (p : Par) : Nat := ((Par.all.take p.idx).filter v).length

/-- `rank vs i p`: the number of free parameters that come before parameter `p` of component `i`,
    counted over ALL components -/
def rank : List Vary → Nat → Par → Nat
  | [], _, _ => 0
  | v :: _, 0, p => countBefore v p
  | v :: vs, i + 1, p => nfreeComp v + rank vs i p

/-! ### `ntwodgaussian_lmfit`: the sum model -/
section Sum
variable [R α]

/-- `result = gauss(c0); result += gauss(c1); …`  (Python returns `None` for zero components;
    a fit always has at least one, the model gives 0 there) -/
def modelSum (D : Derivs α) (comps : List (Comp α)) (x y : α) : α :=
  match comps with
  | [] => R.ofNat 0
  | c :: cs => cs.foldl (fun acc c' => acc + D.model c' x y) (D.model c x y)

/-! ### `lmfit_jacobian`: divide by errs, multiply by B, transpose -/

def dot (a b : List α) : α := (List.zipWith (· * ·) a b).foldl (· + ·) (R.ofNat 0)

def column (B : List (List α)) (j : Nat) : List α := B.map (fun r => r.getD j (R.ofNat 0))

/-- `M.T` for a matrix with `ncols` columns -/
def transpose (M : List (List α)) (ncols : Nat) : List (List α) :=
  (List.range ncols).map (fun j => column M j)

/-- `M.dot(B)` for `M : n × m`, `B : m × k` (given `k`): entry `(i, j)` is `dot (row i of M) (column j of B)` -/
def matMul (M B : List (List α)) (k : Nat) : List (List α) :=
  let bt := transpose B k
  M.map (fun r => bt.map (fun c => dot r c))

/-- `matrix /= errs` (numpy broadcasting along the pixel axis: entry `(k, j)` is divided by
    `errs[j]`; a scalar `errs` is the constant list) -/
def divErrs (M : List (List α)) (errs : List α) : List (List α) :=
  M.map (fun r => List.zipWith (· / ·) r errs)

/-- `lmfit_jacobian(pars, x, y, errs, B)` from the rows of `jacobian`: `npix` columns.
    `errs = none` / `B = none` are the Python `None`s. -/
def lmfitJac (rows : List (List α)) (npix : Nat) (errs : Option (List α)) (B : Option (List (List α))) :
    List (List α) :=
  let m := match errs with | some e => divErrs rows e | none => rows
  match B with
  | some b => transpose (matMul m b npix) npix
  | none => transpose m npix

/-! ### `lmfit_jacobian` as a pipeline of regenerated steps (deepening round)

  The translator reads the body of `lmfit_jacobian` as a sequence of steps on the matrix of rows
  (`Gen.C04.lmjOp k` = code of step `k`, `Gen.C04.lmjLen` = number of steps):
  1 = `if errs is not None: M /= errs`, 2 = `if B is not None: M = M.dot(B)`, 3 = `M = np.transpose(M)`.
  `runOps` is the fixed glue that executes such a pipeline; state = (matrix, its number of columns). -/

def lmjOpHand (k : Nat) : Nat := if k = 0 then 1 else if k = 1 then 2 else if k = 2 then 3 else 0
def lmjLenHand (_k : Nat) : Nat := 3
def lmjSrcHand (_k : Nat) : Nat := 1

def stepOp (code : Nat) (errs : Option (List α)) (B : Option (List (List α)))
    (st : List (List α) × Nat) : List (List α) × Nat :=
  if code = 1 then ((match errs with | some e => divErrs st.1 e | none => st.1), st.2)
  else if code = 2 then ((match B with | some b => matMul st.1 b st.2 | none => st.1), st.2)
  else if code = 3 then (transpose st.1 st.2, st.1.length)
  else st

def runOps (op : Nat → Nat) (len : Nat) (rows : List (List α)) (npix : Nat) (errs : Option (List α))
    (B : Option (List (List α))) : List (List α) :=
  ((List.range len).foldl (fun st k => stepOp (op k) errs B st) (rows, npix)).1
end Sum

/-! ### `covar_errors`: how the Fisher matrix is assembled (deepening round)

  The translator reads, in the C branch and in the B branch of `covar_errors`, the call that
  produces `J`, the product that defines `covar` and the expression for `onesigma`
  (`Gen.C04.fis*`): a word over 1 = `Jᵀ`, 2 = `J`, 3 = `inv(C)`; the keyword arguments of the
  `lmfit_jacobian` call (1 = errs only, 2 = errs and B); 1 for `sqrt(diag(inv(covar)))`.
  These are the hand fall-backs (the repaired code). -/

def fisWordCHand (k : Nat) : Nat := if k = 0 then 1 else if k = 1 then 3 else if k = 2 then 2 else 0
def fisWordBHand (k : Nat) : Nat := if k = 0 then 1 else if k = 1 then 2 else 0
def fisLenCHand (_k : Nat) : Nat := 3
def fisLenBHand (_k : Nat) : Nat := 2
def fisJacCHand (_k : Nat) : Nat := 1
def fisJacBHand (_k : Nat) : Nat := 2
def fisSigmaHand (_k : Nat) : Nat := 1
def fisMaskHand (_k : Nat) : Nat := 1
def fitMaskHand (_k : Nat) : Nat := 1

/-- what a pixel of the island image can hold -/
inductive PixVal | finite | nan | posInf | negInf
  deriving DecidableEq, Repr

/-- which pixels a selection predicate keeps: kind 1 = `np.isfinite(data)`, kind 2 = `~np.isnan(data)`
    (keeps ±inf); any other kind keeps nothing -/
def keeps (kind : Nat) (v : PixVal) : Bool :=
  if kind = 1 then v == .finite else if kind = 2 then v != .nan else false

/-! ### `covar_errors`: the stderr-assignment loop

  State of the loop: the running index `j` and the table `st` of which `onesigma` index has
  been written into `params[c<i>_<p>].stderr` (a later write overrides an earlier one, as an
  attribute assignment does). -/

abbrev Table := Nat × Par → Option Nat

def Table.empty : Table := fun _ => none

def Table.write (st : Table) (k : Nat × Par) (j : Nat) : Table := fun k' => if k' = k then some j else st k'

/-- `for p in ['amp', …]: if params[prefix+p].vary: params[prefix+p].stderr = onesigma[j]; j += 1` -/
def parLoop (v : Vary) (i : Nat) : List Par → Nat → Table → Nat × Table
  | [], j, st => (j, st)
  | p :: ps, j, st => if v p then parLoop v i ps (j + 1) (st.write (i, p) j) else parLoop v i ps j st

/-- the repaired component loop: `j` is carried from one component to the next -/
def compLoop : List Vary → Nat → Nat → Table → Table
  | [], _, _, st => st
  | v :: vs, i, j, st =>
    let r := parLoop v i Par.all j st
    compLoop vs (i + 1) r.1 r.2

/-- the pinned component loop: `j = 0` at the top of every iteration -/
def compLoopPinned : List Vary → Nat → Table → Table
  | [], _, st => st
  | v :: vs, i, st =>
    let r := parLoop v i Par.all 0 st
    compLoopPinned vs (i + 1) r.2

/-- which entry of `onesigma` ends up in `params[c<i>_<p>].stderr` (`none`: never assigned) -/
def assignIdx (vs : List Vary) : Table := compLoop vs 0 0 Table.empty

def assignIdxPinned (vs : List Vary) : Table := compLoopPinned vs 0 Table.empty

/-- the stderr written for `(i, p)`: `onesigma[j]` (`none` also when `j` is out of range, where
    Python raises IndexError) -/
def assignStderr {β : Type} (onesigma : List β) (vs : List Vary) (k : Nat × Par) : Option β :=
  (assignIdx vs k).bind (fun j => onesigma[j]?)

end Aegean.Model.C04
