/-
  C12 — model of the exporters of `regions.Region`: `_uniq` (the NPIX column of the MOC FITS
  file), the header's MOCORDER, and the list of DS9 polygons.  The encoder expression and the
  loop range are the *regenerated* `Gen.C12.encode` / `Gen.C12.levels`.  Mathlib-free.
-/
import Aegean.Model.C08
import Aegean.Generated.C12

namespace Aegean.Model.C12
open Aegean.Model.C08

def insertSorted (a : Nat) : List Nat → List Nat
  | [] => [a]
  | b :: l => if a ≤ b then a :: b :: l else b :: insertSorted a l

/-- `sorted(pd)` -/
def isort : List Nat → List Nat
  | [] => []
  | a :: l => insertSorted a (isort l)

/-- `_uniq()` with the encoder and the loop range as parameters -/
def uniqWith (enc : Nat → Nat → Nat) (levels : Nat → List Nat) (r : Region) : List Nat :=
  isort ((levels r.m).flatMap (fun d => (r.pd d).map (enc d)))

/-- `_uniq()` as coded -/
def uniq (r : Region) : List Nat := uniqWith Gen.C12.encode Gen.C12.levels r

/-- header keyword MOCORDER written by `write_fits` (the value expression is regenerated) -/
def mocOrder (r : Region) : Nat := Gen.C12.mocOrderOf r.m

/-- `write_reg`: one polygon per stored pixel, the regenerated level loop, `for p in pixeldict[d]`;
    the four vertices are `hp.boundaries(2**d, p, step=1, nest=True)` (healpy: oracle) -/
def regPolys (r : Region) : List (Nat × Nat) :=
  (Gen.C12.regLevels r.m).flatMap (fun d => (r.pd d).map (fun p => (d, p)))

end Aegean.Model.C12
