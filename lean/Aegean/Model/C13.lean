/-
  C13 — executable model of the sign-dependent logic of the source finder.

  1. detection  (`source_finder.find_islands`):  `snr = |im − bkg| / rms`, flood mask `snr ≥ flood`,
     seed mask `snr > seed`, 8-connected components of the flood mask that own a seed pixel.
     (own small model; the labelling is an executable min-label propagation and is *opaque* to
     the theorems: what they use is that the islands are a function of the two masks.)
  2. curvature  (`SourceFinder._fit_island`): 3×3 max-filter peaks and min-filter troughs on the island's
     window (scipy's rank filters modelled as the ring algorithm they are, NaN pixels included), `icurve[pmask] = −1; icurve[tmask] += 1` (repaired; the pinned tree wrote `= 1`, troughs winning).
  3. estimation (`SourceFinder.estimate_lmfit_parinfo`): `isnegative`, island flags, the
     "tiny island" path, the summit mask of the positive / negative branch, summits as 4-connected
     components of that mask, the `sorted(..., key = nanmax(−|x|))` order, per summit: amplitude
     and position (`nanmax/nanargmax` or `nanmin/nanargmin`), the box-SNR test, the amplitude
     bounds (two branches on the sign of `amp`), `max_summits`, flags and the `vary` switches.
  4. objective (`fitting.ntwodgaussian_lmfit` / the `residual` closure of `do_lmfit`): sum of
     component Gaussians minus data; the Gaussian itself is a parameter (`Gen.C13.gauss` is passed in).
  5. polarity filter (`find_sources_in_image`, the `nopositive / nonegative` test).

  Mathlib-free; numeric code polymorphic in `[R α] [Cmp α]`.  `Option α` = "not finite" (NaN).
-/
import Aegean.Num

namespace Aegean.Model.C13

/-- a pixel `(row, column)`, 0-based, as numpy indexes `data[x, y]` (the code calls them x, y) -/
abbrev Px := Nat × Nat

/-- the two comparisons the code uses; at `Float` they are the IEEE ones (false on NaN) -/
class Cmp (α : Type) where
  lt : α → α → Bool
  le : α → α → Bool

instance : Cmp Float where
  lt a b := a < b
  le a b := a ≤ b

/-- all pixels of an `H × W` array in row-major (numpy `ravel`) order -/
def allPx (H W : Nat) : List Px :=
  (List.range H).flatMap (fun r => (List.range W).map (fun c => (r, c)))

def inGrid (H W : Nat) (p : Px) : Bool := decide (p.1 < H) && decide (p.2 < W)

/-! ## 0. connected components of a mask (opaque to the theorems) -/

/-- neighbours (truncated subtraction at the border yields the pixel itself or a true neighbour) -/
def nbrs (conn8 : Bool) (p : Px) : List Px :=
  let r := p.1
  let c := p.2
  let four := [(r - 1, c), (r, c - 1), (r, c + 1), (r + 1, c)]
  if conn8 then four ++ [(r - 1, c - 1), (r - 1, c + 1), (r + 1, c - 1), (r + 1, c + 1)] else four

def idx (W : Nat) (p : Px) : Nat := p.1 * W + p.2

/-- one in-place sweep of min-label propagation -/
def sweep (conn8 : Bool) (H W : Nat) (mask : Px → Bool) (lab : Array Nat) : Array Nat :=
  (allPx H W).foldl (fun a p =>
    if mask p then
      let m := (nbrs conn8 p).foldl (fun m q =>
        if inGrid H W q && mask q then Nat.min m (a.getD (idx W q) (H * W)) else m) (a.getD (idx W p) (H * W))
      a.setIfInBounds (idx W p) m
    else a) lab

def sweeps (conn8 : Bool) (H W : Nat) (mask : Px → Bool) : Nat → Array Nat → Array Nat
  | 0, lab => lab
  | fuel + 1, lab =>
    let lab' := sweep conn8 H W mask lab
    if lab' == lab then lab else sweeps conn8 H W mask fuel lab'

/-- the connected components of `mask` inside `H × W`, each in row-major order, ordered by their
    first pixel (which is `scipy.ndimage.label`'s numbering) -/
def components (conn8 : Bool) (H W : Nat) (mask : Px → Bool) : List (List Px) :=
  let m : Px → Bool := fun p => inGrid H W p && mask p
  let lab := sweeps conn8 H W m (H * W + 1) (Array.range (H * W))
  let ps := (allPx H W).filter m
  let roots := ps.filter (fun p => lab.getD (idx W p) (H * W) == idx W p)
  roots.map (fun r => ps.filter (fun p => lab.getD (idx W p) (H * W) == idx W r))

section numeric
variable {α : Type} [R α] [Cmp α]

def zero : α := R.ofNat 0

/-! ## 1. detection -/

/-- `snr = abs(im - bkg) / rms`; blank in ⇒ blank out -/
def snr (im bkg rms : Option α) : Option α :=
  match im, bkg, rms with
  | some i, some b, some r => some (R.abs (i - b) / r)
  | _, _, _ => none

/-- `snr >= clip` (false for a blank pixel) -/
def geClip (s : Option α) (clip : α) : Bool :=
  match s with
  | some x => Cmp.le clip x
  | none => false

/-- `snr > clip` (false for a blank pixel) -/
def gtClip (s : Option α) (clip : α) : Bool :=
  match s with
  | some x => Cmp.lt clip x
  | none => false

def floodMask (im bkg rms : Px → Option α) (flood : α) : Px → Bool :=
  fun p => geClip (snr (im p) (bkg p) (rms p)) flood

def seedMask (im bkg rms : Px → Option α) (seed : α) : Px → Bool :=
  fun p => gtClip (snr (im p) (bkg p) (rms p)) seed

/-- islands from the two masks: 8-connected components of the flood mask owning a seed pixel -/
def islandsOfMasks (H W : Nat) (A Sd : Px → Bool) : List (List Px) :=
  (components true H W A).filter (fun c => c.any Sd)

/-- `find_islands(im, bkg, rms, seed_clip, flood_clip)` as lists of member pixels -/
def findIslands (H W : Nat) (im bkg rms : Px → Option α) (seed flood : α) : List (List Px) :=
  islandsOfMasks H W (floodMask im bkg rms flood) (seedMask im bkg rms seed)

/-- pointwise negation of an image with blanks -/
def negImg (im : Px → Option α) : Px → Option α := fun p => (im p).map (fun v => -v)

/-! ## 2. curvature on a window

  `scipy.ndimage.maximum_filter / minimum_filter (size=3)` are separable: a 1-D rank filter along
  axis 0, then along axis 1 on the result, each line extended by one copy of its end values
  (`reflect`).  The 1-D filter is the MINLIST/MAXLIST ring algorithm of `ni_filters.c`; with NaN
  pixels (every comparison false) its output is NOT the min/max of the window — a NaN is queued,
  never popped, and becomes the output once it reaches the front — so it is modelled as the
  algorithm it is (`qstep`, `qrun`), generic in the comparison `rel val other`
  (`val <= other` for the minimum, `val >= other` for the maximum).  `none` = NaN. -/

section rank
variable {V : Type}

/-- drop queue entries from the back while `rel val entry` -/
def popBack (rel : V → V → Bool) (val : V) (q : List (V × Nat)) : List (V × Nat) :=
  (q.reverse.dropWhile (fun e => rel val e.1)).reverse

/-- retire the front entry when its time is up -/
def qretire (q : List (V × Nat)) (ll : Nat) : List (V × Nat) :=
  match q with
  | (v, d) :: r => if d == ll then r else (v, d) :: r
  | [] => []

/-- if the new value beats the front it becomes the only entry, else it is queued behind what it
    does not beat -/
def qpush (rel : V → V → Bool) (q : List (V × Nat)) (ll : Nat) (val : V) : List (V × Nat) :=
  match q with
  | [] => [(val, ll + 3)]
  | (fv, fd) :: r =>
    if rel val fv then [(val, ll + 3)] else popBack rel val ((fv, fd) :: r) ++ [(val, ll + 3)]

/-- one step of the ring algorithm (filter size 3) -/
def qstep (rel : V → V → Bool) (q : List (V × Nat)) (ll : Nat) (val : V) : List (V × Nat) :=
  qpush rel (qretire q ll) ll val

/-- feed the extended line; from `ll = 2` on the front of the queue is the output -/
def qrun (rel : V → V → Bool) : Nat → List (V × Nat) → List V → List V
  | _, _, [] => []
  | ll, q, val :: rest =>
    let q' := qstep rel q ll val
    let tail := qrun rel (ll + 1) q' rest
    if 2 ≤ ll then (match q' with | (v, _) :: _ => v | [] => val) :: tail else tail

def lastOf : List V → V → V
  | [], d => d
  | x :: r, _ => lastOf r x

/-- `minimum_filter1d / maximum_filter1d (size=3, mode='reflect')` -/
def filter1d (rel : V → V → Bool) (line : List V) : List V :=
  match line with
  | [] => []
  | x0 :: r => qrun rel 1 [(x0, 3)] ((x0 :: r) ++ [lastOf r x0])

/-- value at `(r, c)` of a list of rows -/
def look (blank : V) (rows : List (List V)) (p : Px) : V := (rows.getD p.1 []).getD p.2 blank

/-- the separable 2-D filter: along axis 0 (columns), then along axis 1 (rows) -/
def filter2d (rel : V → V → Bool) (blank : V) (H W : Nat) (img : Px → V) : List (List V) :=
  let cols := (List.range W).map (fun c => filter1d rel ((List.range H).map (fun r => img (r, c))))
  (List.range H).map (fun r => filter1d rel ((List.range W).map (fun c => look blank cols (c, r))))

end rank

/-- IEEE `a <= b` on possibly-blank values (false if either is NaN) -/
def leO (a b : Option α) : Bool :=
  match a, b with
  | some x, some y => Cmp.le x y
  | _, _ => false

/-- IEEE `a == b` -/
def eqO (a b : Option α) : Bool := leO a b && leO b a

/-- `val >= other` -/
def relMax (val other : Option α) : Bool := leO other val
/-- `val <= other` -/
def relMin (val other : Option α) : Bool := leO val other

def maxFilter (H W : Nat) (img : Px → Option α) : List (List (Option α)) := filter2d relMax none H W img
def minFilter (H W : Nat) (img : Px → Option α) : List (List (Option α)) := filter2d relMin none H W img

/-- `maximum_filter(img, 3) == img` at `p` -/
def isPeak (H W : Nat) (img : Px → Option α) (p : Px) : Bool :=
  eqO (look none (maxFilter H W img) p) (img p)

/-- `minimum_filter(img, 3) == img` at `p` -/
def isTrough (H W : Nat) (img : Px → Option α) (p : Px) : Bool :=
  eqO (look none (minFilter H W img) p) (img p)

/-- the whole curvature map of a window: `icurve[pmask] = -1; icurve[tmask] += 1` (REPAIRED: a
    pixel that is both a 3×3 maximum and a 3×3 minimum — a flat neighbourhood — gets 0) -/
def curveRows (H W : Nat) (img : Px → Option α) : List (List Int) :=
  let mx := maxFilter H W img
  let mn := minFilter H W img
  (List.range H).map (fun r => (List.range W).map (fun c =>
    (if eqO (look none mx (r, c)) (img (r, c)) then -1 else 0)
      + (if eqO (look none mn (r, c)) (img (r, c)) then (1 : Int) else 0)))

def curveAt (H W : Nat) (img : Px → Option α) (p : Px) : Int := look 0 (curveRows H W img) p

/-- the pinned tree's `icurve[pmask] = -1; icurve[tmask] = 1`: troughs are written last and win,
    so a flat pixel gets `+1` in the image and in its negative (kept for the negation witness) -/
def curveAtPinned (H W : Nat) (img : Px → Option α) (p : Px) : Int :=
  if isTrough H W img p then 1 else if isPeak H W img p then -1 else 0

/-- the window `_fit_island` cuts out of the image for an island box `[xmin,xmax) × [ymin,ymax)`:
    rows `[xmin − bx0, xmax + bx1)`, columns `[ymin − by0, min(ymax + by0, imgW))`
    (the code uses `buffy[0]` for the upper column bound too).  Returns `(r0, c0, h, w)`. -/
def window (imgH imgW xmin xmax ymin ymax : Nat) : Nat × Nat × Nat × Nat :=
  let bx0 := xmin - (xmin - 1)
  let bx1 := Nat.min (xmax + 1) imgH - xmax
  let by0 := ymin - (ymin - 1)
  let r0 := xmin - bx0
  let r1 := Nat.min (xmax + bx1) imgH
  let c0 := ymin - by0
  let c1 := Nat.min (ymax + by0) imgW
  (r0, c0, r1 - r0, c1 - c0)

/-- the cropped curvature map handed to `estimate_lmfit_parinfo`, indexed by island-box pixel;
    `img` is the background-subtracted image, `none` = NaN -/
def islandCurve (imgH imgW xmin xmax ymin ymax : Nat) (img : Px → Option α) : Px → Int :=
  let (r0, c0, h, w) := window imgH imgW xmin xmax ymin ymax
  fun p =>
    let q : Px := (p.1 + xmin - r0, p.2 + ymin - c0)
    if inGrid h w q then curveAt h w (fun t => img (t.1 + r0, t.2 + c0)) q else 0

/-- the same map as a row-major list over the island box, the filters evaluated once (driver) -/
def islandCurveList (imgH imgW xmin xmax ymin ymax : Nat) (img : Px → Option α) : List Int :=
  let (r0, c0, h, w) := window imgH imgW xmin xmax ymin ymax
  let rows := curveRows h w (fun t => img (t.1 + r0, t.2 + c0))
  (allPx (xmax - xmin) (ymax - ymin)).map (fun p =>
    let q : Px := (p.1 + xmin - r0, p.2 + ymin - c0)
    if inGrid h w q then look 0 rows q else 0)

/-! ## 3. estimate_lmfit_parinfo -/

def FITERRSMALL : Nat := 1
def FIXED2PSF : Nat := 4
def NOTFIT : Nat := 16

def c095 : α := R.ofSci 95 true 2

/-! hand copies of the regenerated arithmetic leaves of `estimate_lmfit_parinfo` (fallbacks of
    `Gen.C13.ampMinPos …`, used only when the translator reports UNTRANSLATABLE) -/
def ampMinPosHand (amp r innerclip outerclip sampling : α) : α := c095 * R.min (outerclip * r) amp
def ampMaxPosHand (amp r innerclip outerclip sampling : α) : α := amp * sampling + innerclip * r
def ampMinNegHand (amp r innerclip outerclip sampling : α) : α := amp * sampling - innerclip * r
def ampMaxNegHand (amp r innerclip outerclip sampling : α) : α := c095 * R.max ((-outerclip) * r) amp
def summitArgPosHand (data rmsimg innerclip outerclip : α) : α := data - outerclip * rmsimg
def summitArgNegHand (data rmsimg innerclip outerclip : α) : α := data + outerclip * rmsimg

/-- the arithmetic leaves of `estimate_lmfit_parinfo` that are regenerated from source on every run:
    the four amplitude-bound expressions `f amp r innerclip outerclip sampling` and the two
    thresholded quantities of the summit masks `g data rmsimg innerclip outerclip` -/
structure Leaves (α : Type) where
  ampMinPos : α → α → α → α → α → α
  ampMaxPos : α → α → α → α → α → α
  ampMinNeg : α → α → α → α → α → α
  ampMaxNeg : α → α → α → α → α → α
  summitArgPos : α → α → α → α → α
  summitArgNeg : α → α → α → α → α

def handLeaves : Leaves α :=
  ⟨ampMinPosHand, ampMaxPosHand, ampMinNegHand, ampMaxNegHand, summitArgPosHand, summitArgNegHand⟩

/-- what `estimate_lmfit_parinfo` is given for one island -/
structure Island (α : Type) where
  h : Nat
  w : Nat
  /-- island pixels, `none` = NaN (masked / not a member) -/
  data : Px → Option α
  rms : Px → α
  curve : Px → Int
  /-- the amplitude allowance `sampling` (≥ 1.05) the psf helper yields at each pixel -/
  sampling : Px → α

structure Params (α : Type) where
  inner : α
  outer : α
  maxSummits : Option Nat
  /-- the regenerated leaves (`C13Glue.genLeaves`; `handLeaves` only as a reference) -/
  leaves : Leaves α

/-- the negated problem: data negated, curvature negated (see `curvature_negation`) -/
def negI (I : Island α) : Island α :=
  { I with data := negImg I.data, curve := fun p => - I.curve p }

/-- values at a list of positions, NaNs dropped (what `nanmax`-style reductions see) -/
def valsAt (data : Px → Option α) (px : List Px) : List (Px × α) :=
  px.filterMap (fun p => (data p).map (fun v => (p, v)))

def finitePx (I : Island α) : List (Px × α) := valsAt I.data (allPx I.h I.w)

/-- `isnegative = np.nanmax(data[np.isfinite(data)]) < 0` (for a non-empty island) -/
def isNegative (I : Island α) : Bool := (finitePx I).all (fun pv => Cmp.lt pv.2 zero)

/-- the island-size flag from the number of finite pixels -/
def islandFlag (n : Nat) : Nat :=
  if 4 ≤ n ∧ n ≤ 6 then FIXED2PSF else if n < 4 then FITERRSMALL else 0

/-- `min(data.shape) <= 2 or (is_flag & FITERRSMALL) or (is_flag & FIXED2PSF)` -/
def tiny (h w fl : Nat) : Bool :=
  decide (Nat.min h w ≤ 2) || (fl &&& FITERRSMALL != 0) || (fl &&& FIXED2PSF != 0)

/-- a summit: its pixel positions (row-major) and its box `[xmin,xmax) × [ymin,ymax)` in the island -/
structure Summit where
  px : List Px
  xmin : Nat
  xmax : Nat
  ymin : Nat
  ymax : Nat
  deriving DecidableEq, Repr

def boxOf (px : List Px) : Summit :=
  let rs := px.map (·.1)
  let cs := px.map (·.2)
  { px := px,
    xmin := rs.foldl Nat.min (rs.headD 0), xmax := rs.foldl Nat.max 0 + 1,
    ymin := cs.foldl Nat.min (cs.headD 0), ymax := cs.foldl Nat.max 0 + 1 }

/-- the summit mask (glue around the regenerated arguments): `curve > 0.5 ∧ argNeg < 0` (negative
    island, `argNeg = data + outer·rms`) or `−curve > 0.5 ∧ argPos > 0` (positive island,
    `argPos = data − outer·rms`); NaN data ⇒ not a summit pixel -/
def summitMask (neg : Bool) (I : Island α) (P : Params α) : Px → Bool := fun p =>
  match I.data p with
  | none => false
  | some d =>
    if neg then decide (1 ≤ I.curve p) && Cmp.lt (P.leaves.summitArgNeg d (I.rms p) P.inner P.outer) zero
    else decide (I.curve p ≤ -1) && Cmp.lt zero (P.leaves.summitArgPos d (I.rms p) P.inner P.outer)

/-- summits of a non-tiny island: 4-connected components (`scipy.ndimage.label` default) of the mask -/
def summitsOfMask (h w : Nat) (mask : Px → Bool) : List Summit :=
  (components false h w mask).map boxOf

/-- the single "summit" of a tiny island: the whole array -/
def wholeSummit (I : Island α) : Summit :=
  { px := (finitePx I).map (·.1), xmin := 0, xmax := I.h, ymin := 0, ymax := I.w }

/-- first strictly-best element (`np.nanargmax` / `np.nanargmin` return the first occurrence) -/
def best (better : α → α → Bool) : Option (Px × α) → List (Px × α) → Option (Px × α)
  | acc, [] => acc
  | none, x :: r => best better (some x) r
  | some c, x :: r => best better (if better x.2 c.2 then some x else some c) r

/-- position and amplitude of a summit: max for a positive island, min for a negative one -/
def peak (neg : Bool) (I : Island α) (s : Summit) : Option (Px × α) :=
  best (fun new cur => if neg then Cmp.lt new cur else Cmp.lt cur new) none (valsAt I.data s.px)

/-- running maximum with `Cmp.lt` -/
def maxL : Option α → List α → Option α
  | acc, [] => acc
  | none, x :: r => maxL (some x) r
  | some c, x :: r => maxL (if Cmp.lt c x then some x else some c) r

/-- the sort key `np.nanmax(-1.0 * abs(summit))` -/
def key (I : Island α) (s : Summit) : Option α :=
  maxL none ((valsAt I.data s.px).map (fun pv => -(R.abs pv.2)))

/-- `key a ≤ key b` (a missing key sorts first; summits are never empty) -/
def keyLe (I : Island α) (a b : Summit) : Bool :=
  match key I a, key I b with
  | some x, some y => !(Cmp.lt y x)
  | none, _ => true
  | some _, none => false

/-- `sorted(summits, key=…)` (stable) -/
def sortSummits (I : Island α) (l : List Summit) : List Summit := l.mergeSort (keyLe I)

/-- pixels of `data[xmin:xmax+1, ymin:ymax+1]` (numpy clips the slice to the array) -/
def extBox (I : Island α) (s : Summit) : List Px :=
  (allPx I.h I.w).filter (fun p =>
    decide (s.xmin ≤ p.1) && decide (p.1 < s.xmax + 1) && decide (s.ymin ≤ p.2) && decide (p.2 < s.ymax + 1))

/-- `np.nanmax(abs(data[box] / rms[box]))` -/
def boxSnr (I : Island α) (s : Summit) : Option α :=
  maxL none ((valsAt I.data (extBox I s)).map (fun pv => R.abs (pv.2 / I.rms pv.1)))

/-- `snr < innerclip` ⇒ the summit is skipped -/
def belowInner (I : Island α) (s : Summit) (inner : α) : Bool :=
  match boxSnr I s with
  | some x => Cmp.lt x inner
  | none => false

/-- `(amp_min, amp_max)`: the glue around the four regenerated expressions — the branch on
    `amp > 0` (checked structurally by the slicer).  `samp` is the code's
    `sampling = max(1.05, 2.0 ** (2.0 / pixbeam.b ** 2))` at the summit's peak pixel (an input: it
    comes from the psf helper and does not depend on sign) -/
def ampBounds (L : Leaves α) (amp r inner outer samp : α) : α × α :=
  if Cmp.lt zero amp then
    (L.ampMinPos amp r inner outer samp, L.ampMaxPos amp r inner outer samp)
  else
    (L.ampMinNeg amp r inner outer samp, L.ampMaxNeg amp r inner outer samp)

/-- the sign-relevant content of one component's lmfit Parameters -/
structure Comp (α : Type) where
  amp : α
  ampMin : α
  ampMax : α
  xo : Nat
  yo : Nat
  flags : Nat
  vary : Bool
  psfVary : Bool

/-- the loop over the sorted summits; `i` counts accepted components -/
def loop (P : Params α) (I : Island α) (neg : Bool) (isFlag : Nat) : Nat → List Summit → List (Comp α)
  | _, [] => []
  | i, s :: rest =>
    match peak neg I s with
    | none => loop P I neg isFlag i rest
    | some (p, amp) =>
      if belowInner I s P.inner then loop P I neg isFlag i rest
      else
        let b := ampBounds P.leaves amp (I.rms p) P.inner P.outer (I.sampling p)
        let maxxed := match P.maxSummits with
          | some m => decide (m ≤ i)
          | none => false
        let fl := if maxxed then isFlag ||| NOTFIT ||| FIXED2PSF else isFlag
        let psfVary := if fl &&& FIXED2PSF != 0 then false else !maxxed
        { amp := amp, ampMin := b.1, ampMax := b.2, xo := p.1, yo := p.2, flags := fl,
          vary := !maxxed, psfVary := psfVary } :: loop P I neg isFlag (i + 1) rest

/-- `estimate_lmfit_parinfo`: `none` = the function returns `None` (no summits) -/
def estimate (P : Params α) (I : Island α) : Option (List (Comp α)) :=
  let neg := isNegative I
  let fl0 := islandFlag (finitePx I).length
  let t := tiny I.h I.w fl0
  let summits := if t then [wholeSummit I] else summitsOfMask I.h I.w (summitMask neg I P)
  let fl := if t then fl0 ||| FIXED2PSF else fl0
  if summits.isEmpty then none else some (loop P I neg fl 0 (sortSummits I summits))

/-- what `_fit_island` hands to `estimate_lmfit_parinfo` for the island with box
    `[xmin,xmax) × [ymin,ymax)` and member test `mem` (island-box coordinates): the background-
    subtracted image restricted to the members, the rms box, and the cropped curvature map -/
def mkIsland (imgH imgW xmin xmax ymin ymax : Nat) (img : Px → Option α) (rms samp : Px → α)
    (mem : Px → Bool) : Island α :=
  { h := xmax - xmin, w := ymax - ymin,
    data := fun p => if mem p then img (p.1 + xmin, p.2 + ymin) else none,
    rms := fun p => rms (p.1 + xmin, p.2 + ymin),
    curve := islandCurve imgH imgW xmin xmax ymin ymax img,
    sampling := fun p => samp (p.1 + xmin, p.2 + ymin) }

/-- negation of a component: amplitude negated, bounds negated and swapped, the rest unchanged -/
def negC (c : Comp α) : Comp α :=
  { c with amp := -c.amp, ampMin := -c.ampMax, ampMax := -c.ampMin }

/-! ## 4. objective -/

/-- hand copy of `fitting.elliptical_gaussian`, the fallback for the regenerated `Gen.C13.gauss` -/
def gaussHand (x y amp xo yo sx sy theta : α) : α :=
  let sint := R.sin (R.radians theta)
  let cost := R.cos (R.radians theta)
  let xxo := x - xo
  let yyo := y - yo
  let e := (R.npow (xxo * cost + yyo * sint) 2) / (R.npow sx 2)
         + (R.npow (xxo * sint - yyo * cost) 2) / (R.npow sy 2)
  amp * R.exp (e * ((-(R.ofNat 1)) / (R.ofNat 2)))

/-- the six fitted parameters of one component -/
structure GP (α : Type) where
  amp : α
  xo : α
  yo : α
  sx : α
  sy : α
  theta : α

def negGP (g : GP α) : GP α := { g with amp := -g.amp }

/-- `ntwodgaussian_lmfit(params)(x, y)`: the sum of the component Gaussians (`g` = the Gaussian) -/
def modelAt (g : α → α → α → α → α → α → α → α → α) (comps : List (GP α)) (x y : α) : α :=
  comps.foldl (fun acc c => acc + g x y c.amp c.xo c.yo c.sx c.sy c.theta) zero

/-- the `residual` closure of `do_lmfit` without the `B` matrix: `model − data` per unmasked pixel -/
def residual (g : α → α → α → α → α → α → α → α → α) (comps : List (GP α)) (pix : List (α × α × α)) : List α :=
  pix.map (fun xyd => modelAt g comps xyd.1 xyd.2.1 - xyd.2.2)

/-! ## 5. polarity filter -/

/-- how the filter sees a peak flux: `> 0`, `< 0`, or neither (0 or NaN) -/
inductive Sgn | pos | neg | other
  deriving DecidableEq, Repr

def sgnOf (x : α) : Sgn :=
  if Cmp.lt zero x then .pos else if Cmp.lt x zero then .neg else .other

end numeric

/-- `not ((peak > 0 and nopositive) or (peak < 0 and nonegative))` -/
def keep (nopositive nonegative : Bool) (s : Sgn) : Bool :=
  !((s == .pos && nopositive) || (s == .neg && nonegative))

/-- the catalogue `find_sources_in_image(nopositive, nonegative)` returns, given the fitted sources -/
def filterCat {β : Type} (sg : β → Sgn) (nopositive nonegative : Bool) (cat : List β) : List β :=
  cat.filter (fun s => keep nopositive nonegative (sg s))

/-- a long-lived finder: the same fitted sources, asked with a sequence of `(nopositive, nonegative)`
    settings; the answers, in order.  (The model of the clean tree: each answer is the filter of
    that call's own flags — nothing is remembered between calls.) -/
def runHistory {β : Type} (sg : β → Sgn) (cat : List β) (calls : List (Bool × Bool)) : List (List β) :=
  calls.map (fun c => filterCat sg c.1 c.2 cat)

end Aegean.Model.C13
