/-
  C14 — hand model of `AeRes.make_model` / `AeRes.make_residual`.

  The arithmetic leaves (the window half-widths `xoff`, `yoff`, and the value
  `elliptical_gaussian(x, y, peak, xo-1, yo-1, sx*FWHM2CC, sy*FWHM2CC, theta)`) are NOT defined
  here: they are regenerated from source into `Gen.C14.*` on every run and enter the model as the
  fields of a `Leaves` record (the `…Hand` definitions below are only the translator's fallback).
  Everything else — the skip rule, floor / ceil / clip, the half-open index window, the fold over
  the catalogue, mask thresholds, add / subtract / mask — is modelled by hand and tied to the code
  by `harness/corr_C14.py`.

  Conventions read off the code (AeRes.py:96-167, wcs_helpers.py:227-246, 335-375):
  * `wcshelper.sky2pix` returns `[pixel[0][1], pixel[0][0]]`, i.e. (FITS axis-2, FITS axis-1), both
    1-based.  So `xo` is the 1-based ROW coordinate (numpy axis 0, `shape[0]`), `yo` the 1-based
    COLUMN coordinate (numpy axis 1, `shape[1]`); `x`/`i` below is a row index, `y`/`j` a column index.
  * the Gaussian is evaluated at 0-based integer indices with centre `(xo-1, yo-1)`.
  * `sx`, `sy` are FWHM in pixels; `FWHM2CC = 1/(2 sqrt(2 ln 2))` turns them into sigmas.
  * index window: rows `int(max(floor(xo-xoff),0)) … int(min(ceil(xo+xoff),shape[0])) - 1`; the
    bounds are computed from the 1-based `xo` but used as 0-based indices.

  The skip rule modelled here is the REPAIRED one (fixes/C14-01): a source is modelled iff its
  0-based centre lies on the image, `-0.5 ≤ xo-1 < shape[0]-0.5`, i.e. `0.5 ≤ xo < shape[0]+0.5`.
  The pinned tree tests `0 < xo < shape[0]` (kept as `onAxisPinned` for the negation witness).

  Mathlib-free; executable at `Float`, interpreted at `ℝ` by the theorems.
-/
import Aegean.Num
import Aegean.Py

namespace Aegean.Model.C14

/-- what AeRes needs beyond the arithmetic interface `R`: comparisons, floor/ceil to an integer,
    numpy's NaN test and the natural logarithm (for `FWHM2CC`). -/
class RX (α : Type) where
  ltb : α → α → Bool
  leb : α → α → Bool
  floorI : α → Int
  ceilI : α → Int
  isNaN : α → Bool
  log : α → α

instance : RX Float where
  ltb a b := decide (a < b)
  leb a b := decide (a ≤ b)
  floorI x := (Float.floor x).toInt64.toInt      -- saturating; NaN is filtered before use
  ceilI x := (Float.ceil x).toInt64.toInt
  isNaN := Float.isNaN
  log := Float.log

section leaves
variable {α : Type} [R α]

/-- fallback for `Gen.C14.gauss` (used only when the translator reports UNTRANSLATABLE) -/
def gaussHand (x y amp xo yo sx sy theta : α) : α :=
  let sint := R.sin (R.radians theta)
  let cost := R.cos (R.radians theta)
  let xxo := x - xo
  let yyo := y - yo
  let e := (R.npow (xxo * cost + yyo * sint) 2) / (R.npow sx 2)
         + (R.npow (xxo * sint - yyo * cost) 2) / (R.npow sy 2)
  amp * R.exp (e * ((-(R.ofNat 1)) / (R.ofNat 2)))

def xoffHand (sx sy theta : α) : α :=
  R.ofNat 5 * (R.abs (sx * R.cos (R.radians theta)) + R.abs (sy * R.sin (R.radians theta)))

def yoffHand (sx sy theta : α) : α :=
  R.ofNat 5 * (R.abs (sx * R.sin (R.radians theta)) + R.abs (sy * R.cos (R.radians theta)))

def modelValHand (k peak xo yo sx sy theta x y : α) : α :=
  gaussHand x y peak (xo - R.ofNat 1) (yo - R.ofNat 1) (sx * k) (sy * k) theta

/-! fallbacks for the sliced pieces (skip rule, mask thresholds, add/subtract dispatch, FWHM2CC) -/

/-- lower / upper bound of the 1-based centre coordinate on an axis of length `n`: `0.5`, `n + 0.5` -/
def skipLoHand (_n : α) : α := R.ofSci 5 true 1
def skipHiHand (n : α) : α := n + R.ofSci 5 true 1
/-- the two comparison operators of `LO <= xo < HI`: `2·[first is ≤] + [second is ≤]` -/
def skipOpsHand : Nat := 2
/-- `frac*src.peak_flux` and `sigma*src.local_rms` (parameter list of the slice: frac sigma peak rms) -/
def thrFracHand (frac _sigma peak _rms : α) : α := frac * peak
def thrSigmaHand (_frac sigma _peak rms : α) : α := sigma * rms
/-- the mask comparison `model >= threshold`: 1 for `>=`, 0 for `>` -/
def maskOpHand : Nat := 1
/-- `if add or mask: data + model else: data - model` as 1 (plus) / 0 (minus); flags are 1 = True -/
def residPlusHand (add mask : Nat) : Nat := if add = 1 ∨ mask = 1 then 1 else 0
/-- `FWHM2CC = 1 / (2 * np.sqrt(2 * np.log(2)))` as a function of `ln2 = np.log(2)` -/
def fwhm2ccOfHand (ln2 : α) : α := R.ofNat 1 / (R.ofNat 2 * R.sqrt (R.ofNat 2 * ln2))

/-- the regenerated pieces of `make_model` / `make_residual` -/
structure Leaves (α : Type) where
  /-- `xoff sx sy theta` -/
  xoff : α → α → α → α
  /-- `yoff sx sy theta` -/
  yoff : α → α → α → α
  /-- `modelVal FWHM2CC peak xo yo sx sy theta x y` -/
  modelVal : α → α → α → α → α → α → α → α → α → α
  /-- skip rule, row axis: bounds as functions of `shape[0]`, operator code -/
  skipLoX : α → α
  skipHiX : α → α
  skipOpsX : Nat
  /-- skip rule, column axis -/
  skipLoY : α → α
  skipHiY : α → α
  skipOpsY : Nat
  /-- mask thresholds `thrFrac frac sigma peak rms`, `thrSigma frac sigma peak rms`, comparison code -/
  thrFrac : α → α → α → α → α
  thrSigma : α → α → α → α → α
  maskOp : Nat
  /-- add / subtract dispatch of `make_residual` -/
  residPlus : Nat → Nat → Nat

def handLeaves : Leaves α :=
  { xoff := xoffHand, yoff := yoffHand, modelVal := modelValHand,
    skipLoX := skipLoHand, skipHiX := skipHiHand, skipOpsX := skipOpsHand,
    skipLoY := skipLoHand, skipHiY := skipHiHand, skipOpsY := skipOpsHand,
    thrFrac := thrFracHand, thrSigma := thrSigmaHand, maskOp := maskOpHand, residPlus := residPlusHand }

end leaves

/-! ### data -/

/-- a catalogue row: sky position (deg), peak flux, FWHM axes (arcsec), position angle (deg), local rms -/
structure Src (α : Type) where
  ra : α
  dec : α
  peak : α
  a : α
  b : α
  pa : α
  rms : α

/-- what `sky2pix_ellipse` returns: 1-based (row, column) centre, FWHM axes in pixels, angle in degrees -/
structure Pix (α : Type) where
  xo : α
  yo : α
  sx : α
  sy : α
  theta : α

/-- the WCS oracle: `sky2pix_ellipse [ra, dec] a b pa` (a, b in degrees) -/
abbrev Wcs (α : Type) := α → α → α → α → α → Pix α

/-- a catalogue row after the oracle has been applied -/
structure RSrc (α : Type) where
  peak : α
  rms : α
  pix : Pix α

abbrev Img (α : Type) := Nat → Nat → α

/-- half-open index window: rows `[x0,x1)`, columns `[y0,y1)` -/
structure Win where
  x0 : Nat
  x1 : Nat
  y0 : Nat
  y1 : Nat
  deriving DecidableEq, Repr

def Win.mem (w : Win) (i j : Nat) : Bool :=
  decide (w.x0 ≤ i) && decide (i < w.x1) && decide (w.y0 ≤ j) && decide (j < w.y1)

/-- `int(max(floor(v), 0))` -/
def clipLo (v : Int) : Nat := (max v 0).toNat
/-- `int(min(ceil(v), n))`; a negative value gives an empty `np.mgrid` range, as does `0` -/
def clipHi (v : Int) (n : Nat) : Nat := (min v (n : Int)).toNat

section model
variable {α : Type} [R α] [RX α]

/-- `FWHM2CC = 1 / (2 * np.sqrt(2 * np.log(2)))` -/
def fwhm2cc : α := R.ofNat 1 / (R.ofNat 2 * R.sqrt (R.ofNat 2 * RX.log (R.ofNat 2)))

def half : α := R.ofSci 5 true 1

/-- repaired skip test on one axis: the 0-based centre `xo-1` lies in `[-0.5, n-0.5)` -/
def onAxis (xo : α) (n : Nat) : Bool := RX.leb half xo && RX.ltb xo (R.ofNat n + half)

/-- one comparison of the skip chain: `≤` if `le`, else `<` -/
def cmpG (le : Bool) (a b : α) : Bool := if le then RX.leb a b else RX.ltb a b

/-- GLUE (hand-written, fixed): the skip test `not LO op₁ xo op₂ HI` assembled from the sliced bounds and the
    operator code `2·[op₁ is ≤] + [op₂ is ≤]` -/
def onAxisG (lo hi : α → α) (ops : Nat) (xo : α) (n : Nat) : Bool :=
  cmpG (ops / 2 % 2 == 1) (lo (R.ofNat n)) xo && cmpG (ops % 2 == 1) xo (hi (R.ofNat n))

def Leaves.onX (L : Leaves α) : α → Nat → Bool := onAxisG L.skipLoX L.skipHiX L.skipOpsX
def Leaves.onY (L : Leaves α) : α → Nat → Bool := onAxisG L.skipLoY L.skipHiY L.skipOpsY

/-- the pinned tree's test `0 < xo < shape` (1-based coordinate against 0-based bounds) -/
def onAxisPinned (xo : α) (n : Nat) : Bool := RX.ltb (R.ofNat 0) xo && RX.ltb xo (R.ofNat n)

def Src.resolve (wcs : Wcs α) (s : Src α) : RSrc α :=
  { peak := s.peak, rms := s.rms,
    pix := wcs s.ra s.dec (s.a / R.ofNat 3600) (s.b / R.ofNat 3600) s.pa }

/-- the index window of one source on an `nx × ny` image (`nx` rows, `ny` columns);
    `none` = the source is skipped (`continue`).  `onX`, `onY` are the per-axis skip tests. -/
def windowWith (onX onY : α → Nat → Bool) (L : Leaves α) (nx ny : Nat) (p : Pix α) : Option Win :=
  if !(onX p.xo nx) then none
  else if !(onY p.yo ny) then none
  else
    let xoff := L.xoff p.sx p.sy p.theta
    let yoff := L.yoff p.sx p.sy p.theta
    let xmin := p.xo - xoff
    let xmax := p.xo + xoff
    let ymin := p.yo - yoff
    let ymax := p.yo + yoff
    -- `if not np.all(np.isfinite([ymin, ymax, xmin, xmax])): continue` — after clipping only NaN survives
    if RX.isNaN xmin || RX.isNaN xmax || RX.isNaN ymin || RX.isNaN ymax then none
    else some { x0 := clipLo (RX.floorI xmin), x1 := clipHi (RX.ceilI xmax) nx,
                y0 := clipLo (RX.floorI ymin), y1 := clipHi (RX.ceilI ymax) ny }

def window (L : Leaves α) (nx ny : Nat) (p : Pix α) : Option Win := windowWith L.onX L.onY L nx ny p

/-- the value the code adds at index `(i, j)` for source `s` -/
def srcVal (L : Leaves α) (k : α) (s : RSrc α) (i j : Nat) : α :=
  L.modelVal k s.peak s.pix.xo s.pix.yo s.pix.sx s.pix.sy s.pix.theta (R.ofNat i) (R.ofNat j)

/-- `m[x, y] += model` on the window -/
def addWindowed (img : Img α) (w : Win) (f : Nat → Nat → α) : Img α :=
  fun i j => if w.mem i j then img i j + f i j else img i j

def zeroImg : Img α := fun _ _ => R.ofNat 0

/-- one iteration of the `for src in sources` loop, `mask=False` -/
def step (L : Leaves α) (k : α) (nx ny : Nat) (img : Img α) (s : RSrc α) : Img α :=
  match window L nx ny s.pix with
  | none => img
  | some w => addWindowed img w (srcVal L k s)

/-- `make_model(sources, (nx, ny), wcshelper)` after the oracle -/
def makeModelR (L : Leaves α) (k : α) (nx ny : Nat) (cat : List (RSrc α)) : Img α :=
  cat.foldl (step L k nx ny) zeroImg

/-- `make_model(sources, (nx, ny), wcshelper)`, parametric in the WCS oracle -/
def makeModel (L : Leaves α) (k : α) (wcs : Wcs α) (nx ny : Nat) (cat : List (Src α)) : Img α :=
  makeModelR L k nx ny (cat.map (Src.resolve wcs))

/-! ### mask mode -/

/-- the per-source threshold: `frac*src.peak_flux` if `frac is not None`, else `sigma*src.local_rms` -/
def thr (L : Leaves α) (frac : Option α) (sigma : α) (s : RSrc α) : α :=
  match frac with
  | some f => L.thrFrac f sigma s.peak s.rms
  | none => L.thrSigma (R.ofNat 0) sigma s.peak s.rms

/-- GLUE: `model >= threshold` (or `>` if the sliced operator code says so) -/
def maskHit (L : Leaves α) (t v : α) : Bool := if L.maskOp == 1 then RX.leb t v else RX.ltb t v

/-- one iteration of the loop with `mask=True`: `m[x[indices], y[indices]] = nan` where `model >= thr` -/
def maskStep (L : Leaves α) (k : α) (nx ny : Nat) (frac : Option α) (sigma : α)
    (blank : Nat → Nat → Bool) (s : RSrc α) : Nat → Nat → Bool :=
  match window L nx ny s.pix with
  | none => blank
  | some w => fun i j => blank i j || (w.mem i j && maskHit L (thr L frac sigma s) (srcVal L k s i j))

/-- the set of blanked (NaN) pixels of `make_model(..., mask=True, frac, sigma)` -/
def maskModelR (L : Leaves α) (k : α) (nx ny : Nat) (frac : Option α) (sigma : α)
    (cat : List (RSrc α)) : Nat → Nat → Bool :=
  cat.foldl (maskStep L k nx ny frac sigma) (fun _ _ => false)

def maskModel (L : Leaves α) (k : α) (wcs : Wcs α) (nx ny : Nat) (frac : Option α) (sigma : α)
    (cat : List (Src α)) : Nat → Nat → Bool :=
  maskModelR L k nx ny frac sigma (cat.map (Src.resolve wcs))

/-- the array `make_model` returns in mask mode: NaN (`none`) where blanked, 0 elsewhere -/
def maskImage (blank : Nat → Nat → Bool) : Nat → Nat → Option α :=
  fun i j => if blank i j then none else some (R.ofNat 0)

/-! ### make_residual -/

/-- GLUE: `residual = data + model if <sliced test> else data - model`; in mask mode the model image is NaN on the
    blanked pixels and 0 elsewhere; `none` is NaN -/
def residualR (L : Leaves α) (k : α) (nx ny : Nat) (add mask : Bool) (frac : Option α) (sigma : α)
    (data : Img α) (cat : List (RSrc α)) : Nat → Nat → Option α :=
  let plus : Bool := L.residPlus (if add then 1 else 0) (if mask then 1 else 0) == 1
  if mask then
    let blank := maskModelR L k nx ny frac sigma cat
    fun i j => if blank i j then none
               else some (if plus then data i j + R.ofNat 0 else data i j - R.ofNat 0)
  else
    let m := makeModelR L k nx ny cat
    if plus then fun i j => some (data i j + m i j) else fun i j => some (data i j - m i j)

def subtractModel (data m : Img α) : Img α := fun i j => data i j - m i j
def addModel (data m : Img α) : Img α := fun i j => data i j + m i j

end model

end Aegean.Model.C14
