/-
  C17 — spherical primitives and sexagesimal conversion of `AegeanTools/angle_tools.py`.
  Mathlib-free, executable.  Numeric code is polymorphic in `{α} [R α]`: it is run at `Float`
  by the driver and reasoned about at `ℝ` (Aegean/Proofs/C17Sphere.lean, C17Translate.lean,
  C17Sexa.lean).

  Reusable by other properties (C16, C09, C19):
    `Vec3`, `unitVec ra dec` (degrees), `dot`, `eastVec`, `northVec`,
    `gcdNearHand / gcdFarHand / havAHand / bearHand / translateRaHand / translateDecHand`
  (the hand copies of the repaired formulas; `Gen.C17.*` are the copies regenerated from source,
  and `Aegean.Properties.C17` proves the theorems about those).
-/
import Aegean.Num

namespace Aegean.Model.C17

/-! ### The sphere -/
section sphere
variable {α : Type} [R α]

structure Vec3 (α : Type) where
  x : α
  y : α
  z : α

/-- unit vector of the sky position (ra, dec), both in DEGREES -/
def unitVec (ra dec : α) : Vec3 α :=
  ⟨R.cos (R.radians dec) * R.cos (R.radians ra),
   R.cos (R.radians dec) * R.sin (R.radians ra),
   R.sin (R.radians dec)⟩

def dot (a b : Vec3 α) : α := a.x * b.x + a.y * b.y + a.z * b.z

def cross (a b : Vec3 α) : Vec3 α :=
  ⟨a.y * b.z - a.z * b.y, a.z * b.x - a.x * b.z, a.x * b.y - a.y * b.x⟩

/-- local East at (ra, ·): the unit tangent vector in the direction of increasing ra (degrees) -/
def eastVec (ra : α) : Vec3 α :=
  ⟨-(R.sin (R.radians ra)), R.cos (R.radians ra), R.ofNat 0⟩

/-- local North at (ra, dec): the unit tangent vector in the direction of increasing dec (degrees) -/
def northVec (ra dec : α) : Vec3 α :=
  ⟨-(R.sin (R.radians dec) * R.cos (R.radians ra)),
   -(R.sin (R.radians dec) * R.sin (R.radians ra)),
   R.cos (R.radians dec)⟩

/-- hand copy of the haversine argument `a` of `angle_tools.gcd` -/
def havAHand (ra1 dec1 ra2 dec2 : α) : α :=
  R.npow (R.sin (R.radians (dec2 - dec1) / R.ofNat 2)) 2
    + R.cos (R.radians dec1) * R.cos (R.radians dec2)
      * R.npow (R.sin (R.radians (ra2 - ra1) / R.ofNat 2)) 2

/-- the complement `b = 1 - a` as the repaired `gcd` computes it (a sum of non-negative terms) -/
def havBHand (ra1 dec1 ra2 dec2 : α) : α :=
  R.npow (R.cos (R.radians (dec2 - dec1) / R.ofNat 2)) 2
      * R.npow (R.cos (R.radians (ra2 - ra1) / R.ofNat 2)) 2
    + R.npow (R.sin (R.radians (dec1 + dec2) / R.ofNat 2)) 2
      * R.npow (R.sin (R.radians (ra2 - ra1) / R.ofNat 2)) 2

/-- `sep` of `gcd`: the classical haversine branch, used for separations up to 90 degrees -/
def gcdNearHand (ra1 dec1 ra2 dec2 : α) : α :=
  R.degrees (R.ofNat 2 * R.asin (R.min (R.ofNat 1) (R.sqrt (havAHand ra1 dec1 ra2 dec2))))

/-- `far` of the repaired `gcd`: 180 minus the haversine distance to the antipode -/
def gcdFarHand (ra1 dec1 ra2 dec2 : α) : α :=
  R.ofNat 180 - R.degrees (R.ofNat 2 * R.asin (R.min (R.ofNat 1) (R.sqrt (havBHand ra1 dec1 ra2 dec2))))

/-- `angle_tools.bear` -/
def bearHand (ra1 dec1 ra2 dec2 : α) : α :=
  R.degrees (R.atan2
    (R.sin (R.radians (ra2 - ra1)) * R.cos (R.radians dec2))
    (R.cos (R.radians dec1) * R.sin (R.radians dec2)
      - R.sin (R.radians dec1) * R.cos (R.radians dec2) * R.cos (R.radians (ra2 - ra1))))

/-- `dec_out` of `angle_tools.translate` (with the clamp of the sine to [-1, 1] of the repaired code) -/
def translateDecHand (_ra dec r theta : α) : α :=
  R.degrees (R.asin (R.min (R.ofNat 1) (R.max (-(R.ofNat 1)) (R.sin (R.radians dec) * R.cos (R.radians r)
    + R.cos (R.radians dec) * R.sin (R.radians r) * R.cos (R.radians theta)))))

/-- `ra_out` of `angle_tools.translate` -/
def translateRaHand (ra dec r theta : α) : α :=
  ra + R.degrees (R.atan2
    (R.sin (R.radians theta) * R.sin (R.radians r) * R.cos (R.radians dec))
    (R.cos (R.radians r) - R.sin (R.radians dec) * R.sin (R.radians (translateDecHand ra dec r theta))))

/-- the independent vector formula `atan2(|v1 × v2|, v1 · v2)` in degrees (reference, driver only) -/
def gcdVec (ra1 dec1 ra2 dec2 : α) : α :=
  let a := unitVec ra1 dec1
  let b := unitVec ra2 dec2
  let c := cross a b
  R.degrees (R.atan2 (R.sqrt (dot c c)) (dot a b))

/-- the standard position angle through the local tangent basis: `atan2(v2·East1, v2·North1)` -/
def paVec (ra1 dec1 ra2 dec2 : α) : α :=
  let b := unitVec ra2 dec2
  R.degrees (R.atan2 (dot b (eastVec ra1)) (dot b (northVec ra1 dec1)))

/-- hand copies of the parser arithmetic (`dec2dec`, `ra2dec`) on the three parsed fields -/
def dec2decPosHand (d0 d1 d2 : α) : α := d0 + d1 / R.ofNat 60 + d2 / R.ofNat 3600
def dec2decNegHand (d0 d1 d2 : α) : α := d0 - d1 / R.ofNat 60 - d2 / R.ofNat 3600
def ra2decScaleHand (v : α) : α := v * R.ofNat 15

end sphere

/-- the `np.where(a > 0.5, far, sep)` selection of the repaired `gcd`, at Float -/
def gcdSelect (a far near : Float) : Float := if a > 0.5 then far else near

/-! ### Sexagesimal formatting: integer arithmetic on hundredths of a (arc)second

`dec2dms x`:  `n = round(|x|·360000)` hundredths of an arcsecond,
`dec2hms x`:  `n = round(x·24000) mod 8640000` hundredths of a second of time;
both then print `n / 360000`, `n / 6000 % 60` and `(n % 6000) / 100` with two decimals. -/

def fldHi (n : Nat) : Nat := n / 360000
def fldM (n : Nat) : Nat := n / 6000 % 60
def fldCs (n : Nat) : Nat := n % 6000

/-- Python's `int % 8640000` (result in `[0, 8640000)`), the wrap of `dec2hms` -/
def hmsWrap (k : Int) : Nat := (k % 8640000).toNat

/-- hand copy of the regenerated wrap (Python's `%` with a positive modulus is the floor-mod) -/
def hmsWrapZHand (k : Int) : Int := Int.fmod k 8640000

/-- hand copies of the quantities the formatters round: `abs(float(x)) * 360000`, `float(x) * 24000` -/
def dmsScaledHand {α : Type} [R α] (x : α) : α := R.abs x * R.ofNat 360000
def hmsScaledHand {α : Type} [R α] (x : α) : α := x * R.ofNat 24000

/-- Python's `int(round(y))` for a finite double (round half to even) -/
def pyRound (y : Float) : Int :=
  let f := Float.floor y
  let d := y - f
  let fi : Int := if f < 0 then -(((Float.toUInt64 (-f)).toNat : Nat) : Int) else (((Float.toUInt64 f).toNat : Nat) : Int)
  if d < 0.5 then fi else if d > 0.5 then fi + 1 else (if fi % 2 == 0 then fi else fi + 1)

/-! Strings are built and taken apart as `List Char`, with small structural recursions, so that
    `parse (format n) = n` can be proved at the character level (Aegean/Proofs/C17String.lean). -/

/-- the decimal digit `k < 10` as a character -/
def digitChar (k : Nat) : Char := Char.ofNat (48 + k)

/-- `'{:02d}'.format(k)`: two digits, zero padded; all the digits when `k ≥ 100` -/
def pad2L (k : Nat) : List Char :=
  if k < 100 then [digitChar (k / 10), digitChar (k % 10)] else (toString k).toList

/-- `'{:05.2f}'.format(cs / 100.0)` for a natural number of hundredths -/
def fmtSecL (cs : Nat) : List Char := pad2L (cs / 100) ++ '.' :: pad2L (cs % 100)

/-- the characters `dec2dms` returns, from the sign and the three printed fields -/
def dmsChars (neg : Bool) (d m cs : Nat) : List Char :=
  (if neg then '-' else '+') :: (pad2L d ++ ':' :: (pad2L m ++ ':' :: fmtSecL cs))

/-- the characters `dec2hms` returns -/
def hmsChars (h m cs : Nat) : List Char := pad2L h ++ ':' :: (pad2L m ++ ':' :: fmtSecL cs)

def dmsString (neg : Bool) (d m cs : Nat) : String := String.ofList (dmsChars neg d m cs)
def hmsString (h m cs : Nat) : String := String.ofList (hmsChars h m cs)

/-! ### Glue: the whole of `dec2dms` / `dec2hms`, assembled from the regenerated pieces (passed as parameters)

`scaled` is the quantity that is rounded, `fHi fM fCs` the field arithmetic, `wrap` the RA wrap.  The hand-written
parts are exactly: the non-finite guard, `int(round(·))`, the sign test `x < 0`, and the format string. -/

def dec2dmsGlue (scaled : Float → Float) (fHi fM fCs : Nat → Nat) (x : Float) : String :=
  if x.isNaN || x.isInf then "XX:XX:XX.XX" else
    let n := (pyRound (scaled x)).toNat
    dmsString (x < 0) (fHi n) (fM n) (fCs n)

def dec2hmsGlue (scaled : Float → Float) (wrap : Int → Int) (fHi fM fCs : Nat → Nat) (x : Float) : String :=
  if x.isNaN || x.isInf then "XX:XX:XX.XX" else
    let n := (wrap (pyRound (scaled x))).toNat
    hmsString (fHi n) (fM n) (fCs n)

/-! ### Sexagesimal parsing (`dec2dec`, `ra2dec`) -/

/-- separators of `dec.replace(':', ' ').split()` -/
def isSep (c : Char) : Bool := c == ':' || c.isWhitespace

/-- tokenizer: `cur` is the current token, reversed; empty tokens are dropped (as `str.split()` does) -/
def tokAux : List Char → List Char → List (List Char)
  | [], cur => if cur.isEmpty then [] else [cur.reverse]
  | c :: r, cur =>
    if isSep c then (if cur.isEmpty then tokAux r [] else cur.reverse :: tokAux r [])
    else tokAux r (c :: cur)

/-- `dec.replace(':', ' ').split()` -/
def tokensL (l : List Char) : List (List Char) := tokAux l []

def digitVal (c : Char) : Nat := c.toNat - 48
def digitsVal (l : List Char) : Nat := l.foldl (fun a c => a * 10 + digitVal c) 0

def signSplit : List Char → Bool × List Char
  | '-' :: r => (true, r)
  | '+' :: r => (false, r)
  | r => (false, r)

/-- `digits[.digits]` as (sign passed in, mantissa, number of decimals) -/
def parseBody (neg : Bool) (body : List Char) : Option (Bool × Nat × Nat) :=
  let ip := body.takeWhile Char.isDigit
  let rest := body.dropWhile Char.isDigit
  match rest with
  | [] => if ip.isEmpty then none else some (neg, digitsVal ip, 0)
  | '.' :: fp =>
    if fp.all Char.isDigit && !(ip.isEmpty && fp.isEmpty) then some (neg, digitsVal (ip ++ fp), fp.length) else none
  | _ => none

/-- one numeric token `[+-]?digits[.digits]` as (negative?, mantissa, number of decimals).
    Anything else is rejected (Python's `float()` raises ValueError on what we call malformed;
    exponents, `inf`, `nan`, `_` are outside this model and never generated). -/
def parseNumL (cs : List Char) : Option (Bool × Nat × Nat) :=
  parseBody (signSplit cs).1 (signSplit cs).2

/-- `float(token)`: mantissa · 10^(−decimals), negated for a leading '-' -/
def numVal {α : Type} [R α] (t : Bool × Nat × Nat) : α :=
  let v : α := R.ofSci t.2.1 true t.2.2
  if t.1 then -v else v

inductive ParseErr | index | value
  deriving DecidableEq, Repr

/-- `dec2dec` with the two arithmetic branches as parameters (they are regenerated from source).
    Fewer than two fields is Python's IndexError (after the first field was converted), a
    non-numeric field its ValueError. -/
def dec2decL {α : Type} [R α] (pos neg : α → α → α → α) (l : List Char) : Except ParseErr α :=
  match tokensL l with
  | t0 :: t1 :: rest =>
    let t2 := match rest with | [] => ['0', '.', '0'] | t :: _ => t
    match parseNumL t0, parseNumL t1, parseNumL t2 with
    | some a, some b, some c =>
      if a.1 then .ok (neg (numVal a) (numVal b) (numVal c)) else .ok (pos (numVal a) (numVal b) (numVal c))
    | _, _, _ => .error .value
  -- one field: `float(d[0])` is evaluated before `d[1]` is indexed
  | [t0] => if (parseNumL t0).isNone then .error .value else .error .index
  | [] => .error .index

def dec2dec {α : Type} [R α] (pos neg : α → α → α → α) (s : String) : Except ParseErr α :=
  dec2decL pos neg s.toList

/-! ### The pinned (defective) Float formatters, kept for the negation witness

`'{:05.2f}'.format(s)` is modelled as `⌊100·s + 0.5⌋` hundredths, which agrees with Python's
correctly-rounded formatting except within a few ulp of a tie (never the case for the witnesses). -/

def centi (s : Float) : Nat := (Float.toUInt64 (s * 100.0 + 0.5)).toNat

/-- pinned `dec2dms` for finite `x`: (negative?, d, m, printed hundredths of the seconds field) -/
def pinnedDms (x : Float) : Bool × Nat × Nat × Nat :=
  let neg := x < 0
  let x := if x < 0 then -x else x
  let d := (Float.toUInt64 x).toNat
  let f := (x - Float.ofNat d) * 60.0
  let m := (Float.toUInt64 f).toNat
  let s := (f - Float.ofNat m) * 60.0
  (neg, d, m, centi s)

/-- pinned `dec2hms` for finite `x ≥ -360`: (h, m, printed hundredths of the seconds field) -/
def pinnedHms (x : Float) : Nat × Nat × Nat :=
  let x := if x < 0 then x + 360.0 else x
  let x := x / 15.0
  let h := (Float.toUInt64 x).toNat
  let x := (x - Float.ofNat h) * 60.0
  let m := (Float.toUInt64 x).toNat
  let s := (x - Float.ofNat m) * 60.0
  (h, m, centi s)

end Aegean.Model.C17
