/-
  C03 — the range helpers re-assembled from the pieces regenerated from source
  (`Gen.C03.paUpBound/paUpNext/paDownBound/paDownNext/paUpClosed/paDownClosed`,
  `Gen.C03.fixA … fixErrB/fixClosed`, `Gen.C03.raWrapBound/raWrapNext/wrapClosed`).
  The `while` loops of `pa_limit` become fuel-indexed recursions; `Properties/C03.lean` proves that
  these definitions coincide with the hand models (obligations `gen_paLimit`, `gen_fixShape`,
  `gen_raWrap`) and that the value does not depend on the fuel once it is large enough.
  Mathlib-free; executable (the driver runs these at `Float`).
-/
import Aegean.Generated.C03
import Aegean.Model.C03

namespace Aegean.Model.C03

section ordered
variable {α : Type} [R α] [LT α] [LE α] [DecidableLT α] [DecidableLE α]

/-- `x <= b` when the source comparison is closed (literal 1), `x < b` when strict (0) -/
def cmpLe (closed : Nat) (x b : α) : Bool := if closed = 1 then decide (x ≤ b) else decide (x < b)
/-- `x >= b` / `x > b` -/
def cmpGe (closed : Nat) (x b : α) : Bool := if closed = 1 then decide (b ≤ x) else decide (b < x)

/-- first loop of `pa_limit`, `fuel` iterations at most -/
def upLoopG : Nat → α → α
  | 0, pa => pa
  | n + 1, pa => if cmpLe Gen.C03.paUpClosed pa (Gen.C03.paUpBound pa) then upLoopG n (Gen.C03.paUpNext pa) else pa

/-- second loop -/
def downLoopG : Nat → α → α
  | 0, pa => pa
  | n + 1, pa => if cmpGe Gen.C03.paDownClosed pa (Gen.C03.paDownBound pa) then downLoopG n (Gen.C03.paDownNext pa) else pa

def paLimitG (fuel : Nat) (pa : α) : α := downLoopG fuel (upLoopG fuel pa)

def fixShapeG (s : Shape α) : Shape α :=
  if cmpLe Gen.C03.fixClosed s.a s.b then
    { a := Gen.C03.fixA s.a s.b s.pa s.errA s.errB, b := Gen.C03.fixB s.a s.b s.pa s.errA s.errB,
      pa := Gen.C03.fixPa s.a s.b s.pa s.errA s.errB, errA := Gen.C03.fixErrA s.a s.b s.pa s.errA s.errB,
      errB := Gen.C03.fixErrB s.a s.b s.pa s.errA s.errB }
  else s

def raWrapG (ra : α) : α :=
  if cmpLe Gen.C03.wrapClosed ra (Gen.C03.raWrapBound ra) then Gen.C03.raWrapNext ra else ra

end ordered

/-! ### the flag data-flow re-assembled from the regenerated pieces

`Gen.C03.flagX` are the constants of flags.py; `estimateIsFlagG`, `summitFlagG`, `fitIsFlagG`,
`componentFlagsG`, `refitMarkG`, `errMaskG` are the statements that touch a flag word, cut out of the
current source.  The glue below is fixed and hand-written: it only says in which order the pieces
are applied and how a Python truth value / `None` is passed (booleans as 0/1; `max_summits is None`
means no component is "maxxed"). -/

def b2n (b : Bool) : Nat := if b then 1 else 0

def estimateIsFlagGl (nonNanPix minShape : Nat) : Nat :=
  Gen.C03.estimateIsFlagG nonNanPix minShape Gen.C03.flagFIXED2PSF Gen.C03.flagFITERRSMALL

def summitFlagGl (isFlag : Nat) (maxSummits : Option Nat) (j : Nat) : Nat :=
  match maxSummits with
  | none => isFlag
  | some m => Gen.C03.summitFlagG isFlag j m Gen.C03.flagNOTFIT Gen.C03.flagFIXED2PSF

def fitIsFlagGl (nonBlankPix freeVars : Nat) (errorbars success : Bool) : Nat :=
  Gen.C03.fitIsFlagG nonBlankPix freeVars (b2n errorbars) (b2n success) Gen.C03.flagNOTFIT Gen.C03.flagFITERR

def componentFlagsGl (isFlag modelFlag : Nat) (wcsFinite : Bool) : Nat :=
  Gen.C03.componentFlagsG isFlag modelFlag (b2n wcsFinite) Gen.C03.flagWCSERR

/-- one island in blind mode, end to end, from the regenerated pieces -/
def blindIslandFlagsG (nonNanPix minShape : Nat) (maxSummits : Option Nat) (ncomp : Nat)
    (errorbars success : Bool) (wcs : List Bool) : List Nat :=
  let isf := estimateIsFlagGl nonNanPix minShape
  let maxxed := fun (j : Nat) => match maxSummits with
    | none => false
    | some m => decide (m ≤ j)
  let free := (List.range ncomp).foldl (fun acc j => acc + freeVars1 (summitFlagGl isf maxSummits j) (maxxed j)) 0
  (List.range ncomp).map (fun j =>
    componentFlagsGl (fitIsFlagGl nonNanPix free errorbars success) (summitFlagGl isf maxSummits j) (wcs.getD j true))

/-- a refitted row, from the regenerated pieces -/
def refitFlagsG (inputFlags : Nat) (notFit wcsFinite : Bool) (stage : Nat) : Nat :=
  Gen.C03.refitMarkG (componentFlagsGl inputFlags (if notFit then Gen.C03.flagNOTFIT else 0) wcsFinite) stage
    Gen.C03.flagPRIORIZED Gen.C03.flagFIXED2PSF

/-- `if source.flags & (NOTFIT | FITERR)` of `fitting.errors` -/
def notFitMaskG : Nat := Gen.C03.errMaskG Gen.C03.flagNOTFIT Gen.C03.flagFITERR

end Aegean.Model.C03
