/-
  C03 — the range helpers re-assembled from the pieces regenerated from source
  (`Gen.C03.paUpBound/paUpNext/paDownBound/paDownNext/paUpClosed/paDownClosed`,
  `Gen.C03.fixA … fixErrB/fixClosed`, `Gen.C03.raWrapBound/raWrapNext/wrapClosed`).
  The `while` loops of `pa_limit` become fuel-indexed recursions; `Properties/C03.lean` proves that
  these definitions coincide with the hand models (obligations `gen_paLimit`, `gen_fixShape`,
  `gen_raWrap`) and that the value does not depend on the fuel once it is large enough.
  Mathlib-free; executable (the driver runs these at `Float`).
-/
import Aegean.Generated.C03
import Aegean.Model.C03

namespace Aegean.Model.C03

section ordered
variable {α : Type} [R α] [LT α] [LE α] [DecidableLT α] [DecidableLE α]

/-- `x <= b` when the source comparison is closed (literal 1), `x < b` when strict (0) -/
def cmpLe (closed : Nat) (x b : α) : Bool := if closed = 1 then decide (x ≤ b) else decide (x < b)
/-- `x >= b` / `x > b` -/
def cmpGe (closed : Nat) (x b : α) : Bool := if closed = 1 then decide (b ≤ x) else decide (b < x)

/-- first loop of `pa_limit`, `fuel` iterations at most -/
def upLoopG : Nat → α → α
  | 0, pa => pa
  | n + 1, pa => if cmpLe Gen.C03.paUpClosed pa (Gen.C03.paUpBound pa) then upLoopG n (Gen.C03.paUpNext pa) else pa

/-- second loop -/
def downLoopG : Nat → α → α
  | 0, pa => pa
  | n + 1, pa => if cmpGe Gen.C03.paDownClosed pa (Gen.C03.paDownBound pa) then downLoopG n (Gen.C03.paDownNext pa) else pa

def paLimitG (fuel : Nat) (pa : α) : α := downLoopG fuel (upLoopG fuel pa)

def fixShapeG (s : Shape α) : Shape α :=
  if cmpLe Gen.C03.fixClosed s.a s.b then
    { a := Gen.C03.fixA s.a s.b s.pa s.errA s.errB, b := Gen.C03.fixB s.a s.b s.pa s.errA s.errB,
      pa := Gen.C03.fixPa s.a s.b s.pa s.errA s.errB, errA := Gen.C03.fixErrA s.a s.b s.pa s.errA s.errB,
      errB := Gen.C03.fixErrB s.a s.b s.pa s.errA s.errB }
  else s

def raWrapG (ra : α) : α :=
  if cmpLe Gen.C03.wrapClosed ra (Gen.C03.raWrapBound ra) then Gen.C03.raWrapNext ra else ra

end ordered

end Aegean.Model.C03
