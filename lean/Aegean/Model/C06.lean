/-
  C06 — executable model of BANE's estimator (`AegeanTools/BANE.py`: `sigmaclip`, `sigma_filter`,
  the stripe loop of `filter_mc_sharemem`).  Mathlib-free.  Numeric code is polymorphic in
  `{α} [R α] [RLt α]`: run at `Float` by the driver, reasoned about at `ℝ` in `Proofs/C06*.lean`.

  Conventions
  * a pixel is `Option α`; `none` = non-finite (the code filters with `np.isfinite`);
  * an image is a total function `Nat → Nat → Option α` (row, column) together with its shape in
    `Geom`; the driver returns `none` outside the shape, the model never reads there;
  * `Geom.e` = 0 is the repaired box clamp, 1 the pinned one (see `Geom`);
  * `Mode.own` is the pinned code (each stripe subtracts the background from its own rows only,
    BANE.py:254), `Mode.all` is the repaired code (fixes/C06-01: every row the stripe has loaded).
  * every definition has a plain ("semantic") form; the `…Tab` forms are the same functions tabulated
    once (`Tab`), which is what the driver runs; `Proofs/C06Pipe.lean` proves them equal (`run_eq`).
-/
import Aegean.Num
import Aegean.Py

namespace Aegean.Model.C06

/-- strict order test of the numeric type (`R` itself carries no order) -/
class RLt (α : Type) where
  lt : α → α → Bool

instance : RLt Float := ⟨fun a b => a < b⟩

section Clip
variable {α : Type} [R α] [RLt α]

def sum (l : List α) : α := l.foldr (· + ·) (R.ofNat 0)
/-- `np.mean` -/
def mean (l : List α) : α := sum l / R.ofNat l.length
def sqdev (m x : α) : α := (x - m) * (x - m)
/-- `np.std` (population standard deviation, two-pass) -/
def std (l : List α) : α := R.sqrt (mean (l.map (sqdev (mean l))))

/-- `(clipped > mean-std*lo) & (clipped < mean+std*hi)` with `lo = hi = 3` -/
def keep (m s x : α) : Bool := RLt.lt (m - s * R.ofNat 3) x && RLt.lt x (m + s * R.ofNat 3)

/-- the `for count in range(reps)` loop of `sigmaclip`; `l` is the current `clipped`,
    `(m, s)` the statistics of the list before the last clip -/
def clipLoop : Nat → List α → α → α → α × α
  | 0, _, m, s => (m, s)
  | fuel + 1, l, m, s =>
    let l' := l.filter (keep m s)
    if l'.length = 0 then (m, s)                 -- curr_valid < 1: break
    else if l'.length = l.length then (m, s)     -- prev_valid == curr_valid: break
    else clipLoop fuel l' (mean l') (std l')

/-- `sigmaclip(arr, 3, 3, reps)`: `none` is the `(nan, nan)` return for no finite value -/
def sigmaclip (reps : Nat) (arr : List (Option α)) : Option (α × α) :=
  let l := arr.filterMap id
  if l.length = 0 then none else some (clipLoop reps l (mean l) (std l))

end Clip

/-- image shape, grid step (`step_size[0]`, `step_size[1]`), box (`box_size[0]`, `box_size[1]`) -/
structure Geom where
  R : Nat
  C : Nat
  gy : Nat
  gx : Nat
  bY : Nat
  bX : Nat
  /-- rows/columns at the upper edge of the loaded data that no box may read: 0 for the repaired
      `box()` (`min(shape, ·)`, fixes/C06-02), 1 for the pinned one (`min(shape - 1, ·)` used as an
      exclusive slice bound) -/
  e : Nat
  deriving Repr, DecidableEq

/-- a stripe is the row range `[ymin, ymax)` handed to one `sigma_filter` call -/
structure Stripe where
  ymin : Nat
  ymax : Nat
  deriving Repr, DecidableEq

inductive Mode | own | all
  deriving Repr, DecidableEq

namespace Geom
variable (G : Geom) (S : Stripe)
/-- `data_row_min = max(0, ymin - box_size[0]//2)` -/
def drmin : Nat := S.ymin - G.bY / 2
/-- `data_row_max = min(shape[0], ymax + box_size[0]//2)` -/
def drmax : Nat := min G.R (S.ymax + G.bY / 2)
/-- `data.shape[0]` -/
def dn : Nat := G.drmax S - G.drmin S
/-- first / last grid row in stripe-relative coordinates -/
def r0 : Nat := S.ymin - G.drmin S
def rEnd : Nat := S.ymax - G.drmin S
/-- `rows = list(range(r0, rEnd, gy)) + [rEnd]`, as a closed form in the node index -/
def nodeR (k : Nat) : Nat := min (G.r0 S + k * G.gy) (G.rEnd S)
/-- `cols = list(range(0, C, gx)) + [C]` -/
def nodeC (j : Nat) : Nat := min (j * G.gx) G.C
def nNodeR : Nat := (G.rEnd S - G.r0 S + G.gy - 1) / G.gy + 1
def nNodeC : Nat := (G.C + G.gx - 1) / G.gx + 1
end Geom

def Stripe.has (S : Stripe) (y : Nat) : Bool := decide (S.ymin ≤ y) && decide (y < S.ymax)

/-! ### tabulation -/
abbrev Tab (β : Type) := Array (Array β)

def mkTab {β : Type} (n m : Nat) (f : Nat → Nat → β) : Tab β :=
  Array.ofFn (n := n) fun i => Array.ofFn (n := m) fun j => f i.val j.val

/-- table lookup; `f` (the function that was tabulated) is only used outside the table -/
def Tab.get {β : Type} (t : Tab β) (f : Nat → Nat → β) (i j : Nat) : β :=
  match t[i]? with
  | some row => match row[j]? with
    | some v => v
    | none => f i j
  | none => f i j

section Pipe
variable {α : Type} [R α] [RLt α]

abbrev Img (α : Type) := Nat → Nat → Option α

/-- the rows `[data_row_min, data_row_max)` a stripe loads, in stripe-relative coordinates -/
def cut (G : Geom) (S : Stripe) (img : Img α) : Img α := fun r c => img (G.drmin S + r) c

/-- the pixels of `data[r_min:r_max, c_min:c_max]` (row-major) for the box centred on `(r, c)`;
    the slices are exclusive at the top: `[r - b/2, min(shape - e, r + b/2))` -/
def boxvals (G : Geom) (dn : Nat) (d : Img α) (r c : Nat) : List (Option α) :=
  let rmin := r - G.bY / 2
  let rmax := min (dn - G.e) (r + G.bY / 2)
  let cmin := c - G.bX / 2
  let cmax := min (G.C - G.e) (c + G.bX / 2)
  (List.range' rmin (rmax - rmin)).flatMap fun rr => (List.range' cmin (cmax - cmin)).map fun cc => d rr cc

/-- value stored at grid node `(k, j)` of a stripe: `sel` picks mean (pass 1) or std (pass 2) -/
def nodeVal (G : Geom) (S : Stripe) (sel : α × α → α) (d : Img α) (k j : Nat) : Option α :=
  (sigmaclip 10 (boxvals G (G.dn S) d (G.nodeR S k) (G.nodeC j))).map sel

/-- `(x - grid[i]) / (grid[i+1] - grid[i])` -/
def frac (x lo hi : Nat) : α := (R.ofNat x - R.ofNat lo) / (R.ofNat hi - R.ofNat lo)

/-- scipy's `evaluate_linear_2d`; a NaN corner makes the result NaN whatever its weight -/
def bilin (v00 v01 v10 v11 : Option α) (y0 y1 : α) : Option α :=
  match v00, v01, v10, v11 with
  | some a, some b, some c, some d =>
    some (a * (R.ofNat 1 - y0) * (R.ofNat 1 - y1) + b * (R.ofNat 1 - y0) * y1
          + c * y0 * (R.ofNat 1 - y1) + d * y0 * y1)
  | _, _, _, _ => none

/-- `RegularGridInterpolator((rows, cols), vals)` evaluated at the stripe-relative pixel `(r, c)`,
    `r0 ≤ r < rEnd`, `c < C`; `v k j` is the node table -/
def interp (G : Geom) (S : Stripe) (v : Nat → Nat → Option α) (r c : Nat) : Option α :=
  let k := (r - G.r0 S) / G.gy
  let j := c / G.gx
  bilin (v k j) (v k (j + 1)) (v (k + 1) j) (v (k + 1) (j + 1))
    (frac r (G.nodeR S k) (G.nodeR S (k + 1))) (frac c (G.nodeC j) (G.nodeC (j + 1)))

def stripeAt (stripes : List Stripe) (y : Nat) : Option Stripe := stripes.find? (fun S => S.has y)

/-- one pass over all stripes, as a full-size map: pixel `(y, x)` is written by the stripe that owns
    row `y` from that stripe's node table over its data `dOf S` -/
def passFn (G : Geom) (stripes : List Stripe) (sel : α × α → α) (dOf : Stripe → Img α) : Img α :=
  fun y x => match stripeAt stripes y with
    | none => none
    | some S => interp G S (nodeVal G S sel (dOf S)) (y - G.drmin S) x

def osub (a b : Option α) : Option α :=
  match a, b with
  | some a, some b => some (a - b)
  | _, _ => none

/-- the stripe's data after "background subtraction" (BANE.py:254): `B` is the full-size
    background map -/
def d2Fn (mode : Mode) (G : Geom) (S : Stripe) (img B : Img α) : Img α := fun r c =>
  if mode = Mode.all || (decide (G.r0 S ≤ r) && decide (r < G.rEnd S)) then
    osub (cut G S img r c) (B (G.drmin S + r) c)
  else cut G S img r c

/-- the rows of the loaded block from which the background is subtracted, `[lo, hi)`: the stripe's own rows (pinned) or
    the whole block (repaired); `Properties.C06.gen_subtract_rows` ties the regenerated slice bounds to `subRows Mode.all` -/
def subRows (mode : Mode) (G : Geom) (S : Stripe) : Nat × Nat :=
  match mode with
  | Mode.own => (G.r0 S, G.rEnd S)
  | Mode.all => (0, G.dn S)

def bkgFn (G : Geom) (stripes : List Stripe) (img : Img α) : Img α :=
  passFn G stripes Prod.fst (fun S => cut G S img)

def rmsFn (mode : Mode) (G : Geom) (stripes : List Stripe) (img : Img α) : Img α :=
  passFn G stripes Prod.snd (fun S => d2Fn mode G S img (bkgFn G stripes img))

/-- `mask = ~np.isfinite(data[own rows])` on the background-subtracted data -/
def masked (mask : Bool) (G : Geom) (stripes : List Stripe) (img : Img α) (y x : Nat) : Bool :=
  mask && (osub (img y x) (bkgFn G stripes img y x)).isNone

def bkgOut (mask : Bool) (G : Geom) (stripes : List Stripe) (img : Img α) : Img α :=
  fun y x => if masked mask G stripes img y x then none else bkgFn G stripes img y x

def rmsOut (mode : Mode) (mask : Bool) (G : Geom) (stripes : List Stripe) (img : Img α) : Img α :=
  fun y x => if masked mask G stripes img y x then none else rmsFn mode G stripes img y x

def toRows (G : Geom) (f : Img α) : List (List (Option α)) :=
  (List.range G.R).map fun y => (List.range G.C).map fun x => f y x

structure Out (α : Type) where
  bkg : List (List (Option α))
  rms : List (List (Option α))

/-- the maps `filter_mc_sharemem` returns (before the float32 cast), semantic form -/
def bane (mode : Mode) (mask : Bool) (G : Geom) (stripes : List Stripe) (img : Img α) : Out α :=
  { bkg := toRows G (bkgOut mask G stripes img), rms := toRows G (rmsOut mode mask G stripes img) }

/-! ### the same, tabulated (what the driver runs) -/

def passTab (G : Geom) (stripes : List Stripe) (sel : α × α → α) (dOf : Stripe → Img α) : Tab (Option α) :=
  let tabs := stripes.map fun S => (S, mkTab (G.nNodeR S) (G.nNodeC) (nodeVal G S sel (dOf S)))
  mkTab G.R G.C fun y x => match tabs.find? (fun p => p.1.has y) with
    | none => none
    | some (S, t) => interp G S (t.get (nodeVal G S sel (dOf S))) (y - G.drmin S) x

def run (mode : Mode) (mask : Bool) (G : Geom) (stripes : List Stripe) (img : Img α) : Out α :=
  let tB := passTab G stripes Prod.fst (fun S => cut G S img)
  let B : Img α := tB.get (bkgFn G stripes img)
  let tR := passTab G stripes Prod.snd (fun S => d2Fn mode G S img B)
  let Rm : Img α := tR.get (rmsFn mode G stripes img)
  let mk : Nat → Nat → Bool := fun y x => mask && (osub (img y x) (B y x)).isNone
  { bkg := toRows G fun y x => if mk y x then none else B y x,
    rms := toRows G fun y x => if mk y x then none else Rm y x }

end Pipe

/-! ### the file plumbing of `filter_image` / `sigma_filter`: which plane is read, where BSCALE is applied and
    undone, what is returned and what is written (the float32 cast is not modelled) -/

section Plumb
variable {α : Type} [R α] [RLt α]

/-- what BANE reads from the input file -/
structure FileIn (α : Type) where
  naxis : Nat                 -- NAXIS: 2, 3 or 4
  n3 : Nat                    -- NAXIS3 (length of the cube axis) when naxis > 2
  bscale : Option α           -- the BSCALE keyword, if present
  planes : Nat → Img α        -- raw (unscaled) pixel planes, indexed along the cube axis

/-- `data *= header['BSCALE']` -/
def mulImg (b : α) (d : Img α) : Img α := fun y x => (d y x).map (· * b)
/-- `bkg / bscale` -/
def divImg (b : α) (d : Img α) : Img α := fun y x => (d y x).map (· / b)

/-- the plane `sigma_filter` loads: `section[rows]`, `section[cube_index, rows]` or `section[0, cube_index, rows]` -/
def selected (f : FileIn α) (cube : Nat) : Img α := if f.naxis = 2 then f.planes 0 else f.planes cube

/-- the physical image: the selected raw plane, times BSCALE when the keyword is present -/
def physical (f : FileIn α) (cube : Nat) : Img α :=
  match f.bscale with
  | none => selected f cube
  | some b => mulImg b (selected f cube)

/-- `compress()`: `data[::f]` followed by a copy of the last row (column): file index ↦ map index -/
def decIdx (n f i : Nat) : Nat := if i < (n + f - 1) / f then i * f else n - 1

/-- a written FITS image: the stored (raw) values, its shape and the BSCALE keyword copied from the input header -/
structure FileOut (α : Type) where
  rows : Nat
  cols : Nat
  bscale : Option α
  data : Img α

/-- what astropy returns when the file is read with scaling: stored value × BSCALE -/
def FileOut.readBack (o : FileOut α) : Img α :=
  match o.bscale with
  | none => o.data
  | some b => mulImg b o.data

structure Result (α : Type) where
  returned : Option (Img α × Img α)      -- `none` is `return None` (cube index out of range)
  bkgFile : Option (FileOut α)
  rmsFile : Option (FileOut α)

/-- the grid actually used: `compressed` forces a square step `min(step)` -/
def effGeom (G : Geom) (compressed : Bool) : Geom :=
  if compressed && G.gy != G.gx then { G with gy := min G.gy G.gx, gx := min G.gy G.gx } else G

/-- `filter_image(im_name, out_base, step_size, box_size, mask, compressed, nslice→stripes, cube_index)` -/
def filterImage (mode : Mode) (mask : Bool) (G : Geom) (stripesOf : Geom → List Stripe) (f : FileIn α) (cube : Nat)
    (outBase compressed : Bool) : Result α :=
  if f.naxis > 2 && decide (cube ≥ f.n3) then { returned := none, bkgFile := none, rmsFile := none } else
  let G' := effGeom G compressed
  let img := physical f cube
  let bkg := bkgOut mask G' (stripesOf G') img
  let rms := rmsOut mode mask G' (stripesOf G') img
  let unscale : Img α → Img α := fun m => match f.bscale with
    | none => divImg (R.ofNat 1) m
    | some b => divImg b m
  let file : Img α → FileOut α := fun m =>
    if compressed then
      { rows := (G'.R + G'.gy - 1) / G'.gy + 1, cols := (G'.C + G'.gy - 1) / G'.gy + 1, bscale := f.bscale,
        data := fun i j => unscale m (decIdx G'.R G'.gy i) (decIdx G'.C G'.gy j) }
    else { rows := G'.R, cols := G'.C, bscale := f.bscale, data := unscale m }
  { returned := some (bkg, rms),
    bkgFile := if outBase then some (file bkg) else none,
    rmsFile := if outBase then some (file rms) else none }

end Plumb

end Aegean.Model.C06
