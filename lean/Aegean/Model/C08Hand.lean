/-
  C08 — the arithmetic leaves and loop ranges of `regions.Region` in canonical (hand-written) form.
  They are (a) what the hand model `Model.C08` uses, spelled out one by one, and (b) the fallback for
  `Gen.C08.*` when a slice of the source is UNTRANSLATABLE.  Mathlib-free.
-/
import Aegean.Py

namespace Aegean.Model.C08.Hand

/-- `set((4*p, 4*p+1, 4*p+2, 4*p+3))` in `_demote_all` -/
def children (p : Nat) : List Nat := [4 * p, 4 * p + 1, 4 * p + 2, 4 * p + 3]
/-- `p // 4` in `_renorm` -/
def parent (p : Nat) : Nat := p / 4
/-- `p % 4 == 0` in `_renorm` -/
def quadHead (p : Nat) : Bool := p % 4 == 0
/-- `p // 4**(d - self.maxdepth)` in `union` -/
def degrade (p d maxdepth : Nat) : Nat := p / 4 ^ (d - maxdepth)
/-- `range(1, self.maxdepth)` in `_demote_all` -/
def demoteLevels (maxdepth : Nat) : List Nat := List.range' 1 (maxdepth - 1)
/-- `range(self.maxdepth, 2, -1)` in `_renorm` -/
def renormLevels (maxdepth : Nat) : List Nat := (List.range (maxdepth - 2)).map (fun k => maxdepth - k)
/-- `range(1, min(self.maxdepth, other.maxdepth)+1)` in `union` -/
def unionShared (maxdepth omaxdepth : Nat) : List Nat := List.range' 1 (min maxdepth omaxdepth)
/-- `range(self.maxdepth+1, other.maxdepth+1)` in `union` -/
def unionFiner (maxdepth omaxdepth : Nat) : List Nat := List.range' (maxdepth + 1) (omaxdepth - maxdepth)
/-- `self.maxdepth < other.maxdepth` in `union` -/
def finer (maxdepth omaxdepth : Nat) : Bool := decide (maxdepth < omaxdepth)
/-- `range(1, self.maxdepth+1)` in `get_area` -/
def areaLevels (maxdepth : Nat) : List Nat := List.range' 1 maxdepth
/-- the guard `self.maxdepth == other.maxdepth` of without / intersect / symmetric_difference -/
def sameDepth (maxdepth omaxdepth : Nat) : Bool := maxdepth == omaxdepth

end Aegean.Model.C08.Hand
