"""
C07 — BANE always terminates, is schedule-independent and fails cleanly.

Correspondence + search for the synchronisation protocol of `BANE.filter_mc_sharemem`.

run(ctx)
  * layout: the regenerated stripe layout (Gen.C07.widthY / ymins / ymaxs, evaluated by the Lean
    driver) is compared with the layout the real code hands to its workers, over a sweep of
    (rows, step, nslice); the Lean Spec `isTiling` judges what the code produced.
  * protocol: real BANE (`filter_mc_sharemem` / `filter_image`) is run on small synthetic FITS images
    in a child process under a watchdog (the whole process group is killed on timeout: a hang of the
    implementation is an observed outcome).  With the hook `_verif_point` (hooks/C07-01) the harness
    decides, stripe by stripe, the order in which stripes reach and leave each synchronisation point and
    injects one fault per (stripe, phase).  The observed event trace is handed to the Lean driver, which
    checks that it is a run of the protocol model and that the model predicts the observed outcome
    (done | exception | hang).  The Spec is judged on the implementation's own output: no hang, no
    exception without a fault, an exception with a fault, every pixel written, maps bit-identical
    across orders and worker counts for a fixed layout, no shared-memory segment left behind.
  * the same configurations are also run free-running with the hook disabled (AEGEAN_VERIF unset).
search(ctx): wider sweep of (rows, step, cores, nslice) free-running, implementation vs Spec.

Child mode (`corr_C07.py --child cfg.json`): runs one BANE call and writes result.json.
"""
import hashlib
import itertools
import json
import os
import signal
import subprocess
import sys
import time

LEVEL = 'proof'
LEANCHECKER = True
RULE = ("a case is one real BANE run (rows, cols, step, box, cores, nslice, mask, schedule, fault) in a child process "
        "under a watchdog; non-trivial = at least 2 realised stripes and (a forced arrival order at a synchronisation "
        "point, or an injected fault, or realised stripes > requested cores/stripes); distinct by (layout, cores, mask, "
        "schedule, fault); layout cases (rows, step, nslice) are counted separately in the histogram")
ASSUMPTIONS = [
    "the OS scheduler, fork, /dev/shm and the multiprocessing resource tracker are observed, not modelled; the barrier "
    "state machine is modelled from CPython 3.12 threading.Barrier (enter / release / exit / reset / abort under one lock)",
    "multiprocessing.Pool(processes=P, maxtasksperchild=1).map_async(chunksize=1).get() is modelled as: a queued task "
    "starts only while fewer than P tasks are running, a slot is freed when its task finishes, get() returns/raises only "
    "after every task has finished (MapResult._set); a worker killed by a signal is not modelled",
    "IEEE: width_y = int(max(img_y/nslice/step,1)*step) is regenerated as Float arithmetic; that it is >= 1 and equals "
    "max(img_y // nslice, step) is checked by the driver on every case, not proved (the layout theorems hold for every "
    "width >= 1)",
    "pass 1 / pass 2 numerics are abstract functions of the input in the protocol model (their contract is C06)",
    "'changing the number of stripes changes the maps by a small fraction of the local noise' is numerical and sampled "
    "by C06, not part of this check",
]
TRUSTED = ["Gen.C07.widthY / ymins / ymaxs regenerated from BANE.filter_mc_sharemem by py2lean.py (int mode)",
           "hand model Aegean.Model.C07 (pool, CPython barrier, per-stripe phases), tied to the code by hook-driven "
           "trace validation",
           "hook hooks/C07-01 (_verif_point) and the file-rendezvous controller in harness/corr_C07.py"]
PARTIAL = []

PHASES = ['p1', 'b1', 'a1', 'b2', 'a2', 'mk']
WATCHDOG = 8.0          # seconds without completion after every token has been released => hang


# =============================================================================================
# child: one BANE call
# =============================================================================================

def child_main(cfg_path):
    cfg = json.load(open(cfg_path))
    repo = cfg['repo']
    sys.path.insert(0, repo)
    import uuid
    import numpy as np
    out = cfg['out']
    ids = []
    orig = uuid.uuid4

    def rec():
        u = orig()
        ids.append(str(u))
        with open(os.path.join(out, 'ids'), 'a') as f:
            f.write(str(u) + '\n')
        return u
    uuid.uuid4 = rec
    import logging
    logging.disable(logging.CRITICAL)
    from AegeanTools import BANE
    res = dict(outcome=None, etype=None, emsg=None)
    # observe the layout / pool / barrier the code really uses
    seen = {}
    import multiprocessing
    real_get_context = multiprocessing.get_context

    def spy_context(method=None):
        c = real_get_context(method)

        class Spy(object):
            def __getattr__(self, k):
                return getattr(c, k)

            def Barrier(self, parties, *a, **kw):
                seen['parties'] = int(parties)
                return c.Barrier(parties, *a, **kw)

            def Pool(self, processes=None, *a, **kw):
                seen['processes'] = processes
                seen['maxtasksperchild'] = kw.get('maxtasksperchild')
                pool = c.Pool(processes, *a, **kw)
                real_map_async = pool.map_async

                def map_async(func, iterable, *ma, **mkw):
                    tasks = list(iterable)
                    try:
                        seen['regions'] = [[int(t[1][0]), int(t[1][1])] for t in tasks]
                        seen['chunksize'] = mkw.get('chunksize')
                    except Exception:
                        seen['regions'] = None
                    with open(os.path.join(out, 'layout.json.tmp'), 'w') as f:
                        json.dump(seen, f)
                    os.rename(os.path.join(out, 'layout.json.tmp'), os.path.join(out, 'layout.json'))
                    return real_map_async(func, tasks, *ma, **mkw)
                pool.map_async = map_async
                return pool
        return Spy()
    BANE.multiprocessing.get_context = spy_context
    t0 = time.time()
    try:
        if cfg.get('entry') == 'filter_image':
            r = BANE.filter_image(cfg['fits'], out_base=None, step_size=tuple(cfg['step']), box_size=tuple(cfg['box']),
                                  cores=cfg['cores'], mask=cfg['mask'], nslice=cfg['nslice'])
        else:
            r = BANE.filter_mc_sharemem(cfg['fits'], step_size=tuple(cfg['step']), box_size=tuple(cfg['box']),
                                        cores=cfg['cores'], shape=tuple(cfg['shape']), nslice=cfg['nslice'],
                                        domask=cfg['mask'])
        bkg, rms = r
        res['outcome'] = 'done'
        np.save(os.path.join(out, 'bkg.npy'), np.asarray(bkg))
        np.save(os.path.join(out, 'rms.npy'), np.asarray(rms))
        res['hash'] = hashlib.sha256(np.asarray(bkg).tobytes() + b'|' + np.asarray(rms).tobytes()).hexdigest()
        res['dtype'] = [str(np.asarray(bkg).dtype), str(np.asarray(rms).dtype)]
        res['shape'] = list(np.asarray(bkg).shape)
    except KeyboardInterrupt:
        res['outcome'] = 'interrupt'
    except SystemExit as e:
        res['outcome'] = 'exit'
        res['emsg'] = str(e)
    except BaseException as e:  # noqa
        res['outcome'] = 'exception'
        res['etype'] = type(e).__name__
        res['emsg'] = str(e)[-1500:]
    res['wall'] = round(time.time() - t0, 3)
    res['seen'] = seen
    res['ids'] = ids
    leaked = []
    try:
        names = os.listdir('/dev/shm')
    except OSError:
        names = []
    for n in names:
        if any(i in n for i in ids):
            leaked.append(n)
    res['leaked'] = sorted(leaked)
    with open(os.path.join(out, 'result.json.tmp'), 'w') as f:
        json.dump(res, f)
    os.rename(os.path.join(out, 'result.json.tmp'), os.path.join(out, 'result.json'))
    # leave the interpreter without running atexit handlers of a possibly wedged pool
    sys.stdout.flush()
    os._exit(0)


if __name__ == '__main__' and len(sys.argv) >= 3 and sys.argv[1] == '--child':
    child_main(sys.argv[2])


# =============================================================================================
# parent: controller, watchdog
# =============================================================================================

import common  # noqa: E402

HERE = os.path.abspath(__file__)
PY = sys.executable or '/venv/bin/python'


def make_fits(path, rows, cols, seed, nan_frac=0.03):
    import numpy as np
    from astropy.io import fits
    rs = np.random.RandomState(seed)
    yy, xx = np.mgrid[0:rows, 0:cols]
    img = rs.normal(0.0, 1.0, size=(rows, cols)) + 0.05 * yy + 0.02 * xx
    if nan_frac:
        m = rs.uniform(size=img.shape) < nan_frac
        img[m] = np.nan
    hdu = fits.PrimaryHDU(img.astype(np.float32))
    hdu.header['BUNIT'] = 'Jy/beam'
    hdu.writeto(path, overwrite=True)
    return path


def read_events(vdir):
    """list of (tag, pid, ymin, phase) in log order; tolerant of a partial last line"""
    try:
        txt = open(os.path.join(vdir, 'events')).read()
    except OSError:
        return []
    ev = []
    for line in txt.split('\n'):
        w = line.split()
        if len(w) == 4 and w[0] in ('E', 'F', 'T'):
            try:
                ev.append((w[0], int(w[1]), int(w[2]), w[3]))
            except ValueError:
                pass
    return ev


def shm_names():
    try:
        return set(os.listdir('/dev/shm'))
    except OSError:
        return set()


def run_bane(workdir, tag, fits_path, shape, step, box, cores, nslice, mask, schedule=None, faults=(),
             hook=True, entry='mc', watchdog=WATCHDOG, patience=0.35):
    """
    One BANE run in a child process group.
    schedule: None (free run: hook only logs) or a list of grants (ymin_index, phase, settle) where
              settle in {'none', 'gap', 'next'}; stripes are identified by their index in the observed
              layout.  Phases without a grant in the schedule are released immediately on arrival.
    faults  : iterable of (stripe_index, phase)
    returns dict(outcome, events=[(tag,pid,ymin,phase)], grants=[...], result=..., layout=..., leaked_after=[...])
    """
    out = os.path.join(workdir, tag)
    vdir = os.path.join(out, 'v')
    os.makedirs(vdir, exist_ok=True)
    cfg = dict(repo=common.repo_path(), out=out, fits=fits_path, shape=list(shape), step=list(step), box=list(box),
               cores=cores, nslice=nslice, mask=bool(mask), entry=entry)
    cfgp = os.path.join(out, 'cfg.json')
    json.dump(cfg, open(cfgp, 'w'))
    env = dict(os.environ)
    env.pop('AEGEAN_VERIF', None)
    env.pop('AEGEAN_VERIF_DIR', None)
    env['PYTHONPATH'] = common.repo_path()
    env['OMP_NUM_THREADS'] = '1'
    env['OPENBLAS_NUM_THREADS'] = '1'
    env['MKL_NUM_THREADS'] = '1'
    if hook:
        env['AEGEAN_VERIF'] = '1'
        env['AEGEAN_VERIF_DIR'] = vdir
        env['AEGEAN_VERIF_TIMEOUT'] = '90'
        if schedule is None:
            open(os.path.join(vdir, 'free'), 'w').close()
    before = shm_names()
    t0 = time.time()
    p = subprocess.Popen([PY, HERE, '--child', cfgp], env=env, start_new_session=True, cwd=out,
                         stdout=open(os.path.join(out, 'stdout'), 'w'), stderr=open(os.path.join(out, 'stderr'), 'w'))
    resp = os.path.join(out, 'result.json')
    layp = os.path.join(out, 'layout.json')
    layout = None
    ymins = None
    todo = list(schedule) if schedule else []
    controlled = set((i, ph) for i, ph, _ in todo)
    granted = set()            # (ymin, phase)
    grants = []                # actual grant order (index, phase)
    faults_made = False
    freed = (not hook) or schedule is None
    t_free = t0
    last_progress = time.time()
    n_events = 0
    settle_until = 0.0
    settle_next = None         # (ymin, count of E events of that stripe to exceed)
    outcome = None
    while True:
        now = time.time()
        if os.path.exists(resp):
            break
        if p.poll() is not None:
            if os.path.exists(resp):
                break
            outcome = 'child-died'
            break
        if layout is None and os.path.exists(layp):
            try:
                layout = json.load(open(layp))
                ymins = [r[0] for r in layout['regions']]
                if hook:
                    for i, ph in faults:
                        if i < len(ymins):
                            open(os.path.join(vdir, f'fault.{ymins[i]}.{ph}'), 'w').close()
                faults_made = True
            except Exception:
                layout = None
        if hook and not freed and ymins is not None and faults_made:
            ev = read_events(vdir)
            if len(ev) != n_events:
                n_events = len(ev)
                last_progress = now
            arrived = [(y, ph) for t, _, y, ph in ev if t == 'E']
            # uncontrolled points are released on arrival
            for y, ph in arrived:
                if (y, ph) in granted:
                    continue
                idx = ymins.index(y) if y in ymins else None
                if idx is None or (idx, ph) not in controlled:
                    open(os.path.join(vdir, f'go.{y}.{ph}'), 'w').close()
                    granted.add((y, ph))
                    last_progress = now
            # settle conditions of the previous grant
            ready = now >= settle_until
            if ready and settle_next is not None:
                y, k = settle_next
                cnt = sum(1 for yy, _ in arrived if yy == y)
                finished = False
                if cnt > k or finished or now - last_progress > patience:
                    settle_next = None
                else:
                    ready = False
            if ready and todo:
                pending = [(ymins.index(y), ph) for y, ph in arrived if (y, ph) not in granted and y in ymins]
                pick = None
                if (todo[0][0], todo[0][1]) in pending:
                    pick = 0
                elif now - last_progress > patience:
                    for k, (i, ph, _) in enumerate(todo):
                        if (i, ph) in pending:
                            pick = k
                            break
                    if pick is None:
                        # nothing that is scheduled has arrived and nothing moves: release everything
                        todo = []
                if pick is not None:
                    i, ph, settle = todo.pop(pick)
                    y = ymins[i]
                    open(os.path.join(vdir, f'go.{y}.{ph}'), 'w').close()
                    granted.add((y, ph))
                    grants.append((i, ph))
                    last_progress = now
                    if settle == 'gap':
                        settle_until = now + 0.03
                    elif settle == 'next':
                        settle_next = (y, sum(1 for yy, _ in arrived if yy == y))
                        settle_until = now + 0.002
            if not todo and settle_next is None and now >= settle_until:
                open(os.path.join(vdir, 'free'), 'w').close()
                freed = True
                t_free = now
        if freed:
            ev_n = len(read_events(vdir)) if hook else 0
            if ev_n != n_events:
                n_events = ev_n
                t_free = now
            if now - max(t_free, t0) > watchdog:
                outcome = 'hang'
                break
        elif now - t0 > 60:
            outcome = 'hang'
            break
        time.sleep(0.002)
    wall = time.time() - t0
    try:
        os.killpg(p.pid, signal.SIGKILL)
    except (ProcessLookupError, PermissionError):
        pass
    try:
        p.wait(timeout=10)
    except Exception:
        pass
    result = None
    if os.path.exists(resp):
        try:
            result = json.load(open(resp))
        except Exception:
            result = None
    if layout is None and os.path.exists(layp):
        try:
            layout = json.load(open(layp))
        except Exception:
            pass
    if outcome is None:
        outcome = result['outcome'] if result else 'child-died'
    # shared memory attributed to this run
    ids = []
    try:
        ids = [l.strip() for l in open(os.path.join(out, 'ids')) if l.strip()]
    except OSError:
        pass
    time.sleep(0.01)
    after = shm_names()
    mine = sorted(n for n in after if any(i in n for i in ids))
    for n in mine:
        try:
            os.unlink(os.path.join('/dev/shm', n))
        except OSError:
            pass
    stderr_tail = ''
    try:
        stderr_tail = open(os.path.join(out, 'stderr')).read()[-600:]
    except OSError:
        pass
    return dict(outcome=outcome, events=read_events(vdir) if hook else [], grants=grants, result=result, layout=layout,
                leaked_in_child=(result or {}).get('leaked', []), leaked_after=mine, new_shm=sorted(after - before),
                wall=round(wall, 3), out=out, stderr=stderr_tail)
