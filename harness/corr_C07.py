"""
C07 — BANE always terminates, is schedule-independent and fails cleanly.

Correspondence + search for the synchronisation protocol of `BANE.filter_mc_sharemem`.

run(ctx)
  * layout: the regenerated stripe layout (Gen.C07.widthY / ymins / ymaxs, evaluated by the Lean
    driver) is compared with the layout the real code hands to its workers, over a sweep of
    (rows, step, nslice); the Lean Spec `isTiling` judges what the code produced.
  * protocol: real BANE (`filter_mc_sharemem` / `filter_image`) is run on small synthetic FITS images
    in a child process under a watchdog (the whole process group is killed on timeout: a hang of the
    implementation is an observed outcome).  With the hook `_verif_point` (hooks/C07-01) the harness
    decides, stripe by stripe, the order in which stripes reach and leave each synchronisation point and
    injects one fault per (stripe, phase).  The observed event trace is handed to the Lean driver, which
    checks that it is a run of the protocol model and that the model predicts the observed outcome
    (done | exception | hang).  The Spec is judged on the implementation's own output: no hang, no
    exception without a fault, an exception with a fault, every pixel written, maps bit-identical
    across orders and worker counts for a fixed layout, no shared-memory segment left behind.
  * the same configurations are also run free-running with the hook disabled (AEGEAN_VERIF unset).
search(ctx): wider sweep of (rows, step, cores, nslice) free-running, implementation vs Spec.

Child mode (`corr_C07.py --child cfg.json`): runs one BANE call and writes result.json.
"""
import hashlib
import itertools
import json
import os
import signal
import subprocess
import sys
import time

LEVEL = 'proof'
LEANCHECKER = True
RULE = ("a case is one real BANE run (rows, cols, step, box, cores, nslice, mask, image content, schedule, fault) in a child "
        "process under a watchdog; image content in {noise+scattered NaN, all finite, NaN block, one or two fully blank "
        "stripes including their halo rows, all-NaN, constant}; faults are injected per (stripe, phase) in BOTH orders "
        "(others already at the barrier / fault first while the others are held before their next barrier); "
        "non-trivial = at least 2 realised stripes and (a forced arrival order at a synchronisation "
        "point, or an injected fault, or realised stripes > requested cores/stripes); distinct by (layout, cores, mask, "
        "content, schedule, fault); plus in-process histories (several filter_image calls in one process on a reused, "
        "rewritten file name, each compared with a never-used name and a fresh process) and a SIGINT-to-the-group "
        "scenario; layout cases (rows, step, nslice) are counted separately in the histogram")
ASSUMPTIONS = [
    "the OS scheduler, fork, /dev/shm and the multiprocessing resource tracker are observed, not modelled; the barrier "
    "state machine is modelled from CPython 3.12 threading.Barrier (enter / release / exit / reset / abort under one lock)",
    "multiprocessing.Pool(processes=P, maxtasksperchild=1).map_async(chunksize=1).get() is modelled as: a queued task "
    "starts only while fewer than P tasks are running, a slot is freed when its task finishes, get() returns/raises only "
    "after every task has finished (MapResult._set); a worker killed by a signal is not modelled",
    "IEEE: width_y = int(max(img_y/nslice/step,1)*step) is regenerated as Float arithmetic; that it is >= 1 and equals "
    "max(img_y // nslice, step) is checked by the driver on every case, not proved (the layout theorems hold for every "
    "width >= 1)",
    "pass 1 / pass 2 numerics are abstract functions of the input in the protocol model (their contract is C06)",
    "'changing the number of stripes changes the maps by a small fraction of the local noise' is numerical: sampled here "
    "(gradient images, tall / wide / square boxes, nslice 1 vs 2,3,4, bound SENS_C x local noise), not proved; the halo "
    "arithmetic behind it is proved (halo_sufficient)",
]
TRUSTED = ["Gen.C07.widthY / ymins / ymaxs regenerated from BANE.filter_mc_sharemem by py2lean.py (int mode)",
           "hand model Aegean.Model.C07 (pool, CPython barrier, per-stripe phases), tied to the code by hook-driven "
           "trace validation",
           "hook hooks/C07-01 (_verif_point) and the file-rendezvous controller in harness/corr_C07.py"]
PARTIAL = []

PHASES = ['p1', 'b1', 'a1', 'b2', 'a2', 'mk']
FAULT_TYPES = ['MemoryError', 'OSError', 'KeyboardInterrupt', 'SystemExit', 'VerifBaseException']
WATCHDOG = 8.0          # seconds without completion after every token has been released => hang


# =============================================================================================
# child: one BANE call
# =============================================================================================

def child_main(cfg_path):
    cfg = json.load(open(cfg_path))
    repo = cfg['repo']
    sys.path.insert(0, repo)
    import uuid
    import numpy as np
    out = cfg['out']
    ids = []
    orig = uuid.uuid4

    def rec():
        u = orig()
        ids.append(str(u))
        with open(os.path.join(out, 'ids'), 'a') as f:
            f.write(str(u) + '\n')
        return u
    uuid.uuid4 = rec
    import logging
    logging.disable(logging.CRITICAL)
    from AegeanTools import BANE
    res = dict(outcome=None, etype=None, emsg=None)
    ftype = cfg.get('fault_type') or 'RuntimeError'
    if ftype != 'RuntimeError' and hasattr(BANE, '_verif_point'):
        # the hook raises RuntimeError; the forked workers inherit this wrapper, which turns the injected fault
        # into the exception type under test (the failure handling must not depend on the type)
        class VerifBaseException(BaseException):
            pass
        types = dict(MemoryError=MemoryError, OSError=OSError, KeyboardInterrupt=KeyboardInterrupt,
                     ValueError=ValueError, SystemExit=SystemExit, VerifBaseException=VerifBaseException,
                     FloatingPointError=FloatingPointError)
        real_point = BANE._verif_point

        def typed_point(ymin, phase):
            try:
                return real_point(ymin, phase)
            except RuntimeError as e:
                if 'injected fault' in str(e):
                    raise types[ftype]('verif hook: injected fault (%s) at %s %s' % (ftype, ymin, phase))
                raise
        BANE._verif_point = typed_point
    # observe the layout / pool / barrier the code really uses
    seen = {}
    import multiprocessing
    real_get_context = multiprocessing.get_context

    def spy_context(method=None):
        c = real_get_context(method)

        class Spy(object):
            def __getattr__(self, k):
                return getattr(c, k)

            def Barrier(self, parties, *a, **kw):
                seen['parties'] = int(parties)
                return c.Barrier(parties, *a, **kw)

            def Pool(self, processes=None, *a, **kw):
                seen['processes'] = processes
                seen['maxtasksperchild'] = kw.get('maxtasksperchild')
                pool = c.Pool(processes, *a, **kw)
                real_map_async = pool.map_async

                def map_async(func, iterable, *ma, **mkw):
                    tasks = list(iterable)
                    try:
                        seen['regions'] = [[int(t[1][0]), int(t[1][1])] for t in tasks]
                        seen['chunksize'] = mkw.get('chunksize')
                    except Exception:
                        seen['regions'] = None
                    with open(os.path.join(out, 'layout.json.tmp'), 'w') as f:
                        json.dump(seen, f)
                    os.rename(os.path.join(out, 'layout.json.tmp'), os.path.join(out, 'layout.json'))
                    return real_map_async(func, tasks, *ma, **mkw)
                pool.map_async = map_async
                return pool
        return Spy()
    BANE.multiprocessing.get_context = spy_context
    t0 = time.time()
    try:
        if cfg.get('entry') == 'filter_image':
            r = BANE.filter_image(cfg['fits'], out_base=None, step_size=tuple(cfg['step']), box_size=tuple(cfg['box']),
                                  cores=cfg['cores'], mask=cfg['mask'], nslice=cfg['nslice'])
        else:
            r = BANE.filter_mc_sharemem(cfg['fits'], step_size=tuple(cfg['step']), box_size=tuple(cfg['box']),
                                        cores=cfg['cores'], shape=tuple(cfg['shape']), nslice=cfg['nslice'],
                                        domask=cfg['mask'])
        bkg, rms = r
        res['outcome'] = 'done'
        np.save(os.path.join(out, 'bkg.npy'), np.asarray(bkg))
        np.save(os.path.join(out, 'rms.npy'), np.asarray(rms))
        res['hash'] = hashlib.sha256(np.asarray(bkg).tobytes() + b'|' + np.asarray(rms).tobytes()).hexdigest()
        res['dtype'] = [str(np.asarray(bkg).dtype), str(np.asarray(rms).dtype)]
        res['shape'] = list(np.asarray(bkg).shape)
    except KeyboardInterrupt:
        res['outcome'] = 'interrupt'
    except SystemExit as e:
        res['outcome'] = 'exit'
        res['emsg'] = str(e)
    except BaseException as e:  # noqa
        res['outcome'] = 'exception'
        res['etype'] = type(e).__name__
        res['emsg'] = str(e)[-1500:]
    res['wall'] = round(time.time() - t0, 3)
    res['seen'] = seen
    res['ids'] = ids
    leaked = []
    try:
        names = os.listdir('/dev/shm')
    except OSError:
        names = []
    for n in names:
        if any(i in n for i in ids):
            leaked.append(n)
    res['leaked'] = sorted(leaked)
    with open(os.path.join(out, 'result.json.tmp'), 'w') as f:
        json.dump(res, f)
    os.rename(os.path.join(out, 'result.json.tmp'), os.path.join(out, 'result.json'))
    # leave the interpreter without running atexit handlers of a possibly wedged pool
    sys.stdout.flush()
    os._exit(0)




# =============================================================================================
# parent: controller, watchdog
# =============================================================================================

import common  # noqa: E402

HERE = os.path.abspath(__file__)
PY = sys.executable or '/venv/bin/python'


def make_fits(path, rows, cols, seed, content='noise'):
    """content: noise (gradient + noise + 3 % scattered NaN) | finite (no NaN) | nanblock (a rectangular NaN block)
    | blank:<lo>:<hi> (rows [lo,hi) entirely NaN: a stripe together with the half-box of rows it loads either side)
    | allnan | const"""
    import numpy as np
    from astropy.io import fits
    rs = np.random.RandomState(seed)
    yy, xx = np.mgrid[0:rows, 0:cols]
    img = rs.normal(0.0, 1.0, size=(rows, cols)) + 0.05 * yy + 0.02 * xx
    if content == 'noise':
        m = rs.uniform(size=img.shape) < 0.03
        img[m] = np.nan
    elif content == 'finite':
        pass
    elif content.startswith('grad:'):
        # sigma = 1 noise on a background climbing <g> sigma per row, no NaN (stripe-count sensitivity)
        img = rs.normal(0.0, 1.0, size=(rows, cols)) + float(content.split(':')[1]) * yy
    elif content == 'nanblock':
        img[rows // 4: rows // 4 + 6, cols // 4: cols // 4 + 10] = np.nan
    elif content.startswith('blank:'):
        _, lo, hi = content.split(':')
        img[int(lo):int(hi), :] = np.nan
    elif content == 'allnan':
        img[:, :] = np.nan
    elif content == 'const':
        img[:, :] = 3.0
    else:
        raise ValueError(content)
    hdu = fits.PrimaryHDU(img.astype(np.float32))
    hdu.header['BUNIT'] = 'Jy/beam'
    hdu.writeto(path, overwrite=True)
    return path


def read_events(vdir):
    """list of (tag, pid, ymin, phase) in log order; tolerant of a partial last line"""
    try:
        txt = open(os.path.join(vdir, 'events')).read()
    except OSError:
        return []
    ev = []
    for line in txt.split('\n'):
        w = line.split()
        if len(w) == 4 and w[0] in ('E', 'F', 'T'):
            try:
                ev.append((w[0], int(w[1]), int(w[2]), w[3]))
            except ValueError:
                pass
    return ev


def shm_names():
    try:
        return set(os.listdir('/dev/shm'))
    except OSError:
        return set()


def run_bane(workdir, tag, fits_path, shape, step, box, cores, nslice, mask, schedule=None, faults=(),
             hook=True, entry='mc', watchdog=WATCHDOG, patience=0.35, interrupt=False, fault_type=None):
    """
    One BANE run in a child process group.
    schedule: None (free run: hook only logs) or a list of grants (ymin_index, phase, settle) where
              settle in {'none', 'gap', 'next'}; stripes are identified by their index in the observed
              layout.  Phases without a grant in the schedule are released immediately on arrival.
    faults  : iterable of (stripe_index, phase)
    returns dict(outcome, events=[(tag,pid,ymin,phase)], grants=[...], result=..., layout=..., leaked_after=[...])
    """
    out = os.path.join(workdir, tag)
    vdir = os.path.join(out, 'v')
    os.makedirs(vdir, exist_ok=True)
    cfg = dict(repo=common.repo_path(), out=out, fits=fits_path, shape=list(shape), step=list(step), box=list(box),
               cores=cores, nslice=nslice, mask=bool(mask), entry=entry, fault_type=fault_type)
    cfgp = os.path.join(out, 'cfg.json')
    json.dump(cfg, open(cfgp, 'w'))
    env = dict(os.environ)
    env.pop('AEGEAN_VERIF', None)
    env.pop('AEGEAN_VERIF_DIR', None)
    env['PYTHONPATH'] = common.repo_path()
    env['OMP_NUM_THREADS'] = '1'
    env['OPENBLAS_NUM_THREADS'] = '1'
    env['MKL_NUM_THREADS'] = '1'
    if hook:
        env['AEGEAN_VERIF'] = '1'
        env['AEGEAN_VERIF_DIR'] = vdir
        env['AEGEAN_VERIF_TIMEOUT'] = '90'
        if schedule is None:
            open(os.path.join(vdir, 'free'), 'w').close()
    before = shm_names()
    t0 = time.time()
    p = subprocess.Popen([PY, HERE, '--child', cfgp], env=env, start_new_session=True, cwd=out,
                         stdout=open(os.path.join(out, 'stdout'), 'w'), stderr=open(os.path.join(out, 'stderr'), 'w'))
    resp = os.path.join(out, 'result.json')
    layp = os.path.join(out, 'layout.json')
    layout = None
    ymins = None
    todo = list(schedule) if schedule else []
    giveup = max(3.0, watchdog / 2.0)
    controlled = set((i, ph) for i, ph, _ in todo)
    if interrupt:
        todo = []          # the b1 points stay controlled (held) and are never granted
    granted = set()            # (ymin, phase)
    grants = []                # actual grant order (index, phase)
    faults_made = False
    freed = (not hook) or schedule is None
    t_free = t0
    last_progress = time.time()
    n_events = 0
    settle_until = 0.0
    settle_next = None         # (ymin, count of E events of that stripe to exceed)
    outcome = None
    while True:
        now = time.time()
        if os.path.exists(resp):
            break
        if p.poll() is not None:
            if os.path.exists(resp):
                break
            outcome = 'child-died'
            break
        if layout is None and os.path.exists(layp):
            try:
                layout = json.load(open(layp))
                ymins = [r[0] for r in layout['regions']]
                if hook:
                    for flt in faults:
                        i, ph = flt[0], flt[1]
                        if i < len(ymins):
                            open(os.path.join(vdir, f'fault.{ymins[i]}.{ph}'), 'w').close()
                faults_made = True
            except Exception:
                layout = None
        if interrupt and hook and not freed and ymins is not None:
            # every stripe is forked, has done pass 1 and is held before barrier 1: Ctrl-C for the whole group
            if sum(1 for t, _, _, ph in read_events(vdir) if t == 'E' and ph == 'b1') >= len(ymins):
                try:
                    os.killpg(p.pid, signal.SIGINT)
                except (ProcessLookupError, PermissionError):
                    pass
                freed = True
                t_free = now
                grants.append(('SIGINT', 'b1'))
        if hook and not freed and ymins is not None and faults_made:
            ev = read_events(vdir)
            if len(ev) != n_events:
                n_events = len(ev)
                last_progress = now
            arrived = [(y, ph) for t, _, y, ph in ev if t == 'E']
            # uncontrolled points are released on arrival
            for y, ph in arrived:
                if (y, ph) in granted:
                    continue
                idx = ymins.index(y) if y in ymins else None
                if idx is None or (idx, ph) not in controlled:
                    open(os.path.join(vdir, f'go.{y}.{ph}'), 'w').close()
                    granted.add((y, ph))
                    last_progress = now
            # settle conditions of the previous grant
            ready = now >= settle_until
            if ready and settle_next is not None:
                y, k = settle_next
                cnt = sum(1 for yy, _ in arrived if yy == y)
                finished = False
                if cnt > k or finished or now - last_progress > giveup:
                    settle_next = None
                else:
                    ready = False
            if ready and todo:
                pending = [(ymins.index(y), ph) for y, ph in arrived if (y, ph) not in granted and y in ymins]
                pick = None
                if (todo[0][0], todo[0][1]) in pending:
                    pick = 0
                elif now - last_progress > patience:
                    for k, (i, ph, _) in enumerate(todo):
                        if (i, ph) in pending:
                            pick = k
                            break
                    if pick is None and now - last_progress > giveup:
                        # nothing that is scheduled has arrived and nothing has moved for a long time
                        # (the workers are not merely computing): release everything
                        todo = []
                if pick is not None:
                    i, ph, settle = todo.pop(pick)
                    y = ymins[i]
                    open(os.path.join(vdir, f'go.{y}.{ph}'), 'w').close()
                    granted.add((y, ph))
                    grants.append((i, ph))
                    last_progress = now
                    if settle == 'gap':
                        settle_until = now + 0.03
                    elif settle == 'pause':
                        settle_until = now + 0.25
                    elif settle == 'next':
                        settle_next = (y, sum(1 for yy, _ in arrived if yy == y))
                        settle_until = now + 0.002
            if not todo and settle_next is None and now >= settle_until and not interrupt:
                open(os.path.join(vdir, 'free'), 'w').close()
                freed = True
                t_free = now
        if freed:
            ev_n = len(read_events(vdir)) if hook else 0
            if ev_n != n_events:
                n_events = ev_n
                t_free = now
            if now - max(t_free, t0) > watchdog:
                outcome = 'hang'
                break
        elif now - t0 > 60:
            outcome = 'hang'
            break
        time.sleep(0.002)
    wall = time.time() - t0
    try:
        os.killpg(p.pid, signal.SIGKILL)
    except (ProcessLookupError, PermissionError):
        pass
    try:
        p.wait(timeout=10)
    except Exception:
        pass
    result = None
    if os.path.exists(resp):
        try:
            result = json.load(open(resp))
        except Exception:
            result = None
    if layout is None and os.path.exists(layp):
        try:
            layout = json.load(open(layp))
        except Exception:
            pass
    if outcome is None:
        outcome = result['outcome'] if result else 'child-died'
    # shared memory attributed to this run
    ids = []
    try:
        ids = [l.strip() for l in open(os.path.join(out, 'ids')) if l.strip()]
    except OSError:
        pass
    time.sleep(0.01)
    after = shm_names()
    mine = sorted(n for n in after if any(i in n for i in ids))
    for n in mine:
        try:
            os.unlink(os.path.join('/dev/shm', n))
        except OSError:
            pass
    stderr_tail = ''
    try:
        stderr_tail = open(os.path.join(out, 'stderr')).read()[-600:]
    except OSError:
        pass
    return dict(outcome=outcome, events=read_events(vdir) if hook else [], grants=grants, result=result, layout=layout,
                leaked_in_child=(result or {}).get('leaked', []), leaked_after=mine, new_shm=sorted(after - before),
                wall=round(wall, 3), out=out, stderr=stderr_tail)


# =============================================================================================
# layout: the real layout code, executed in-process with a fake pool (no fork, no file)
# =============================================================================================

def observe_layout(rows, step, cores, nslice, mode='ok'):
    """run the real filter_mc_sharemem with a fake multiprocessing context; return what it set up.
    mode: ok | raise (get() raises) | interrupt (get() raises KeyboardInterrupt) | setupfail (Pool() raises)"""
    from AegeanTools import BANE
    seen = {'ev': []}

    class FakeResult(object):
        def get(self, timeout=None):
            if mode == 'raise':
                raise RuntimeError('worker failed')
            if mode == 'interrupt':
                raise KeyboardInterrupt()
            seen['ev'].append('mapGet')
            return None

    class FakePool(object):
        def map_async(self, func, iterable, chunksize=None):
            tasks = list(iterable)
            seen['regions'] = [[int(t[1][0]), int(t[1][1])] for t in tasks]
            return FakeResult()

        def close(self):
            seen['ev'].append('pclose')

        def join(self):
            seen['ev'].append('pjoin')

        def terminate(self):
            seen['ev'].append('poolTerminate')

    class FakeCtx(object):
        def Barrier(self, parties, *a, **kw):
            seen['parties'] = int(parties)
            return None

        def Pool(self, processes=None, *a, **kw):
            seen['processes'] = processes
            if mode == 'setupfail':
                raise OSError('cannot start pool')
            seen['ev'].append('setup')
            return FakePool()
    class FakeShm(object):
        """in-process stand-in for SharedMemory (the layout sweep must not touch /dev/shm)"""
        def __init__(self, name=None, create=False, size=0):
            self.buf = memoryview(bytearray(int(size)))
            self.kind = 'Bkg' if str(name).startswith('ibkg') else 'Rms'
            seen['ev'].append('create' + self.kind)

        def close(self):
            seen['ev'].append('close' + self.kind)

        def unlink(self):
            seen['ev'].append('unlink' + self.kind)
    import logging
    real = BANE.multiprocessing.get_context
    real_shm = BANE.SharedMemory
    BANE.multiprocessing.get_context = lambda method=None: FakeCtx()
    BANE.SharedMemory = FakeShm
    logging.disable(logging.CRITICAL)
    try:
        BANE.filter_mc_sharemem('nofile.fits', (step, step), (3 * step, 3 * step), cores, (rows, 2), nslice=nslice)
        seen['outcome'] = 'normal'
    except SystemExit:
        seen['outcome'] = 'normal'      # sys.exit(1) at the very end of the finally block, after the release
    except BaseException as e:  # noqa
        if mode == 'ok':
            raise
        seen['outcome'] = 'raised'
        seen['etype'] = type(e).__name__
    finally:
        logging.disable(logging.NOTSET)
        BANE.multiprocessing.get_context = real
        BANE.SharedMemory = real_shm
    return seen


def layout_sweep(ctx, triples):
    """triples: (rows, step, cores, nslice|None)"""
    lines, meta = [], []
    for rows, step, cores, nslice in triples:
        case = dict(kind='layout', rows=rows, step=step, cores=cores, nslice=nslice)
        try:
            seen = observe_layout(rows, step, cores, nslice)
        except Exception as e:
            ctx.fail('spec', case, f"filter_mc_sharemem raised {type(e).__name__}: {e} while setting up the layout",
                     dict(what='layout-raises'))
            ctx.case(case)
            continue
        eff = cores if (nslice is None or cores == 1) else nslice
        regs = seen.get('regions') or []
        mins = [r[0] for r in regs]
        maxs = [r[1] for r in regs]
        lines.append(f"eff {cores} {'none' if nslice is None else nslice}")
        lines.append(f"layout {rows} {eff} {step}")
        lines.append("spec %d %s / %s" % (rows, " ".join(map(str, mins)), " ".join(map(str, maxs))))
        meta.append((case, seen, eff, mins, maxs))
    outs = ctx.driver.batch(lines) if lines else []
    for k, (case, seen, eff, mins, maxs) in enumerate(meta):
        oe, ol, osp = outs[3 * k:3 * k + 3]
        n = len(mins)
        ctx.count('layout')
        nt = None
        if n >= 2 and (n > eff or case['rows'] % max(eff, 1) != 0):
            nt = ('layout', case['rows'], case['step'], eff)
        # Spec on the implementation's own layout
        if osp != 'ok':
            ctx.fail('spec', dict(case, regions=list(zip(mins, maxs))),
                     f"the stripes handed to the workers do not tile [0,{case['rows']}): ymins={mins} ymaxs={maxs}",
                     dict(what='layout-not-tiling'))
        if seen.get('parties') != n:
            ctx.fail('spec', dict(case, parties=seen.get('parties'), tasks=n),
                     f"barrier parties={seen.get('parties')} but {n} tasks are submitted: the barrier can never fill "
                     f"(or fills early)", dict(what='parties-vs-tasks'))
        # correspondence with the regenerated model
        if oe != str(eff):
            ctx.fail('corr', case, f"effective slices: implementation {eff}, model {oe}", dict(what='eff'))
        f = dict(x.split('=', 1) for x in ol.split()) if ol.startswith('w=') else None
        if f is None:
            ctx.fail('corr', case, f"driver: {ol}", dict(what='layout-driver'))
        else:
            mm = [int(x) for x in f['mins'].split(',') if x]
            mx = [int(x) for x in f['maxs'].split(',') if x]
            if (mm, mx) != (mins, maxs):
                ctx.fail('corr', dict(case, impl=[mins, maxs], model=[mm, mx]),
                         f"layout differs: implementation ymins={mins} ymaxs={maxs}; regenerated model ymins={mm} ymaxs={mx}",
                         dict(what='layout'))
            if int(f['w']) < 1:
                ctx.fail('corr', case, f"regenerated width {f['w']} < 1: the IEEE assumption of the layout theorems fails",
                         dict(what='width'))
            if f['w'] != f['wx']:
                ctx.count('layout:float-width-differs-from-exact')
            if n > eff:
                ctx.count('layout:realised>requested')
        ctx.case(dict(case, regions=[mins, maxs][:1]), nontrivial_key=nt, sample_every=211)


def exit_paths(ctx):
    """the exit paths of filter_mc_sharemem (normal, worker exception, KeyboardInterrupt, pool set-up failure),
    executed in-process with fakes: every created segment must be closed and unlinked (Spec), and the sequence
    of events must be an execution of the Lean control-flow model `parentProg` (correspondence)."""
    lines, meta = [], []
    for mode in ('ok', 'raise', 'interrupt', 'setupfail'):
        case = dict(kind='exitpath', mode=mode)
        try:
            seen = observe_layout(64, 8, 2, 2, mode=mode)
        except Exception as e:
            ctx.fail('spec', case, f"unexpected {type(e).__name__}: {e}", dict(what='exitpath-raises', mode=mode))
            continue
        ev = seen['ev']
        for kind in ('Bkg', 'Rms'):
            if 'create' + kind in ev:
                k0 = ev.index('create' + kind)
                if 'unlink' + kind not in ev[k0:] or 'close' + kind not in ev[k0:]:
                    ctx.fail('spec', dict(case, events=ev), f"exit path '{mode}': segment {kind} created but not closed+unlinked: {ev}",
                             dict(what='shm-leak', mode=mode))
        if mode == 'raise' and seen.get('outcome') != 'raised':
            ctx.fail('spec', dict(case, events=ev), "a worker exception re-raised by get() was swallowed by filter_mc_sharemem",
                     dict(what='fault-swallowed', mode=mode))
        toks, k = [], 0
        while k < len(ev):
            if ev[k] == 'pclose' and k + 1 < len(ev) and ev[k + 1] == 'pjoin':
                toks.append('collect')
                k += 2
            elif ev[k] == 'pclose':
                toks.append('poolClose')
                k += 1
            else:
                toks.append(ev[k])
                k += 1
        lines.append(f"exitpath {seen.get('outcome')} " + " ".join(toks))
        meta.append((case, ev))
    outs = ctx.driver.batch(lines) if lines else []
    for (case, ev), o in zip(meta, outs):
        f = dict(x.split('=', 1) for x in o.split()) if o.startswith('path=') else None
        if f is None:
            ctx.fail('corr', dict(case, events=ev), f"driver: {o}", dict(what='exitpath-driver', mode=case['mode']))
        else:
            if f['spec'] != 'ok':
                # the Lean Spec predicate releasedOK (proved of every execution of the control-flow model:
                # parent_runs_released) on what the implementation did
                ctx.fail('spec', dict(case, events=ev), f"exit path '{case['mode']}' violates releasedOK (a created segment is not "
                         f"closed+unlinked, or something still needs the segments after an unlink): {ev}",
                         dict(what='shm-leak', mode=case['mode']))
            if f['path'] != 'ok':
                # not one of the model's own paths, but acceptable (e.g. an extra idempotent pool.terminate()):
                # the obligation is the predicate, not the path
                ctx.count('exitpath:outside-the-model-grammar-but-releasedOK' if f['spec'] == 'ok' else 'exitpath:outside-the-model-grammar')
        ctx.count('exitpath')
        ctx.case(dict(case, events=ev), nontrivial_key=('exitpath', case['mode']))


# =============================================================================================
# protocol runs
# =============================================================================================

def perms_sample(rng, n, k):
    allp = list(itertools.permutations(range(n)))
    if k >= len(allp):
        return allp
    return rng.sample(allp, k)


def sched_orders(n, order1, order2, mask):
    """arrival order at barrier 1 = order1, at barrier 2 = order2; departures uncontrolled"""
    s = [(i, 'b1', 'gap') for i in order1]
    if mask:
        s += [(i, 'b2', 'gap') for i in order2]
    return s


def sched_fast(n, order1, x, mask):
    """stripe x is released from barrier 1 first and runs ahead to barrier 2 while the others are still
    held right after their wait() (where the pinned code calls reset())"""
    s = [(i, 'b1', 'gap') for i in order1]
    s += [(x, 'a1', 'next')]
    if mask:
        s += [(x, 'b2', 'gap')]
    s += [(i, 'a1', 'gap') for i in order1 if i != x]
    return s


def sched_fault(n, x, ph, mask):
    """others first: the other stripes reach (and enter) the barrier first, the faulty stripe comes last"""
    others = [i for i in range(n) if i != x]
    s = []
    if ph in ('p1', 'b1'):
        s += [(i, 'b1', 'gap') for i in others] + [(x, ph, 'gap')]
    elif ph in ('a1', 'b2') and mask:
        s += [(i, 'a1', 'next') for i in others] + [(i, 'b2', 'gap') for i in others] + [(x, ph, 'gap')]
    else:
        s += [(x, ph, 'gap')]
    return s


def sched_fault_first(n, x, ph, mask):
    """fault first: the faulty stripe raises while every other stripe is still held *before* its next barrier
    (at b1 for a fault at p1/b1, at a1 for a fault at a1, at b2 for a fault at b2, at a2 for a2/mk); only when the
    failure has been dealt with (pause) are the others let go — they reach the barrier after the failure"""
    others = [i for i in range(n) if i != x]
    hold = {'p1': 'b1', 'b1': 'b1', 'a1': 'a1', 'b2': 'b2', 'a2': 'a2', 'mk': 'a2'}[ph]
    if not mask and hold in ('b2', 'a2'):
        return [(x, ph, 'pause')]
    s = []
    if ph == 'mk':
        s.append((x, 'a2', 'next'))
    s.append((x, ph, 'pause'))
    s += [(i, hold, 'gap') for i in others]
    return s


class Config(object):
    def __init__(self, rows, cols, step, box, cores, nslice, mask, entry='mc', content='noise', light=False):
        self.rows, self.cols, self.step, self.box = rows, cols, step, box
        self.cores, self.nslice, self.mask, self.entry = cores, nslice, mask, entry
        self.content, self.light = content, light

    def d(self):
        return dict(rows=self.rows, cols=self.cols, step=self.step, box=self.box, cores=self.cores,
                    nslice=self.nslice, mask=self.mask, entry=self.entry, content=self.content)

    def with_cores(self, cores):
        return Config(self.rows, self.cols, self.step, self.box, cores, self.nslice, self.mask, self.entry,
                      self.content, self.light)

    @staticmethod
    def of(d):
        return Config(d['rows'], d['cols'], d['step'], d['box'], d['cores'], d['nslice'], d['mask'], d.get('entry', 'mc'),
                      d.get('content', 'noise'))


def do_run(ctx, work, tag, cfg, schedule=None, faults=(), hook=True, watchdog=WATCHDOG):
    fpath = os.path.join(work, f"img_{cfg.rows}_{cfg.cols}_{getattr(cfg, 'imgseed', 0)}_{cfg.content.replace(':', '-')}.fits")
    if not os.path.exists(fpath):
        tmp = fpath + f'.{os.getpid()}.{tag}.tmp'
        make_fits(tmp, cfg.rows, cfg.cols, seed=cfg.rows * 1000 + cfg.cols + getattr(cfg, 'imgseed', 0), content=cfg.content)
        os.replace(tmp, fpath)
    pair = lambda v: tuple(v) if isinstance(v, (list, tuple)) else (v, v)  # noqa: E731
    r = run_bane(work, tag, fpath, (cfg.rows, cfg.cols), pair(cfg.step), pair(cfg.box), cfg.cores,
                 cfg.nslice, cfg.mask, schedule=schedule, faults=faults, hook=hook, entry=cfg.entry, watchdog=watchdog,
                 patience=max(0.35, watchdog / 20.0),
                 fault_type=next((f[2] for f in faults if len(f) > 2), None))
    r['fits'] = fpath
    return r


def trace_tokens(r):
    """hook events as driver tokens; None if an event names an unknown stripe"""
    lay = r.get('layout') or {}
    regs = lay.get('regions') or []
    ymins = [x[0] for x in regs]
    toks = []
    for t, _, y, ph in r['events']:
        if y not in ymins:
            return None
        i = ymins.index(y)
        if t == 'E':
            toks.append(f"{ph}.{i}")
        elif t == 'F':
            toks.append(f"F.{i}")
        elif t == 'T':
            return None
    return toks


def check_maps(r, cfg):
    """every pixel written, mask exactly the non-finite input pixels; returns error text or None"""
    import numpy as np
    from astropy.io import fits
    try:
        bkg = np.load(os.path.join(r['out'], 'bkg.npy'))
        rms = np.load(os.path.join(r['out'], 'rms.npy'))
    except Exception as e:
        return f"maps not returned: {e}"
    img = fits.getdata(r['fits'])
    if bkg.shape != img.shape or rms.shape != img.shape:
        return f"map shape {bkg.shape} != image shape {img.shape}"
    bad_in = ~np.isfinite(img)
    spread = cfg.content.startswith('blank:') or cfg.content in ('nanblock', 'allnan')
    if cfg.mask and spread:
        # an empty box gives a NaN grid node, which the interpolation spreads to finite pixels (C06's business);
        # here: every non-finite input pixel is masked
        if (np.isfinite(bkg) & bad_in).any() or (np.isfinite(rms) & bad_in).any():
            return "a non-finite input pixel is not masked in the maps"
    elif cfg.mask:
        if not np.array_equal(~np.isfinite(bkg), bad_in) or not np.array_equal(~np.isfinite(rms), bad_in):
            rows = sorted(set(np.where((~np.isfinite(rms)) != bad_in)[0].tolist()))[:6]
            return f"mask of the maps differs from the non-finite pixels of the input (rows {rows})"
    unwritten = (rms == 0) & (bkg == 0)
    if unwritten.any():
        rows = sorted(set(np.where(unwritten)[0].tolist()))
        return f"{int(unwritten.sum())} pixels never written (still 0 in both maps), rows {rows[:6]}"
    return None


def judge(ctx, cfg, r, schedule, faults, hookmode, ref, trace_out=None, pinned_out=None):
    """Spec on the implementation's outcome + correspondence with the model's verdict on the trace."""
    lay = r.get('layout') or {}
    regs = lay.get('regions') or []
    n = len(regs)
    procs = lay.get('processes')
    case = dict(kind='run', cfg=cfg.d(), schedule=[list(x) for x in (schedule or [])], faults=[list(x) for x in faults],
                hook=hookmode, regions=regs, parties=lay.get('parties'), processes=procs)
    fault_raised = any(t == 'F' for t, _, _, _ in r['events'])
    outcome = r['outcome']
    res = r.get('result') or {}
    emsg = (res.get('emsg') or '')
    ok = True
    sig_base = dict(stripes_gt_cores=bool(n > cfg.cores), fault=bool(fault_raised))
    ftype = next((f[2] for f in faults if len(f) > 2), None)
    if ftype and fault_raised:
        sig_base['fault_type'] = ftype
    if outcome in ('child-died', 'interrupt', 'exit'):
        ctx.fail('spec', case, f"BANE ended with {outcome}: {emsg[-300:]} {r.get('stderr', '')[-300:]}",
                 dict(sig_base, what=outcome))
        return False
    if outcome == 'hang':
        detail = (f"BANE did not return within {_WD[0] or WATCHDOG:.0f}s (and {3 * (_WD[0] or WATCHDOG):.0f}s on a re-run) of the last released synchronisation point "
                  f"({n} stripes, pool of {procs}, barrier parties {lay.get('parties')}, cores={cfg.cores}, "
                  f"fault raised: {fault_raised}{' as ' + ftype if ftype and fault_raised else ''}); events: {' '.join(trace_tokens(r) or [])}")
        if pinned_out:
            detail += f"; pinned-protocol model on this trace: {pinned_out}"
        ctx.fail('spec', case, detail, dict(sig_base, what='hang'))
        ok = False
    elif outcome == 'exception' and not fault_raised:
        bb = 'BrokenBarrierError' in emsg
        ctx.fail('spec', case, f"BANE raised without any worker fault being injected ({'BrokenBarrierError' if bb else res.get('etype')}): "
                 f"...{emsg[-400:]}", dict(sig_base, what='spurious-exception', broken_barrier=bb))
        ok = False
    elif outcome == 'done' and fault_raised:
        ctx.fail('spec', case, "a worker raised (injected fault) but filter_mc_sharemem returned normally",
                 dict(sig_base, what='fault-swallowed'))
        ok = False
    if outcome != 'hang' and r.get('leaked_in_child'):
        ctx.fail('spec', case, f"shared memory left behind after the call ended with '{outcome}': {r['leaked_in_child']}",
                 dict(sig_base, what='shm-leak'))
        ok = False
    if outcome == 'done' and not fault_raised:
        err = check_maps(r, cfg)
        if err:
            ctx.fail('spec', case, err, dict(sig_base, what='maps'))
            ok = False
        h = res.get('hash')
        key = (cfg.rows, cfg.cols, cfg.step, cfg.box, cfg.mask, cfg.content, json.dumps(regs))
        if key not in ref:
            ref[key] = (h, case)
        elif ref[key][0] != h:
            ctx.fail('spec', dict(case, other=ref[key][1]),
                     "maps differ between two runs with the same stripe layout (different schedule or worker count): "
                     "not bit-identical", dict(sig_base, what='schedule-dependent-maps'))
            ok = False
    # ---- correspondence: is the trace a run of the model, and does the model allow the outcome? ----
    if trace_out is not None:
        want = {'done': 'done', 'exception': 'exception', 'hang': 'hang'}.get(outcome)
        if trace_out.startswith('notrun'):
            ctx.fail('corr', case, f"the observed event trace is not a run of the protocol model: {trace_out}; "
                     f"events: {' '.join(trace_tokens(r) or [])}", dict(sig_base, what='trace-not-a-run'))
            ok = False
        elif trace_out.startswith('run'):
            allowed = trace_out.split(None, 1)[1].split('|') if len(trace_out.split()) > 1 else []
            if want not in allowed:
                ctx.fail('corr', case, f"the model allows {allowed} after this trace, the implementation ended with {outcome}; "
                         f"events: {' '.join(trace_tokens(r) or [])}", dict(sig_base, what='outcome-vs-model'))
                ok = False
        else:
            ctx.fail('corr', case, f"driver: {trace_out}", dict(sig_base, what='driver'))
            ok = False
    return ok


def plan_runs(ctx, cfgs, thorough):
    """list of (cfg, schedule, faults, hookmode, label)"""
    rng = ctx.rng
    plan = []
    for cfg, n in cfgs:
        plan.append((cfg, None, (), 'off', 'free-nohook'))
        plan.append((cfg, None, (), 'log', 'free-hook'))
        if n >= 2 and cfg.nslice is not None and not cfg.light:
            for extra in ((1, 3) if thorough else (2,)):
                plan.append((cfg.with_cores(max(n, cfg.cores) + extra), None, (), 'off', f'cores+{extra}'))
        if n < 2 or n > 4:
            continue
        allp = list(itertools.permutations(range(n)))
        if cfg.light and not thorough:
            # content variants: a couple of forced orders, one fast stripe, a few faults in both orders
            for _ in range(2):
                plan.append((cfg, sched_orders(n, rng.choice(allp), rng.choice(allp), cfg.mask), (), 'sched', 'orders'))
            plan.append((cfg, sched_fast(n, rng.choice(allp), rng.randrange(n), cfg.mask), (), 'sched', 'fast-stripe'))
            for x, ph in rng.sample([(x, ph) for x in range(n) for ph in PHASES], 2):
                plan.append((cfg, sched_fault(n, x, ph, cfg.mask), ((x, ph),), 'sched', 'fault-others-first'))
                plan.append((cfg, sched_fault_first(n, x, ph, cfg.mask), ((x, ph),), 'sched', 'fault-first'))
            continue
        if n <= 3 or thorough:
            k1, k2 = 24, 24
        else:
            k1, k2 = 4, 2
        p1 = perms_sample(rng, n, k1)
        for o1 in p1:
            for o2 in (perms_sample(rng, n, k2) if cfg.mask else [tuple(range(n))]):
                plan.append((cfg, sched_orders(n, o1, o2, cfg.mask), (), 'sched', 'orders'))
        for x in range(n):
            o1 = rng.choice(allp)
            plan.append((cfg, sched_fast(n, o1, x, cfg.mask), (), 'sched', 'fast-stripe'))
        fl = [(x, ph) for x in range(n) for ph in PHASES]
        if not (thorough or n == 2):
            # always the fault at p1 with all the others still held before b1, plus a sample
            fl = [(rng.randrange(n), 'p1')] + rng.sample([f for f in fl if f[1] != 'p1'], 5)
        for x, ph in fl:
            plan.append((cfg, sched_fault(n, x, ph, cfg.mask), ((x, ph),), 'sched', 'fault-others-first'))
            plan.append((cfg, sched_fault_first(n, x, ph, cfg.mask), ((x, ph),), 'sched', 'fault-first'))
    # the failure handling must not depend on the exception TYPE: the same schedules with other types, including
    # exceptions that are not `Exception`s (the hook's RuntimeError is re-typed by a wrapper the workers inherit)
    multi = [(c, n) for c, n in cfgs if 2 <= n <= 4 and not c.light]
    if multi:
        for ft in FAULT_TYPES:
            picks = [multi[0], multi[0], rng.choice(multi[1:] or multi)] if not thorough else [multi[0]] * 4 + multi[1:]
            for k, (cfg, n) in enumerate(picks):
                x, ph = rng.randrange(n), rng.choice(['p1', 'b1', 'a1', 'b2'] if cfg.mask else ['p1', 'b1', 'a1'])
                mk_s = sched_fault_first if k % 2 else sched_fault
                plan.append((cfg, mk_s(n, x, ph, cfg.mask), ((x, ph, ft),), 'sched', 'fault-typed'))
    # the most diagnostic runs first (the plan is executed in chunks and stops early once something went wrong)
    prio = {'fault-typed': 1, 'free-nohook': 0, 'free-hook': 0, 'fault-first': 1, 'fault-others-first': 1, 'fast-stripe': 1, 'orders': 3}
    plan = [p for _, p in sorted(enumerate(plan), key=lambda kp: (prio.get(kp[1][4], 2), kp[0]))]
    return plan


_BATCH = [0]


_WD = [None]


def calibrate(ctx):
    """watchdog from the wall time of one plain run on this machine right now (other builders share it)"""
    if _WD[0] is None:
        work = os.path.join(ctx.tmpdir(), 'calib')
        os.makedirs(work, exist_ok=True)
        t = []
        for k in range(2):
            r = do_run(ctx, work, f'c{k}', Config(40, 24, 8, 24, 2, 2, True), hook=False, watchdog=60)
            t.append(r['wall'])
        _WD[0] = max(WATCHDOG, 8.0 * max(t))
        ctx.note(f"calibration run {max(t):.2f}s -> watchdog {_WD[0]:.1f}s")
    return _WD[0]


def execute(ctx, plan, parallel=5):
    """run the plan (in parallel), then validate traces through the driver and judge"""
    from concurrent.futures import ThreadPoolExecutor
    wd = calibrate(ctx)
    _BATCH[0] += 1
    work = os.path.join(ctx.tmpdir(), f'batch{_BATCH[0]}')
    os.makedirs(work, exist_ok=True)
    results = [None] * len(plan)

    def one(k):
        cfg, schedule, faults, hookmode, label = plan[k]
        return do_run(ctx, work, f'run{k}', cfg, schedule=schedule, faults=faults, hook=(hookmode != 'off'), watchdog=wd)
    # in chunks; once something has gone wrong (a hang, an exception without a fault, a swallowed fault) the
    # rest of the plan is not run: the failures found so far are confirmed and reported (fail fast)
    CH = 30
    for lo in range(0, len(plan), CH):
        ks = list(range(lo, min(lo + CH, len(plan))))
        with ThreadPoolExecutor(max_workers=parallel) as ex:
            for k, r in zip(ks, ex.map(one, ks)):
                results[k] = r
        bad = 0
        for k in range(0, ks[-1] + 1):
            r = results[k]
            fr = any(t == 'F' for t, _, _, _ in r['events'])
            if r['outcome'] == 'hang' or (r['outcome'] == 'exception') != fr or r['outcome'] in ('child-died',):
                bad += 1
        if bad and ks[-1] + 1 < len(plan):
            ctx.note(f"{bad} runs went wrong among the first {ks[-1] + 1} of {len(plan)}: not running the rest of the plan")
            plan = plan[:ks[-1] + 1]
            results = results[:ks[-1] + 1]
            break
    # confirm hangs with a longer watchdog before believing them (machine load): up to 12 hung runs are
    # re-run in parallel (one per configuration first); a hung run that was not re-run is believed only if a
    # re-run of the same configuration hung again, otherwise it is dropped (counted, not judged)
    hung = [k for k, r in enumerate(results) if r['outcome'] == 'hang']
    ckey = lambda k: json.dumps(plan[k][0].d(), sort_keys=True)  # noqa: E731
    firsts, rest, seen_cfg = [], [], set()
    for k in hung:
        (rest if ckey(k) in seen_cfg else firsts).append(k)
        seen_cfg.add(ckey(k))
    chosen = (firsts + rest)[:12]

    def again(k):
        cfg, schedule, faults, hookmode, label = plan[k]
        return do_run(ctx, work, f'run{k}b', cfg, schedule=schedule, faults=faults, hook=(hookmode != 'off'),
                      watchdog=3 * wd)
    with ThreadPoolExecutor(max_workers=parallel) as ex:
        redo = dict(zip(chosen, ex.map(again, chosen)))
    confirmed_cfg = set()
    for k, r2 in redo.items():
        if r2['outcome'] == 'hang':
            confirmed_cfg.add(ckey(k))
        else:
            ctx.count('hang-not-confirmed-on-rerun')
            results[k] = r2
    for k in hung:
        if k not in redo and ckey(k) not in confirmed_cfg:
            results[k] = dict(results[k], outcome='unconfirmed-hang')
    lines, idx = [], {}
    for k, r in enumerate(results):
        cfg, schedule, faults, hookmode, label = plan[k]
        lay = r.get('layout') or {}
        regs = lay.get('regions') or []
        toks = trace_tokens(r) if hookmode != 'off' else None
        if toks is not None and 1 <= len(regs) <= 6 and lay.get('parties') is not None and lay.get('processes'):
            base = f"{len(regs)} {lay['parties']} {lay['processes']} {1 if cfg.mask else 0} " + " ".join(toks)
            idx[k] = len(lines)
            lines.append("trace 0 1 " + base)
            lines.append("trace 1 0 " + base)
    outs = ctx.driver.batch(lines) if (lines and ctx.driver_ok) else []
    ref = {}
    for k, r in enumerate(results):
        cfg, schedule, faults, hookmode, label = plan[k]
        t_out = p_out = None
        if k in idx and outs:
            t_out, p_out = outs[idx[k]], outs[idx[k] + 1]
        if r['outcome'] == 'unconfirmed-hang':
            ctx.count('outcome:unconfirmed-hang (dropped)')
            ctx.case(dict(cfg=cfg.d(), label=label, outcome=r['outcome']))
            continue
        judge(ctx, cfg, r, schedule, faults, hookmode, ref, t_out, p_out)
        n = len((r.get('layout') or {}).get('regions') or [])
        ctx.count('run:' + label)
        ctx.count('outcome:' + str(r['outcome']))
        ctx.count(f'stripes:{n}')
        nt = None
        if n >= 2 and (schedule or faults or n > cfg.cores):
            nt = ('run', json.dumps(cfg.d(), sort_keys=True), json.dumps(schedule), json.dumps(faults), hookmode)
        ctx.case(dict(cfg=cfg.d(), label=label, outcome=r['outcome'], stripes=n, grants=r['grants'][:8],
                      model=t_out), nontrivial_key=nt, sample_every=23)
    return results


# =============================================================================================
# stripe-count sensitivity: "changing the number of stripes changes the maps by at most a small
# fraction of the local noise"
# =============================================================================================

# Spec bound: max|map(nslice) - map(1 stripe)| / local noise <= SENS_C, for bkg and for rms.
# Measured on the clean tree (hook + fixes committed), quick configurations below, VERIF_SEED 0..4:
# see SENS_CLEAN (filled from the measurements; the evidence of every run also records what it measured).
SENS_C = 0.5
SENS_CLEAN = ("measured on /repo (hook + fixes committed), VERIF_SEED 0-4 x 2 images per box: nslice 2 and 4 (stripe edges on grid "
              "nodes): 0.000/0.000; nslice 3 (edges off the grid): tall 80x16 bkg<=0.116 rms<=0.155, wide 16x80 bkg<=0.356 "
              "rms<=0.069, square 32x32 bkg<=0.254 rms<=0.088; 70016x8 image (one stripe > 2^16 rows) vs 2 and 4 stripes (edges on "
              "grid nodes): 0.000/0.000 (70000 rows, 4 stripes off the grid: <=0.24/0.27)")

# (rows, cols, grid(rows, cols), box(rows, cols)) — non-square boxes in both orientations, and square; grid != box/n
SENS_CASES = [
    ('tall', 160, 48, (8, 8), (80, 16), (2, 3, 4), 'grad:0.5'),
    ('wide', 160, 48, (8, 8), (16, 80), (2, 3, 4), 'grad:0.5'),
    ('square', 160, 48, (8, 8), (32, 32), (2, 3, 4), 'grad:0.5'),
    # more than 2^16 rows in ONE stripe (size threshold: narrowed index dtypes, block-wise loops); tiny in bytes
    ('rows>65536', 70016, 8, (8, 8), (24, 8), (2, 4), 'grad:0.01'),
]


def sensitivity(ctx, cases=None, slices=(2, 3, 4), nseeds=1):
    import numpy as np
    from concurrent.futures import ThreadPoolExecutor
    wd = calibrate(ctx)
    _BATCH[0] += 1
    work = os.path.join(ctx.tmpdir(), f'sens{_BATCH[0]}')
    os.makedirs(work, exist_ok=True)
    jobs = []
    for cs in (cases or SENS_CASES):
        name, rows, cols, grid, box = cs[:5]
        cslices = cs[5] if len(cs) > 5 and slices == (2, 3, 4) else slices
        content = cs[6] if len(cs) > 6 else 'grad:0.5'
        for k in range(nseeds if rows < 10000 else 1):
            imgseed = ctx.rng.randrange(1, 10 ** 6)
            for ns in (1,) + tuple(cslices):
                cfg = Config(rows, cols, list(grid), list(box), 4, ns, True, 'filter_image', content=content)
                cfg.imgseed = imgseed
                jobs.append((name, imgseed, ns, cfg))

    def one(j):
        name, imgseed, ns, cfg = jobs[j]
        return do_run(ctx, work, f's{j}', cfg, hook=False, watchdog=max(wd, 20) * (4 if cfg.rows > 10000 else 1))
    with ThreadPoolExecutor(max_workers=5) as ex:
        res = list(ex.map(one, range(len(jobs))))
    maps = {}
    for (name, imgseed, ns, cfg), r in zip(jobs, res):
        case = dict(kind='sensitivity', cfg=cfg.d(), imgseed=imgseed, orientation=name)
        if r['outcome'] != 'done':
            ctx.fail('spec', case, f"BANE ended with {r['outcome']} on the gradient image ({name} box): "
                     f"{str((r.get('result') or {}).get('emsg'))[-300:]}", dict(what=str(r['outcome']), sensitivity=True))
            continue
        maps[(name, imgseed, ns)] = (np.load(os.path.join(r['out'], 'bkg.npy')).astype(np.float64),
                                     np.load(os.path.join(r['out'], 'rms.npy')).astype(np.float64), cfg,
                                     len((r.get('layout') or {}).get('regions') or []))
    measured = []
    for (name, imgseed, ns), (b, rm, cfg, nreal) in sorted(maps.items()):
        if ns == 1 or (name, imgseed, 1) not in maps:
            continue
        b1, r1, cfg1, _ = maps[(name, imgseed, 1)]
        with np.errstate(invalid='ignore', divide='ignore'):
            db = float(np.nanmax(np.abs(b - b1) / r1))
            dr = float(np.nanmax(np.abs(rm - r1) / r1))
        where = int(np.nanargmax(np.nanmax(np.abs(b - b1) / r1, axis=1)))
        measured.append(dict(box=name, nslice=ns, stripes=nreal, dbkg=round(db, 4), drms=round(dr, 4)))
        case = dict(kind='sensitivity', cfg=cfg.d(), imgseed=imgseed, orientation=name, against_nslice=1)
        ctx.count('sensitivity:' + name)
        ctx.case(dict(case, dbkg=round(db, 4), drms=round(dr, 4)), nontrivial_key=('sens', name, imgseed, ns))
        if not (db <= SENS_C and dr <= SENS_C) or not np.isfinite(db) or not np.isfinite(dr):
            ctx.fail('spec', case,
                     f"{nreal} stripes vs 1 stripe on a {cfg.rows}x{cfg.cols} image with a {cfg.content.split(':')[1]} sigma/row gradient, grid {cfg.step}, "
                     f"box {cfg.box} ({name}): max|dbkg|/noise = {db:.3f}, max|drms|/noise = {dr:.3f} (largest near row {where}); "
                     f"the property allows a small fraction of the noise (bound {SENS_C}; clean tree: {SENS_CLEAN})",
                     dict(what='stripe-count-sensitivity', orientation=name))
    ctx.extra['stripe_count_sensitivity'] = dict(bound_c=SENS_C, clean_tree_reference=SENS_CLEAN, measured=measured,
                                                 max_dbkg=max([m['dbkg'] for m in measured] or [0]),
                                                 max_drms=max([m['drms'] for m in measured] or [0]))
    return measured


# (rows, cols, step, box, cores, nslice, mask) and the number of stripes the layout realises
QUICK_CFGS = [
    (Config(40, 24, 8, 24, 2, 2, True), 2),
    (Config(60, 24, 8, 24, 3, 3, True), 3),
    (Config(100, 24, 16, 32, 3, 3, True), 4),     # ledger 9: realised 4 > requested 3 = cores
    (Config(64, 24, 8, 24, 2, 4, True), 4),       # ledger 9: cores=2, stripes=4
    (Config(48, 24, 8, 24, 4, 4, False), 4),
    (Config(108, 24, 49, 98, 2, 2, True), 3),     # float width 53 (exact 54): realised 3 > 2
    (Config(30, 24, 8, 24, 1, 5, True), 1),       # cores == 1 forces one stripe
    (Config(56, 24, 8, 24, 2, 7, True, 'filter_image'), 7),
    # ---- image content (stripes of 20 rows, half-box 12: a blank stripe *with its halo*) ----
    (Config(60, 24, 8, 24, 3, 3, True, content='blank:0:32', light=True), 3),     # first stripe + halo blank
    (Config(60, 24, 8, 24, 3, 3, True, content='blank:8:52', light=True), 3),     # middle stripe + halo blank
    (Config(60, 24, 8, 24, 3, 3, False, content='blank:28:60', light=True), 3),   # last stripe blank, mask off
    (Config(64, 24, 8, 24, 4, 4, True, content='blank:0:44', light=True), 4),     # two blank stripes of four
    (Config(40, 24, 8, 24, 2, 2, True, content='allnan', light=True), 2),
    (Config(40, 24, 8, 24, 2, 2, True, content='const', light=True), 2),
    (Config(40, 24, 8, 24, 2, 2, True, content='finite', light=True), 2),
    (Config(40, 24, 8, 24, 2, 2, True, content='nanblock', light=True), 2),
]

LAYOUT_CORPUS = [(100, 16, 3, 3), (100, 16, 2, 4), (108, 49, 2, 2), (7, 1, 4, 4), (1, 16, 4, 4), (5, 16, 8, None),
                 (3000, 7, 2, 39), (122, 7, 2, 2)]


def layout_cases(ctx, wide):
    rng = ctx.rng
    cases = list(LAYOUT_CORPUS)
    cases += [(rows, step, cores, ns) for rows in range(1, 41) for step in (1, 3, 16) for cores, ns in ((2, 2), (3, 5), (4, None), (1, 6))
              if (rows + step + cores) % 2 == ctx.seed % 2 or rows < 8]
    for _ in range(150 if not wide else 3000):
        cores = rng.randint(1, 12)
        cases.append((rng.randint(1, 5000), rng.choice([1, 2, 3, 5, 7, 8, 16, 20, 32, 49, 64]), cores,
                      rng.choice([None, rng.randint(1, 40), cores])))
    return cases


def run(ctx):
    common.use_repo()
    layout_sweep(ctx, layout_cases(ctx, wide=not ctx.quick))
    exit_paths(ctx)
    sensitivity(ctx, nseeds=1 if ctx.quick else 4)
    histories(ctx)
    interrupt_scenario(ctx)
    plan = plan_runs(ctx, QUICK_CFGS, thorough=not ctx.quick)
    execute(ctx, plan)


def search(ctx):
    """free-running sweep of (rows, step, cores, nslice): implementation vs Spec only"""
    common.use_repo()
    if any(f['kind'] == 'spec' for f in ctx.failures):
        return
    rng = ctx.rng
    plan = []
    for _ in range(10 if ctx.quick else 40):
        cores = rng.randint(1, 4)
        ns = rng.choice([None, rng.randint(1, 6)])
        step = rng.choice([4, 8, 16])
        rows = rng.randint(20, 120)
        lo = rng.randint(0, rows - 1)
        cfg = Config(rows, 24, step, 3 * step, cores, ns, rng.random() < 0.8,
                     content=rng.choice(['noise', 'noise', 'finite', 'allnan', 'const', f'blank:{lo}:{rng.randint(lo + 1, rows)}',
                                         f'blank:0:{rng.randint(1, rows)}']))
        plan.append((cfg, None, (), 'log', 'search'))
    saved = ctx.driver_ok
    execute(ctx, plan)
    ctx.driver_ok = saved


def replay(ctx, rec):
    common.use_repo()
    c = rec['case']
    if c.get('kind') == 'layout':
        layout_sweep(ctx, [(c['rows'], c['step'], c['cores'], c['nslice'])])
        return
    if c.get('kind') == 'exitpath':
        exit_paths(ctx)
        return
    if c.get('kind') == 'history':
        histories(ctx)
        return
    if c.get('kind') == 'interrupt':
        interrupt_scenario(ctx)
        return
    if c.get('kind') == 'sensitivity':
        g = c['cfg']
        ctx.rng.seed(c.get('imgseed', 0))
        sensitivity(ctx, cases=[(c.get('orientation', 'replay'), g['rows'], g['cols'], tuple(g['step']), tuple(g['box']),
                                 (g['nslice'],) if g['nslice'] != 1 else (2, 4), g.get('content', 'grad:0.5'))],
                    slices=(g['nslice'],) if g['nslice'] != 1 else (2, 4))
        return
    cfg = Config.of(c['cfg'])
    schedule = [tuple(x) for x in c.get('schedule') or []] or None
    faults = tuple(tuple(x) for x in c.get('faults') or [])
    hookmode = c.get('hook', 'log')
    execute(ctx, [(cfg, schedule, faults, hookmode, 'replay')], parallel=1)


# =============================================================================================
# histories: several filter_image calls in ONE process on one reused file name
# =============================================================================================

def child_history(cfg_path):
    cfg = json.load(open(cfg_path))
    sys.path.insert(0, cfg['repo'])
    import uuid
    import logging
    import numpy as np
    logging.disable(logging.CRITICAL)
    out = cfg['out']
    ids = []
    orig = uuid.uuid4

    def rec():
        u = orig()
        ids.append(str(u))
        with open(os.path.join(out, 'ids'), 'a') as f:
            f.write(str(u) + '\n')
        return u
    uuid.uuid4 = rec
    from AegeanTools import BANE
    from astropy.io import fits
    reuse = os.path.join(out, 'reused_name.fits')
    results = []

    def call(path, st):
        r = dict(outcome=None)
        n0 = len(ids)
        try:
            bkg, rms = BANE.filter_image(path, out_base=None, step_size=tuple(st['step']), box_size=tuple(st['box']),
                                         cores=st['cores'], nslice=st['nslice'], mask=st['mask'])
            bkg, rms = np.asarray(bkg), np.asarray(rms)
            r.update(outcome='done', shape=list(bkg.shape),
                     hash=hashlib.sha256(bkg.tobytes() + b'|' + rms.tobytes()).hexdigest())
            img = fits.getdata(path).astype(np.float64)
            if 'BSCALE' in fits.getheader(path):
                pass
            if list(img.shape) == list(bkg.shape):
                unwritten = (rms == 0) & (bkg == 0)
                r['unwritten'] = int(unwritten.sum())
                if st['mask']:
                    r['mask_ok'] = bool(np.array_equal(~np.isfinite(bkg), ~np.isfinite(img)) and
                                        np.array_equal(~np.isfinite(rms), ~np.isfinite(img)))
        except BaseException as e:  # noqa
            r.update(outcome='exception', etype=type(e).__name__, emsg=str(e)[-600:])
        mine = ids[n0:]
        try:
            r['leaked'] = sorted(n for n in os.listdir('/dev/shm') if any(i in n for i in mine))
        except OSError:
            r['leaked'] = []
        return r
    for k, st in enumerate(cfg['steps']):
        if not st.get('unchanged'):
            tmp = os.path.join(out, f'tmp{k}.fits')
            make_fits(tmp, st['rows'], st['cols'], seed=st['seed'], content=st['content'])
            if st.get('bscale'):
                with fits.open(tmp, mode='update') as h:
                    h[0].header['BSCALE'] = st['bscale']
            os.replace(tmp, reuse)
        fresh = os.path.join(out, f'never_used_{k}.fits')
        import shutil
        shutil.copyfile(reuse, fresh)
        a = call(reuse, st)
        b = call(fresh, st)
        results.append(dict(step=k, reused=a, fresh=b, image_shape=list(fits.getdata(fresh).shape)))
        with open(os.path.join(out, 'result.json.tmp'), 'w') as f:
            json.dump(dict(steps=results, complete=(k + 1 == len(cfg['steps']))), f)
        os.replace(os.path.join(out, 'result.json.tmp'), os.path.join(out, 'result.part.json'))
    os.replace(os.path.join(out, 'result.part.json'), os.path.join(out, 'result.json'))
    sys.stdout.flush()
    os._exit(0)


def run_history(workdir, tag, steps, limit):
    out = os.path.join(workdir, tag)
    os.makedirs(out, exist_ok=True)
    cfgp = os.path.join(out, 'cfg.json')
    json.dump(dict(repo=common.repo_path(), out=out, steps=steps), open(cfgp, 'w'))
    env = dict(os.environ)
    env.pop('AEGEAN_VERIF', None)
    env.pop('AEGEAN_VERIF_DIR', None)
    env['PYTHONPATH'] = common.repo_path()
    env['OMP_NUM_THREADS'] = env['OPENBLAS_NUM_THREADS'] = env['MKL_NUM_THREADS'] = '1'
    p = subprocess.Popen([PY, HERE, '--child-history', cfgp], env=env, start_new_session=True, cwd=out,
                         stdout=open(os.path.join(out, 'stdout'), 'w'), stderr=open(os.path.join(out, 'stderr'), 'w'))
    t0 = time.time()
    hang = False
    while p.poll() is None and not os.path.exists(os.path.join(out, 'result.json')):
        if time.time() - t0 > limit:
            hang = True
            break
        time.sleep(0.01)
    try:
        os.killpg(p.pid, signal.SIGKILL)
    except (ProcessLookupError, PermissionError):
        pass
    try:
        p.wait(timeout=10)
    except Exception:
        pass
    res = None
    for name in ('result.json', 'result.part.json'):
        if os.path.exists(os.path.join(out, name)):
            try:
                res = json.load(open(os.path.join(out, name)))
                break
            except Exception:
                pass
    try:
        for i in [l.strip() for l in open(os.path.join(out, 'ids')) if l.strip()]:
            for pre in ('ibkg_', 'irms_'):
                try:
                    os.unlink('/dev/shm/' + pre + i)
                except OSError:
                    pass
    except OSError:
        pass
    stderr = ''
    try:
        stderr = open(os.path.join(out, 'stderr')).read()[-500:]
    except OSError:
        pass
    return dict(hang=hang, result=res, stderr=stderr, wall=round(time.time() - t0, 2))


def history_steps(rng):
    """two histories: (a) one file name rewritten with images of different height / width / content, different grids,
    stripe counts and masks, plus an unchanged repeat and a BSCALE rewrite; (b) one unchanged file, repeated calls
    with different stripe counts (module globals memory_id / barrier must not leak between calls)"""
    def st(rows, cols, step, box, cores, nslice, mask=True, content='noise', **kw):
        return dict(rows=rows, cols=cols, step=[step, step], box=[box, box], cores=cores, nslice=nslice, mask=mask,
                    content=content, seed=rows * 1000 + cols, **kw)
    a = [st(48, 24, 8, 24, 2, 2), st(80, 24, 8, 24, 3, 3), st(32, 30, 4, 12, 2, 2, content='finite'),
         st(32, 30, 4, 12, 2, 2, content='finite', unchanged=True), st(32, 30, 4, 12, 2, 2, content='finite', bscale=2.0),
         st(64, 24, 8, 24, 2, 4, mask=False, content='blank:0:20')]
    b = [st(56, 24, 8, 24, 2, 2), st(56, 24, 8, 24, 4, 4, unchanged=True), st(56, 24, 8, 24, 1, 3, unchanged=True),
         st(56, 24, 8, 24, 3, 3, mask=False, unchanged=True), st(56, 24, 8, 24, 2, 2, unchanged=True)]
    return [('rewritten-name', a), ('unchanged-file', b)]


def histories(ctx):
    from concurrent.futures import ThreadPoolExecutor
    wd = calibrate(ctx)
    _BATCH[0] += 1
    work = os.path.join(ctx.tmpdir(), f'hist{_BATCH[0]}')
    os.makedirs(work, exist_ok=True)
    hs = history_steps(ctx.rng)
    with ThreadPoolExecutor(max_workers=2) as ex:
        res = list(ex.map(lambda kh: run_history(work, f'h{kh[0]}', kh[1][1], limit=max(60, 6 * wd * len(kh[1][1]) / 4)),
                          enumerate(hs)))
    for (name, steps), r in zip(hs, res):
        done_steps = (r['result'] or {}).get('steps', [])
        case0 = dict(kind='history', history=name, steps=steps)
        if r['hang'] or len(done_steps) < len(steps):
            k = len(done_steps)
            ctx.fail('spec', dict(case0, failed_step=k),
                     f"history '{name}': call {k} ({steps[k] if k < len(steps) else ''}) in a process that had already made {k} "
                     f"filter_image calls {'did not return' if r['hang'] else 'killed the process'}: {r['stderr'][-300:]}",
                     dict(what='history-hang' if r['hang'] else 'history-died', site='BANE.filter_image', history=name))
        prev_hash = None
        for k, d in enumerate(done_steps):
            st = steps[k]
            case = dict(case0, failed_step=k)
            a, b = d['reused'], d['fresh']
            ctx.count('history-call')
            ctx.case(dict(kind='history', history=name, step=k, reused=a.get('outcome'), shape=a.get('shape')),
                     nontrivial_key=('history', name, k) if k > 0 else None)
            why = None
            if a.get('outcome') != 'done':
                why = f"raised {a.get('etype')}: {a.get('emsg', '')[-200:]}" if b.get('outcome') == 'done' else None
                if why is None and b.get('outcome') != 'done':
                    ctx.fail('spec', case, f"history '{name}' call {k}: filter_image fails on this input even under a never-used "
                             f"name: {b.get('emsg', '')[-200:]}", dict(what='raises', site='BANE.filter_image'))
                    continue
            elif a.get('shape') != d['image_shape']:
                why = f"maps have shape {a.get('shape')} but the file now holds an image of shape {d['image_shape']}"
            elif a.get('unwritten'):
                why = f"{a['unwritten']} pixels never written"
            elif st['mask'] and st['content'] in ('noise', 'finite', 'const') and a.get('mask_ok') is False:
                why = "mask of the maps differs from the non-finite pixels of the current image"
            elif b.get('outcome') == 'done' and a.get('hash') != b.get('hash'):
                why = "maps differ from the maps of the same content under a never-used file name (same process)"
            elif st.get('unchanged') and name == 'rewritten-name' and prev_hash and a.get('hash') != prev_hash:
                why = "maps differ from the previous call on the unchanged file with the same parameters"
            if why:
                ctx.fail('spec', case, f"history '{name}', call {k} on the reused file name after {k} earlier calls in the same process "
                         f"({st['rows']}x{st['cols']}, grid {st['step']}, nslice {st['nslice']}, cores {st['cores']}): {why}",
                         dict(what='history-dependence', site='BANE.filter_image', history=name))
            if a.get('leaked') or b.get('leaked'):
                ctx.fail('spec', case, f"history '{name}' call {k}: shared memory left behind: {a.get('leaked')} {b.get('leaked')}",
                         dict(what='shm-leak', site='BANE.filter_mc_sharemem', history=name))
            prev_hash = a.get('hash')
    # the same inputs in fresh processes (one BANE call per process): the history child must agree bit for bit
    fresh_jobs = []
    for (name, steps), r in zip(hs, res):
        for k, d in enumerate((r['result'] or {}).get('steps', [])):
            st = steps[k]
            if st.get('bscale') or d['reused'].get('outcome') != 'done':
                continue
            if name == 'unchanged-file' and k not in (0, 2):
                continue
            cfg = Config(st['rows'], st['cols'], st['step'], st['box'], st['cores'], st['nslice'], st['mask'], 'filter_image',
                         content=st['content'])
            fresh_jobs.append((name, k, cfg, d['reused'].get('hash')))
    with ThreadPoolExecutor(max_workers=5) as ex:
        fr = list(ex.map(lambda j: do_run(ctx, work, f'fresh{j[0]}', j[1][2], hook=False, watchdog=wd), enumerate(fresh_jobs)))
    for (name, k, cfg, h), r in zip(fresh_jobs, fr):
        ctx.count('history-fresh-process')
        hh = (r.get('result') or {}).get('hash')
        if r['outcome'] == 'done' and hh != h:
            ctx.fail('spec', dict(kind='history', history=name, failed_step=k, steps=dict(hs)[name]),
                     f"history '{name}' call {k}: the maps returned in the long-lived process differ from those of a fresh process "
                     f"on the same image and parameters", dict(what='history-dependence', site='BANE.filter_image', history=name))


# =============================================================================================
# interrupt: Ctrl-C to the whole process group while the stripes are running
# =============================================================================================

def interrupt_scenario(ctx):
    """BANE in its own session; once every stripe is forked, has finished pass 1 and is held before barrier 1,
    SIGINT goes to the process group (what a terminal does on Ctrl-C).  The call must end (KeyboardInterrupt /
    sys.exit) within the watchdog and leave no shared-memory segment.  [The property's 'never blocks … leaves no
    shared-memory segment behind' is read as covering this exit path of the try/finally (`shm_released`).]"""
    wd = calibrate(ctx)
    _BATCH[0] += 1
    work = os.path.join(ctx.tmpdir(), f'intr{_BATCH[0]}')
    os.makedirs(work, exist_ok=True)
    for cfg, n in ((Config(40, 24, 8, 24, 2, 2, True), 2), (Config(60, 24, 8, 24, 3, 3, False), 3)):
        fpath = os.path.join(work, f'img_{cfg.rows}.fits')
        make_fits(fpath, cfg.rows, cfg.cols, seed=cfg.rows)
        sched = [(i, 'b1', 'gap') for i in range(n)]
        r = run_bane(work, f'i{cfg.rows}', fpath, (cfg.rows, cfg.cols), (cfg.step, cfg.step), (cfg.box, cfg.box), cfg.cores,
                     cfg.nslice, cfg.mask, schedule=sched, hook=True, watchdog=wd, interrupt=True)
        case = dict(kind='interrupt', cfg=cfg.d())
        sent = ('SIGINT', 'b1') in [tuple(g) for g in r['grants']]
        ctx.count('interrupt')
        ctx.case(dict(case, outcome=r['outcome'], sigint_sent=sent), nontrivial_key=('interrupt', cfg.rows))
        if not sent:
            ctx.note(f"interrupt scenario: stripes never all reached b1 (outcome {r['outcome']}); not judged")
            continue
        if r['outcome'] == 'hang':
            r2 = run_bane(work, f'i{cfg.rows}b', fpath, (cfg.rows, cfg.cols), (cfg.step, cfg.step), (cfg.box, cfg.box),
                          cfg.cores, cfg.nslice, cfg.mask, schedule=sched, hook=True, watchdog=3 * wd, interrupt=True)
            if r2['outcome'] == 'hang':
                ctx.fail('spec', case, f"SIGINT to the process group while {n} stripes were held before barrier 1: BANE did not end "
                         f"within {wd:.0f}s (nor {3 * wd:.0f}s on a re-run); segments left in /dev/shm: {r2['leaked_after']}",
                         dict(what='interrupt-hang', site='BANE.filter_mc_sharemem'))
                continue
            r = r2
        if r['outcome'] not in ('exit', 'interrupt'):
            ctx.fail('spec', case, f"after SIGINT the call ended with '{r['outcome']}' instead of KeyboardInterrupt / sys.exit: "
                     f"{str((r.get('result') or {}).get('emsg'))[-200:]} {r['stderr'][-200:]}",
                     dict(what='interrupt-outcome', site='BANE.filter_mc_sharemem'))
        elif r.get('leaked_in_child'):
            ctx.fail('spec', case, f"after SIGINT the call ended but left {r['leaked_in_child']} in /dev/shm",
                     dict(what='shm-leak', site='BANE.filter_mc_sharemem', interrupt=True))


if __name__ == '__main__' and len(sys.argv) >= 3 and sys.argv[1] == '--child':
    child_main(sys.argv[2])
if __name__ == '__main__' and len(sys.argv) >= 3 and sys.argv[1] == '--child-history':
    child_history(sys.argv[2])
