"""
C02 — correspondence + search for `source_finder.find_islands` (and, thorough tier, the islands
behind the components of `find_sources_in_image`).

run(ctx):    grids 1x1 .. 14x14 built from a *level map* (off / flood-tie / between / seed-tie / above
             seed) realised on a dyadic lattice (so `snr >= flood` and `snr > seed` ties are exact in
             IEEE arithmetic), with NaN sprinkling, zero-valued island pixels (bkg != 0), negative
             excursions, diagonal contacts, nested rings, an island inside another island's box,
             elongated / L-shaped islands.  The real `find_islands` is run; its (box, pixel set, mask
             shape) list is compared with the Lean model's `findIslands` (driver op `find`).  On every
             case the *verified* checker validates the driver's own labelling and the label array of
             `scipy.ndimage.label`, so the model's output is, by `islands_eq_spec` & co., the Spec
             itself: a difference is a violation of the property by the implementation on that input.
             A second, independent flood-fill oracle in Python cross-checks the Lean answer.
search(ctx): the same generators, implementation vs the Python oracle of the Spec only (used when
             the Lean side no longer builds), with shrinking.
"""
import hashlib
import logging
import os
import warnings
from concurrent.futures import ThreadPoolExecutor

import numpy as np

import common

LEVEL = 'proof'
LEANCHECKER = True
RULE = ("a case is one grid (H, W, image, background, rms, flood, seed) run through the real find_islands; "
        "non-trivial = the flood mask has >= 2 8-connected components of which >= 1 fails the seed rule "
        "(no own pixel above the seed threshold); distinct by the hash of the grid")
ASSUMPTIONS = [
    "IEEE double comparisons obey: seed <= seed' and seed' < x imply seed < x (proved for the reals; Float is opaque in Lean)",
    "numpy computes abs(im-bkg)/rms exactly on the dyadic lattice used by the generator (no rounding), so the "
    "driver's Float evaluation and numpy's agree bit for bit",
    "the hand model of find_islands (loop over labels, find_objects box, seed/region test, mask, calc_bounding_box) is "
    "tied to the code by this sampled correspondence",
]
TRUSTED = [
    "pieces of find_islands regenerated from source on every run (translator/targets/C02.py, C11.py): threshold comparisons, "
    "isfinite conjunct, seed scope, label arithmetic, region probe arithmetic + origin + scope; assembled by the fixed glue "
    "findIslandsGen / findRestrictedSky, proved equal to the hand model, and evaluated by the driver on every case (gen flag)",
    "scipy.ndimage.label / find_objects: NOT trusted blind - the label array is exported per case and accepted only if "
    "the Lean-verified checker (checkLabelling_sound) certifies it against a BFS forest",
    "the driver's own BFS labeller is unverified; its output is certified per case by the same checker",
    "Float -> Option Float conversion in the driver (non-finite = blank)",
]
PARTIAL = []

NULLLOG = logging.getLogger('verif-null')
NULLLOG.addHandler(logging.NullHandler())
NULLLOG.propagate = False

NB8 = [(-1, -1), (-1, 0), (-1, 1), (0, -1), (0, 1), (1, -1), (1, 0), (1, 1)]

# ------------------------------------------------------------------------------------------------
# case representation (JSON-able)


def mk_case(kind, im, bkg, rms, flood, seed, inside=None, extra=None):
    H, W = im.shape
    c = dict(kind=kind, H=int(H), W=int(W),
             im=[common.f2h(x) for x in im.ravel()],
             bkg=[common.f2h(x) for x in bkg.ravel()],
             rms=[common.f2h(x) for x in rms.ravel()],
             flood=common.f2h(flood), seed=common.f2h(seed),
             inside=None if inside is None else ''.join('1' if x else '0' for x in np.asarray(inside).ravel()))
    if extra:
        c.update(extra)
    return c


def build_large(g):
    """deterministic large grids described by a few parameters (the case record stays small)"""
    if g['name'] == 'strip':
        # a thin strip with ONE long ridge (own extent >= 2^16 + 1 along the long axis) wandering between two rows,
        # one seed pixel on it, and a few small islands (seeded and not) elsewhere
        H, W = g['short'], g['long']
        snr = np.zeros((H, W))
        cols = np.arange(g['c0'], g['c1'] + 1)
        rows = 2 + ((cols // g['period']) % 2)
        snr[rows, cols] = 4.5
        snr[rows[g['seed_at']], cols[g['seed_at']]] = 9.0
        for k, cc in enumerate(g['extras']):
            snr[0, cc:cc + 3] = 4.5
            snr[0, cc + 1] = 7.0 if k % 2 == 0 else 4.5
            snr[H - 1, cc] = 6.0 if k % 2 else 4.0
        bkg = np.full((H, W), 0.5)
        rms = np.full((H, W), 2.0)
        im = bkg + np.where((np.arange(W) % 3 == 0)[None, :], -1.0, 1.0) * snr * rms
        if g.get('T'):
            im, bkg, rms = im.T.copy(), bkg.T.copy(), rms.T.copy()
        return im, bkg, rms
    if g['name'] == 'lattice':
        # exactly N isolated single-pixel groups at even coordinates, in raster order; every third one unseeded,
        # the last one seeded
        N, per_row = g['N'], g['per_row']
        nr = (N + per_row - 1) // per_row
        H, W = 2 * nr + 1, 2 * per_row + 1
        snr = np.zeros((H, W))
        k = np.arange(N)
        vals = np.where(k % 3 == 1, 4.5, 6.0)
        vals[-1] = 8.0
        snr[2 * (k // per_row) + 1, 2 * (k % per_row)] = vals
        return snr.copy(), np.zeros((H, W)), np.ones((H, W))
    raise ValueError(g['name'])


def large_case(g, flood=4.0, seed=5.0, variant='f64-C'):
    im, _, _ = build_large(g)
    return dict(kind='large-' + g['name'], gen=g, H=int(im.shape[0]), W=int(im.shape[1]), flood=common.f2h(flood),
                seed=common.f2h(seed), inside=None, variant=variant)


def arrays(c):
    if 'gen' in c:
        im, bkg, rms = build_large(c['gen'])
        return im, bkg, rms, common.h2f(c['flood']), common.h2f(c['seed']), None
    H, W = c['H'], c['W']
    im = np.array([common.h2f(x) for x in c['im']], dtype=np.float64).reshape(H, W)
    bkg = np.array([common.h2f(x) for x in c['bkg']], dtype=np.float64).reshape(H, W)
    rms = np.array([common.h2f(x) for x in c['rms']], dtype=np.float64).reshape(H, W)
    inside = None
    if c.get('inside') is not None:
        inside = np.array([ch == '1' for ch in c['inside']], dtype=bool).reshape(H, W)
    return im, bkg, rms, common.h2f(c['flood']), common.h2f(c['seed']), inside


def case_key(c):
    h = hashlib.sha1()
    if 'gen' in c:
        import json
        h.update(json.dumps(c['gen'], sort_keys=True).encode())
        return h.hexdigest()[:16]
    for k in ('im', 'bkg', 'rms'):
        h.update(''.join(c[k]).encode())
    h.update((c['flood'] + c['seed'] + str(c['H']) + 'x' + str(c['W']) + str(c.get('inside'))).encode())
    return h.hexdigest()[:16]


def pretty(c):
    """small human-readable rendering for replay files"""
    if 'gen' in c:
        return dict(generated_by='harness/corr_C02.py:build_large', parameters=c['gen'])
    im, bkg, rms, flood, seed, inside = arrays(c)
    with np.errstate(all='ignore'):
        snr = np.abs(im - bkg) / rms
    return dict(flood=flood, seed=seed, snr=[[None if not np.isfinite(v) else float(v) for v in row] for row in snr],
                image=[[None if not np.isfinite(v) else float(v) for v in row] for row in im])


# ------------------------------------------------------------------------------------------------
# the Spec as an independent Python oracle (8-connected flood fill)


def oracle(im, bkg, rms, flood, seed, inside=None):
    """list of (box, pixels) of the seeded flood components (filtered by `inside` if given), and the
    list of all flood components with their seededness"""
    H, W = im.shape
    with np.errstate(all='ignore'):
        snr = np.abs(im - bkg) / rms
        A = np.isfinite(snr) & (snr >= flood)
        S = np.isfinite(snr) & (snr > seed)
    seen = np.zeros((H, W), dtype=bool)
    comps = []
    for r0 in range(H):
        for c0 in range(W):
            if A[r0, c0] and not seen[r0, c0]:
                stack, pix = [(r0, c0)], []
                seen[r0, c0] = True
                while stack:
                    r, c = stack.pop()
                    pix.append((r, c))
                    for dr, dc in NB8:
                        rr, cc = r + dr, c + dc
                        if 0 <= rr < H and 0 <= cc < W and A[rr, cc] and not seen[rr, cc]:
                            seen[rr, cc] = True
                            stack.append((rr, cc))
                pix.sort()
                comps.append(dict(pix=tuple(pix), seeded=any(S[p] for p in pix),
                                  touched=(inside is None or any(inside[p] for p in pix))))
    isl = []
    for k in comps:
        if k['seeded'] and k['touched']:
            rs = [p[0] for p in k['pix']]
            cs = [p[1] for p in k['pix']]
            isl.append(((min(rs), max(rs) + 1, min(cs), max(cs) + 1), k['pix']))
    return sorted(isl), comps


# ------------------------------------------------------------------------------------------------
# the implementation


def canon_impl(islands):
    """(box, pixels, mask_shape_ok) per reported island; pixels are where mask is False, relative to
    the reported bounding box (that is how find_sources_in_image applies the mask)"""
    out = []
    for isl in islands:
        bb = np.asarray(isl.bounding_box)
        box = (int(bb[0][0]), int(bb[0][1]), int(bb[1][0]), int(bb[1][1]))
        m = np.asarray(isl.mask)
        shape_ok = (m.shape == (box[1] - box[0], box[3] - box[2]))
        rr, cc = np.where(~m.astype(bool))
        pix = tuple(sorted((int(r) + box[0], int(c) + box[2]) for r, c in zip(rr, cc)))
        out.append(dict(box=box, pix=pix, mshape=tuple(int(x) for x in m.shape), shape_ok=bool(shape_ok)))
    out.sort(key=lambda d: (d['box'], d['pix']))
    return out


class InputMutated(Exception):
    """find_islands changed one of the arrays it was given"""

    def __init__(self, which, canon):
        Exception.__init__(self, "find_islands modified its input array(s) " + ",".join(which))
        self.which = which
        self.canon = canon


VARIANTS = ['f64-C', 'f64-C', 'f64-F', 'f32-C', 'f64-bkg32', 'f64-C-view', 'be-f64', 'be-f32']


def prepare_inputs(im, bkg, rms, variant='f64-C'):
    """the arrays handed to find_islands: dtype / byte-order / memory-order variants of the same values
    (the generator guarantees they are exactly representable in the narrower type)"""
    f8, f4 = np.float64, np.float32
    if variant.startswith('mix:'):      # 'mix:<im>,<bkg>,<rms>[:F]' with dtype codes f4 f8 >f4 >f8 - three independent dimensions
        parts = variant.split(':')
        dts = parts[1].split(',')
        order = 'F' if len(parts) > 2 and parts[2] == 'F' else 'C'
        return tuple(np.array(a, dtype=np.dtype(dt), order=order) for a, dt in zip((im, bkg, rms), dts))
    if variant == 'quantity':       # astropy Quantity maps in different, convertible units (mJy/beam image and
        import astropy.units as u   # background, Jy/beam noise): the values of im and bkg are multiplied by 1000
        return (np.array(im, dtype=f8) * 1000.0 * (u.mJy / u.beam), np.array(bkg, dtype=f8) * 1000.0 * (u.mJy / u.beam),
                np.array(rms, dtype=f8) * (u.Jy / u.beam))
    if variant == 'f32-C':
        return tuple(np.ascontiguousarray(a, dtype=f4) for a in (im, bkg, rms))
    if variant == 'f64-F':
        return tuple(np.asfortranarray(a, dtype=f8) for a in (im, bkg, rms))
    if variant == 'f64-bkg32':
        return (np.array(im, dtype=f8), np.array(bkg, dtype=f4), np.array(rms, dtype=f8))
    if variant == 'f32-im':           # float32 image (as most radio images are) with float64 maps
        return (np.array(im, dtype=f4), np.array(bkg, dtype=f8), np.array(rms, dtype=f8))
    if variant == 'f32-im-F':
        return (np.asfortranarray(im, dtype=f4), np.asfortranarray(bkg, dtype=f8), np.asfortranarray(rms, dtype=f8))
    if variant == 'f32-maps':         # float64 image with float32 maps
        return (np.array(im, dtype=f8), np.array(bkg, dtype=f4), np.array(rms, dtype=f4))
    if variant == 'be-f32-im':        # big-endian, as read from a FITS file
        return (np.array(im, dtype='>f4'), np.array(bkg, dtype='>f8'), np.array(rms, dtype='>f8'))
    if variant == 'be-f64':
        return tuple(np.array(a, dtype='>f8') for a in (im, bkg, rms))
    if variant == 'be-f32':
        return tuple(np.array(a, dtype='>f4') for a in (im, bkg, rms))
    if variant == 'f64-C-view':     # non-owning views into larger float64 buffers
        out = []
        for a in (im, bkg, rms):
            big = np.zeros((a.shape[0] + 2, a.shape[1] + 3), dtype=f8)
            big[1:-1, 2:-1] = a
            out.append(big[1:-1, 2:-1])
        return tuple(out)
    return tuple(np.array(a, dtype=f8, order='C') for a in (im, bkg, rms))


def call_find_islands(arrs, flood, seed, region=None, wcs=None, log=NULLLOG):
    """call the real find_islands on exactly these array objects; afterwards they must be bit-identical"""
    from AegeanTools.source_finder import find_islands
    before = [np.asarray(a).tobytes() for a in arrs]
    with np.errstate(all='ignore'), warnings.catch_warnings():
        warnings.simplefilter('ignore')
        isl = find_islands(arrs[0], arrs[1], arrs[2], seed_clip=seed, flood_clip=flood,
                           region=region, wcs=wcs, log=log)
    canon = canon_impl(isl)
    which = [n for n, a, b in zip(('im', 'bkg', 'rms'), arrs, before) if np.asarray(a).tobytes() != b]
    if which:
        raise InputMutated(which, canon)
    return canon


def run_impl(im, bkg, rms, flood, seed, region=None, wcs=None, variant='f64-C', log=NULLLOG):
    return call_find_islands(prepare_inputs(im, bkg, rms, variant), flood, seed, region=region, wcs=wcs, log=log)


def log_of(c):
    """the documented `log` argument: a Logger, or None ("For handling logs (or not)") for one case in 40"""
    return None if int(case_key(c), 16) % 40 == 7 or c.get('log_none') else NULLLOG


def variant_of(c):
    return c.get('variant') or VARIANTS[int(case_key(c), 16) % len(VARIANTS)]


def report_mutation(ctx, c, e, extra=None):
    ctx.fail('spec', dict(c, pretty=pretty(c)),
             f"{e}: the caller's maps are overwritten, so a later call on the same arrays (e.g. the higher seed threshold "
             f"of the seed-monotone clause) runs on a corrupted image",
             dict(dict(site='find_islands', what='input-mutated', arrays=",".join(e.which)), **(extra or {})))


def scipy_labels(im, bkg, rms, flood):
    from scipy.ndimage import label
    with np.errstate(all='ignore'):
        snr = np.abs(im - bkg) / rms
        a = np.isfinite(snr) & (snr >= flood)        # the Spec's flood mask (finite pixels only)
    l, n = label(a, structure=np.ones((3, 3)))
    return l, int(n)


# ------------------------------------------------------------------------------------------------
# the Lean model through the driver


def request_line(c, with_labels=True):
    im, bkg, rms, flood, seed, inside = arrays(c)
    N = c['H'] * c['W']
    if with_labels:
        l, n = scipy_labels(im, bkg, rms, flood)
        labs = ' '.join(str(int(x)) for x in l.ravel())
    else:
        n, labs = 0, ' '.join(['0'] * N)
    return (f"find {c['H']} {c['W']} {c['flood']} {c['seed']} {' '.join(c['im'])} {' '.join(c['bkg'])} "
            f"{' '.join(c['rms'])} {n} {labs} {c['inside'] if c.get('inside') is not None else '-'}")


def parse_answer(ans):
    parts = ans.split(' | ')
    head = parts[0].split()
    if head[0] != 'ok':
        return None
    flags = dict(kv.split('=') for kv in head[1:])
    isl = []
    for p in parts[1:]:
        w = [int(x) for x in p.split()]
        box, frame, k = tuple(w[0:4]), tuple(w[4:8]), w[8]
        pix = tuple(sorted((w[9 + 2 * i], w[10 + 2 * i]) for i in range(k)))
        isl.append(dict(box=box, frame=frame, pix=pix))
    isl.sort(key=lambda d: (d['box'], d['pix']))
    return dict(own=flags['own'] == '1', sci=flags['sci'] == '1', same=flags['same'] == '1', n=int(flags['n']),
                gen=flags.get('gen', '1') == '1',
                islands=isl)


def lean_batch(ctx, lines, workers=4):
    """split the batch over a few driver processes"""
    if not lines:
        return []
    k = max(1, min(workers, len(lines) // 50))
    if k == 1:
        return ctx.driver.batch(lines)
    chunks = [lines[i::k] for i in range(k)]
    with ThreadPoolExecutor(k) as ex:
        outs = list(ex.map(ctx.driver.batch, chunks))
    res = [None] * len(lines)
    for j, o in enumerate(outs):
        res[j::k] = o
    return res


# ------------------------------------------------------------------------------------------------
# judging one case


def classify(impl, want, comps, im):
    """name the clause of the property the implementation's answer violates (None if it equals `want`)"""
    want_pix = {w[1]: w[0] for w in want}
    comp_by_pix = {k['pix']: k for k in comps}
    probs = []
    seen_px = {}
    for d in impl:
        if not d['shape_ok']:
            probs.append(dict(clause='mask-box-mismatch', box=d['box'], mask_shape=d['mshape']))
            continue
        for p in d['pix']:
            if not np.isfinite(im[p]):
                probs.append(dict(clause='blank-member', pixel=p, box=d['box']))
                break
        for p in d['pix']:
            if p in seen_px and seen_px[p] != d['box']:
                probs.append(dict(clause='overlap', pixel=p))
                break
            seen_px[p] = d['box']
        if d['pix'] in want_pix:
            if want_pix[d['pix']] != d['box']:
                probs.append(dict(clause='box-not-tight', box=d['box'], tight=want_pix[d['pix']]))
        elif d['pix'] in comp_by_pix:
            k = comp_by_pix[d['pix']]
            if not k['seeded']:
                probs.append(dict(clause='unseeded-component-reported', box=d['box'], npix=len(d['pix'])))
            else:
                probs.append(dict(clause='untouched-component-reported', box=d['box'], npix=len(d['pix'])))
        else:
            probs.append(dict(clause='pixel-set-not-a-component', box=d['box'], npix=len(d['pix'])))
    got_pix = {d['pix'] for d in impl if d['shape_ok']}
    for w in want:
        if w[1] not in got_pix:
            probs.append(dict(clause='island-missing', box=w[0], npix=len(w[1])))
    if not probs and [(d['box'], d['pix']) for d in impl] != [(w[0], w[1]) for w in want]:
        probs.append(dict(clause='duplicate-or-order'))
    return probs


def judge(ctx, prop, c, impl, model, record=True):
    """impl: canon_impl output or an exception string; model: parse_answer output or None (no Lean).
    Returns the list of problems (clauses) found."""
    im, bkg, rms, flood, seed, inside = arrays(c)
    want_py, comps = oracle(im, bkg, rms, flood, seed, inside)
    want = want_py
    if model is not None:
        if not model['own']:
            ctx.fail('corr', c, "the Lean-verified checker rejected the driver's own labelling (model bug)",
                     dict(site='driver', what='own-labelling'))
            return ['model']
        want_lean = [(m['box'], m['pix']) for m in model['islands']]
        if any(m['box'] != m['frame'] for m in model['islands']):
            ctx.fail('corr', c, "model: mask frame differs from box (contradicts mask_frame_eq_box)",
                     dict(site='driver', what='frame'))
            return ['model']
        if want_lean != want_py:
            ctx.fail('corr', c, f"Lean model {want_lean} != independent Python flood-fill oracle {want_py}",
                     dict(site='driver', what='model-vs-oracle'))
            return ['model']
        if not model['sci']:
            ctx.fail('corr', c, "the Lean-verified checker rejected scipy.ndimage.label's label array "
                     "(the IsLabelling assumption fails on this case)", dict(site='scipy.ndimage.label', what='contract'))
            return ['scipy']
        if not model['gen']:
            # the glue over the pieces regenerated from the source (findIslandsGen / findRestrictedSky) disagrees with the
            # hand model on this case: either a regenerated obligation is broken (then the proof step says which) or the
            # translator / glue is wrong
            ctx.count('regenerated-glue-differs')
            if not ctx.extra.get('glue_reported'):
                ctx.extra['glue_reported'] = True
                ctx.fail('corr', c, "find_islands assembled from the regenerated pieces differs from the hand model "
                         "(see the proof obligations on Gen.* in Properties)", dict(site='regenerated-glue', what='gen'))
        else:
            ctx.count('regenerated-glue-agrees')
        if not model['same']:
            ctx.fail('corr', c, "findIslands differs between two certified labellings (contradicts islands_eq_spec)",
                     dict(site='driver', what='labelling-independence'))
            return ['model']
    if isinstance(impl, str):
        ctx.fail('spec', dict(c, pretty=pretty(c)), f"find_islands{'(log=None)' if c.get('log_none') else ''} raised {impl}; "
                 f"the property requires {want}",
                 dict(site='find_islands', clause='raises', region=inside is not None, log_none=bool(c.get('log_none'))))
        return ['raises']
    probs = classify(impl, want, comps, im)
    if probs and record:
        clauses = sorted({p['clause'] for p in probs})
        has_zero = bool(any(im[p] == 0 for w in want for p in w[1]))
        ctx.fail('spec', dict(c, pretty=pretty(c)),
                 dict(problems=probs[:6], implementation=[dict(box=d['box'], pixels=list(d['pix'])[:40], mask_shape=d['mshape'])
                                                          for d in impl][:8],
                      spec=[dict(box=w[0], pixels=list(w[1])[:40]) for w in want][:8]),
                 dict(site='find_islands', clause=clauses[0], region=inside is not None, zero_valued_island_pixel=has_zero))
    return [p['clause'] for p in probs]


def nontrivial(c):
    im, bkg, rms, flood, seed, inside = arrays(c)
    _, comps = oracle(im, bkg, rms, flood, seed, None)
    return len(comps) >= 2 and any(not k['seeded'] for k in comps)


# ------------------------------------------------------------------------------------------------
# generators

FLOODS = [1.0, 2.5, 3.0, 4.0]
SEED_STEPS = [0.0, 0.25, 1.0, 2.0]


def pattern(rng, H, W, kind):
    """boolean 'on' mask for a structural pattern"""
    on = np.zeros((H, W), dtype=bool)
    if kind == 'random':
        on = rng.random((H, W)) < rng.choice([0.1, 0.25, 0.4, 0.55, 0.7])
    elif kind == 'full':
        on[:] = True
    elif kind == 'ring':
        # nested square rings with one-pixel gaps, random centre
        r0, c0 = rng.integers(0, H), rng.integers(0, W)
        for rad in range(0, max(H, W), 2):
            if rng.random() < 0.8:
                for r in range(H):
                    for c in range(W):
                        if max(abs(r - r0), abs(c - c0)) == rad:
                            on[r, c] = True
    elif kind == 'diag':
        # blobs that touch only diagonally
        for r in range(H):
            for c in range(W):
                if (r // 2 + c // 2) % 2 == 0 and rng.random() < 0.85:
                    on[r, c] = (r % 2 == c % 2) if rng.random() < 0.7 else True
    elif kind == 'inbox':
        # a C/U shaped island with something separate inside its box
        if H >= 5 and W >= 5:
            h, w = rng.integers(5, H + 1), rng.integers(5, W + 1)
            r0, c0 = rng.integers(0, H - h + 1), rng.integers(0, W - w + 1)
            on[r0:r0 + h, c0] = True
            on[r0, c0:c0 + w] = True
            on[r0 + h - 1, c0:c0 + w] = True
            if rng.random() < 0.5:
                on[r0:r0 + h, c0 + w - 1] = True
                on[r0 + h // 2, c0 + w - 1] = rng.random() < 0.5
            rr, cc = rng.integers(r0 + 2, r0 + h - 2), rng.integers(c0 + 2, c0 + w - 2)
            on[rr, cc] = True
        else:
            on = rng.random((H, W)) < 0.4
    elif kind == 'bars':
        for _ in range(rng.integers(1, 5)):
            if rng.random() < 0.5:
                r = rng.integers(0, H)
                a, b = sorted(rng.integers(0, W, 2))
                on[r, a:b + 1] = True
            else:
                c = rng.integers(0, W)
                a, b = sorted(rng.integers(0, H, 2))
                on[a:b + 1, c] = True
    elif kind == 'lshape':
        for _ in range(rng.integers(1, 4)):
            r, c = rng.integers(0, H), rng.integers(0, W)
            a, b = rng.integers(0, H), rng.integers(0, W)
            on[min(r, a):max(r, a) + 1, c] = True
            on[a, min(c, b):max(c, b) + 1] = True
    elif kind == 'sparse':
        for _ in range(rng.integers(0, 4)):
            on[rng.integers(0, H), rng.integers(0, W)] = True
    return on


def realise(rng, on, flood, seed, p_seed, zero_mode, nan_mode, inf_mode=False):
    """turn an on-mask into (im, bkg, rms) on the dyadic lattice, with exact threshold ties"""
    H, W = on.shape
    snr = np.zeros((H, W))
    below = [0.0, flood - 0.25, flood / 2]
    between = [flood, flood, seed, seed] + ([flood + 0.25] if flood + 0.25 < seed else []) + \
              ([(flood + seed) / 2] if flood < seed else [])
    above = [seed + 0.25, seed + 1.0, seed + 8.0]
    for r in range(H):
        for c in range(W):
            if on[r, c]:
                snr[r, c] = rng.choice(above) if rng.random() < p_seed else rng.choice(between)
            else:
                snr[r, c] = rng.choice(below)
    rms = rng.choice([0.5, 1.0, 2.0, 4.0], size=(H, W)) if rng.random() < 0.7 else np.ones((H, W))
    bkg = rng.integers(-16, 17, size=(H, W)) * 0.5 if rng.random() < 0.7 else np.zeros((H, W))
    sign = np.where(rng.random((H, W)) < 0.25, -1.0, 1.0)
    if zero_mode:
        # some pixels get image value exactly 0 with bkg != 0 (bkg = -sign*snr*rms)
        z = rng.random((H, W)) < (0.5 if zero_mode == 2 else 0.15)
        bkg = np.where(z, -sign * snr * rms, bkg)
    im = bkg + sign * snr * rms
    if nan_mode:
        p = rng.choice([0.05, 0.15, 0.4])
        w = rng.random((H, W))
        im = np.where(w < p, np.nan, im)
        if nan_mode == 2:
            bkg = np.where((w >= p) & (w < p + 0.05), np.nan, bkg)
            rms = np.where((w >= p + 0.05) & (w < p + 0.1), np.nan, rms)
    if inf_mode:
        w = rng.random((H, W))
        im = np.where(w < 0.1, np.inf, np.where(w < 0.15, -np.inf, im))
    return im, bkg, rms


KINDS = ['random', 'random', 'ring', 'diag', 'inbox', 'bars', 'lshape', 'sparse', 'full']


def gen_case(rng, kind=None, small=False, inf_mode=False):
    kind = kind or KINDS[rng.integers(0, len(KINDS))]
    hi = 6 if small else 15
    H, W = int(rng.integers(1, hi)), int(rng.integers(1, hi))
    flood = float(rng.choice(FLOODS))
    seed = flood + float(rng.choice(SEED_STEPS))
    on = pattern(rng, H, W, kind)
    p_seed = float(rng.choice([0.0, 0.05, 0.15, 0.4]))
    im, bkg, rms = realise(rng, on, flood, seed, p_seed, zero_mode=int(rng.choice([0, 0, 1, 2])),
                           nan_mode=int(rng.choice([0, 0, 1, 2])), inf_mode=inf_mode)
    return mk_case(kind + ('+inf' if inf_mode else ''), im, bkg, rms, flood, seed)


def exact_masks(c):
    """flood / seed masks by exact rational arithmetic on the STORED values: snr = |im - bkg| / rms over Q"""
    from fractions import Fraction
    im, bkg, rms, flood, seed, _ = arrays(c)
    H, W = im.shape
    A = np.zeros((H, W), dtype=bool)
    S = np.zeros((H, W), dtype=bool)
    fl, sd = Fraction(flood), Fraction(seed)
    for r in range(H):
        for q in range(W):
            v = (im[r, q], bkg[r, q], rms[r, q])
            if all(np.isfinite(x) for x in v) and v[2] != 0:
                x = abs(Fraction(float(v[0])) - Fraction(float(v[1]))) / Fraction(float(v[2]))
                A[r, q] = x >= fl
                S[r, q] = x > sd
    return A, S


def float64_agrees_with_exact(c):
    im, bkg, rms, flood, seed, _ = arrays(c)
    with np.errstate(all='ignore'):
        snr = np.abs(im - bkg) / rms
        A = np.isfinite(snr) & (snr >= flood)
        S = np.isfinite(snr) & (snr > seed)
    EA, ES = exact_masks(c)
    return np.array_equal(A, EA) and np.array_equal(S, ES)


def gen_near_case(rng, k=0):
    """mixed-dtype grids whose signal-to-noise sits within a small fraction of a float32 ulp of a threshold.
    The dtypes of im, bkg and rms are three INDEPENDENT dimensions (all 8 combinations of float32/float64, native or
    big-endian, C or F order).  The threshold-adjacent value is carried by whichever operand has the extra precision:
      rms float64            : rms * (1 +/- j * 2^-30)           (snr = t / (1 +/- j 2^-30))
      else bkg float64       : bkg +/- j * 2^-28                 (snr = t -/+ j 2^-28 / rms)
      else im float64        : im  +/- j * 2^-28
      all float32            : rms * (1 +/- j * 2^-20)           (8 float32 ulps; everything is float32 anyway)
    so that any evaluation that rounds snr (or im - bkg) to float32 lands ON the threshold.  Expected membership is
    decided by exact rational arithmetic on the stored values; only grids on which IEEE double evaluation agrees
    with it are kept."""
    combo = k % 8
    dts = ['f4' if (combo >> i) & 1 == 0 else 'f8' for i in range(3)]          # im, bkg, rms
    be = (k // 8) % 3 == 2
    order = ':F' if (k // 8) % 4 == 1 else ''
    variant = 'mix:' + ','.join(('>' if be else '') + d for d in dts) + order
    for _try in range(20):
        kind = ['random', 'diag', 'bars', 'lshape', 'ring'][rng.integers(0, 5)]
        H, W = int(rng.integers(1, 10)), int(rng.integers(1, 10))
        flood = float(rng.choice(FLOODS))
        seed = flood + float(rng.choice(SEED_STEPS))
        on = pattern(rng, H, W, kind)
        im, bkg, rms = realise(rng, on, flood, seed, 0.1, zero_mode=0, nan_mode=int(rng.choice([0, 0, 1])))
        with np.errstate(all='ignore'):
            snr = np.abs(im - bkg) / rms
        tie = np.isfinite(snr) & ((snr == flood) | (snr == seed))
        j = rng.choice([0.0, 1.0, -1.0, 2.0, -2.0], size=(H, W))
        if dts[2] == 'f8':
            rms = np.where(tie, rms * (1.0 + j * 2.0 ** -30), rms)
            carrier = 'rms'
        elif dts[1] == 'f8':
            bkg = np.where(tie, bkg + j * 2.0 ** -28, bkg)
            carrier = 'bkg'
        elif dts[0] == 'f8':
            im = np.where(tie, im + j * 2.0 ** -28, im)
            carrier = 'im'
        else:
            rms = np.where(tie, rms * (1.0 + j * 2.0 ** -20), rms)
            carrier = 'rms(f4)'
        c = mk_case('near-' + kind, im, bkg, rms, flood, seed, extra=dict(variant=variant, carrier=carrier))
        # the values must survive the cast to the variant's dtypes
        arrs = prepare_inputs(im, bkg, rms, variant)
        same = all(np.array_equal(np.asarray(a, dtype=np.float64), b, equal_nan=True) for a, b in zip(arrs, (im, bkg, rms)))
        if same and float64_agrees_with_exact(c):
            return c
    return None


def fixed_cases():
    """the witnesses of DESIGN §6 items 3 and 21, plus a few hand cases; always run first"""
    out = []
    # faint ring around a bright pixel (item 3)
    im = np.zeros((9, 9)); im[2:7, 2:7] = 4.5; im[3:6, 3:6] = 0; im[4, 4] = 10
    out.append(mk_case('ring-witness', im, np.zeros((9, 9)), np.ones((9, 9)), 4.0, 5.0))
    # zero-valued island pixel with bkg != 0 (item 21)
    im = np.full((3, 6), -6.0); im[1, 1] = 0; im[1, 2] = 3; im[1, 3] = 3
    out.append(mk_case('zero-witness', im, np.full((3, 6), -6.0), np.ones((3, 6)), 4.0, 5.0))
    # 1x1 images
    out.append(mk_case('1x1-on', np.array([[9.0]]), np.zeros((1, 1)), np.ones((1, 1)), 4.0, 5.0))
    out.append(mk_case('1x1-tie', np.array([[5.0]]), np.zeros((1, 1)), np.ones((1, 1)), 4.0, 5.0))
    out.append(mk_case('1x1-nan', np.array([[np.nan]]), np.zeros((1, 1)), np.ones((1, 1)), 4.0, 5.0))
    # flood == seed
    im = np.array([[4.0, 0, 4.25, 0, 9]]);
    out.append(mk_case('flood=seed', im, np.zeros((1, 5)), np.ones((1, 5)), 4.0, 4.0))
    # island inside another island's box, the inner one carries the only seed
    im = np.zeros((7, 7)); im[0, :] = 4.5; im[6, :] = 4.5; im[:, 0] = 4.5; im[3, 3] = 20
    out.append(mk_case('inbox-witness', im, np.zeros((7, 7)), np.ones((7, 7)), 4.0, 5.0))
    return out


def corpus_cases():
    import glob
    import json
    d = os.path.join(common.VERIF, 'corpus', 'C02')
    out = []
    for fn in sorted(glob.glob(os.path.join(d, '*.json'))):
        out.append(json.load(open(fn))['case'])
    return out


# ------------------------------------------------------------------------------------------------


def np_rng(ctx):
    return np.random.default_rng(ctx.rng.getrandbits(64))


def evaluate(ctx, prop, cases, impl_fn=None, use_lean=True):
    """run implementation and model on all cases; returns per-case problem lists"""
    lines = [request_line(c) for c in cases] if use_lean else None
    outs = lean_batch(ctx, lines) if use_lean else [None] * len(cases)
    res = []
    for c, o in zip(cases, outs):
        im, bkg, rms, flood, seed, inside = arrays(c)
        try:
            impl = impl_fn(c) if impl_fn else run_impl(im, bkg, rms, flood, seed, variant=variant_of(c), log=log_of(c))
        except InputMutated as e:
            report_mutation(ctx, c, e)
            impl = e.canon
        except Exception as e:  # the property requires an answer for every valid image
            impl = f"{type(e).__name__}: {e}"
        if not impl_fn and log_of(c) is None:
            ctx.count('log=None')
            c = dict(c, log_none=True)
        ctx.count('input:' + variant_of(c))
        model = None
        if use_lean:
            model = parse_answer(o)
            if model is None:
                ctx.fail('corr', c, f"driver rejected the request: {o[:200]}", dict(site='driver', what='protocol'))
                res.append(['model'])
                continue
        probs = judge(ctx, prop, c, impl, model)
        res.append(probs)
        ctx.count('kind:' + c['kind'].split('-')[0])
        ctx.count(f"size:{'1-4' if max(c['H'], c['W']) <= 4 else '5-9' if max(c['H'], c['W']) <= 9 else '10-14'}")
        if any(x != x for x in im.ravel()):
            ctx.count('has-nan')
        nt = nontrivial(c)
        short = dict(kind=c['kind'], H=c['H'], W=c['W'], flood=common.h2f(c['flood']), seed=common.h2f(c['seed']),
                     islands=len(model['islands']) if model else None, labels=model['n'] if model else None)
        ctx.case(short, nontrivial_key=case_key(c) if nt else None, sample_every=499)
    return res


def same_arrays_sequence(c, seeds, variant):
    """call find_islands repeatedly on the SAME array objects with the given seed thresholds;
    returns ([(seed, canon)], [(call number, arrays changed)])"""
    im, bkg, rms, flood, _, _ = arrays(c)
    arrs = prepare_inputs(im, bkg, rms, variant)
    seq, mutated = [], []
    for k, sd in enumerate(seeds):
        try:
            got = call_find_islands(arrs, flood, sd)
        except InputMutated as e:
            mutated.append((k + 1, e.which))
            got = e.canon
        seq.append((sd, got))
    return seq, mutated


def judge_sequence(ctx, c, seeds, variant):
    """seed-monotone clause on the implementation: later calls on identical input must still be right
    (each answer is compared with the oracle) and raising the seed may only remove islands"""
    im, bkg, rms, flood, seed, _ = arrays(c)
    case = dict(c, seeds=[common.f2h(x) for x in seeds], variant=variant)
    try:
        seq, mutated = same_arrays_sequence(c, seeds, variant)
    except Exception:
        return      # a raise is reported by the main stream
    if mutated:
        later = None
        for k, (sd, got) in enumerate(seq):
            want, comps = oracle(im, bkg, rms, flood, sd, None)
            if k + 1 > mutated[0][0] and classify(got, want, comps, im):
                later = f"call {k + 1} (seed {sd}) on the same arrays then returned {[(d['box'], len(d['pix'])) for d in got][:4]} " \
                        f"instead of {[(w[0], len(w[1])) for w in want][:4]}"
                break
        e = InputMutated(mutated[0][1], None)
        ctx.fail('spec', dict(case, pretty=pretty(c)),
                 f"call {mutated[0][0]}: {e}; " + (later or "later answers happened to stay right on this grid"),
                 dict(site='find_islands', what='input-mutated', arrays=",".join(mutated[0][1]), sequence=True,
                      later_answer_wrong=later is not None))
        return
    prev = None
    for k, (sd, got) in enumerate(seq):
        want, comps = oracle(im, bkg, rms, flood, sd, None)
        probs = classify(got, want, comps, im)
        if probs:
            ctx.fail('spec', dict(case, pretty=pretty(c)),
                     f"call {k + 1} of {len(seq)} on the same arrays (seed {sd}): {probs[:3]}; the property requires {want[:4]}",
                     dict(site='find_islands', clause='repeat-call' if k else probs[0]['clause'], call=k + 1))
            return
        cur = {(d['box'], d['pix']) for d in got}
        if prev is not None and seeds[k] >= seeds[k - 1] and not cur <= prev:
            ctx.fail('spec', dict(case, pretty=pretty(c)),
                     f"raising seed {seeds[k - 1]} -> {sd} produced islands not present before: {sorted(cur - prev)[:3]}",
                     dict(site='find_islands', clause='seed-monotone'))
            return
        prev = cur
    ctx.count('seed-monotone-sequence')
    ctx.count('sequence-input:' + variant)


def seed_monotone_pairs(ctx, rng, n):
    for k in range(n):
        c = gen_case(rng, small=(k % 4 == 0))
        _, _, _, flood, seed, _ = arrays(c)
        seeds = [seed, seed + float(rng.choice([0.25, 1.0, 4.0]))]
        if rng.random() < 0.5:
            seeds.append(seeds[-1] + float(rng.choice([0.25, 2.0])))
        if rng.random() < 0.3:
            seeds.append(seed)         # and back: identical input, identical answer
        judge_sequence(ctx, c, seeds, VARIANTS[k % len(VARIANTS)])


PRIME_SEED = 20260930


def prime_fit(ctx):
    """what a long-lived process does between two find_islands calls: a full find_sources_in_image run that fits
    big islands (deterministic image, so a replay can re-create the history)"""
    rng = np.random.default_rng(PRIME_SEED)
    im = blob_image(rng, nblob=4)
    c = mk_case('finder', im, np.zeros_like(im), np.ones_like(im), 4.0, 5.0, extra=dict(finder=True))
    finder_one(ctx, c)
    _state['fits_done'] += 1


_state = dict(fits_done=0)


def with_history(cases):
    if _state['fits_done']:
        for c in cases:
            c['history'] = 'after-fit'
    return cases


def run(ctx):
    common.use_repo()
    rng = np_rng(ctx)
    cases = fixed_cases() + corpus_cases()
    n = 1500 if ctx.quick else 40000
    for k in range(n):
        cases.append(gen_case(rng, small=(k % 5 == 0)))
    # a small stream with infinite image values (non-finite = blank for the property)
    for k in range(60 if ctx.quick else 1500):
        cases.append(gen_case(rng, small=(k % 2 == 0), inf_mode=True))
    # mixed dtypes / byte orders with values a few float32 ulps from the thresholds (exact rational judge)
    near = [gen_near_case(rng, k) for k in range(320 if ctx.quick else 4800)]
    cases += [c for c in near if c is not None]
    # (outside the documented ndarray interface, kept because it is cheap and quiet) astropy Quantity maps in mixed units
    for k in range(25 if ctx.quick else 400):
        c = gen_case(rng, small=(k % 2 == 0))
        c['variant'] = 'quantity'
        cases.append(c)
    # a history in one process: the first block runs in a fresh process state, then fits of big islands
    # (find_sources_in_image) are interleaved BETWEEN blocks of find_islands cases
    first = 300
    evaluate(ctx, 'C02', cases[:first])
    block = 700 if ctx.quick else 4000
    order = list(range(first, len(cases)))
    ctx.rng.shuffle(order)
    for lo in range(0, len(order), block):
        if lo // block < (3 if ctx.quick else 12):
            prime_fit(ctx) if lo == 0 else finder_runs(ctx, rng, 1, with_region=False)
            _state['fits_done'] += 1
        evaluate(ctx, 'C02', with_history([cases[i] for i in order[lo:lo + block]]))
    for c in fixed_cases():
        _, _, _, flood, seed, _ = arrays(c)
        judge_sequence(ctx, with_history([c])[0], [seed, seed + 1.0, seed], 'f64-C')
    seed_monotone_pairs(ctx, rng, 300 if ctx.quick else 5000)
    shrink_failures(ctx)
    evaluate_large(ctx, large_cases(ctx))
    finder_option_runs(ctx, rng, 7 if ctx.quick else 56)
    if not ctx.quick:
        finder_runs(ctx, rng, 30, with_region=False)


def large_cases(ctx):
    """one deliberately LARGE case per size-like dimension: island extent (> 2^16 along either axis) and number of
    flood groups (2^16 and its neighbours).  Sizes just above powers of two, not multiples of usual block sizes."""
    out = []
    for T in (False, True):
        out.append(large_case(dict(name='strip', short=6, long=70001, c0=3, c1=69990, period=1009, seed_at=65600,
                                   extras=[10, 30011, 65530, 69995], T=T),
                              variant='mix:f4,f8,f8' if T else 'f64-C'))
    ns = [65536] if ctx.quick else [65535, 65536, 65537, 131072 + 1]
    for N in ns:
        out.append(large_case(dict(name='lattice', N=N, per_row=251)))
    return out


def evaluate_large(ctx, cases):
    """large grids: implementation vs the Python Spec oracle (the Lean model is size-independent; the interpreted
    driver is not used for half a million pixels)"""
    for c in cases:
        im, bkg, rms, flood, seed, _ = arrays(c)
        want, comps = oracle(im, bkg, rms, flood, seed, None)
        try:
            impl = run_impl(im, bkg, rms, flood, seed, variant=variant_of(c))
        except InputMutated as e:
            report_mutation(ctx, c, e)
            impl = e.canon
        except Exception as e:
            ctx.fail('spec', dict(c, pretty=pretty(c)), f"find_islands raised {type(e).__name__}: {e} on a {im.shape} image",
                     dict(site='find_islands', clause='raises', large=c['gen']['name']))
            impl = None
        if impl is not None:
            probs = classify(impl, want, comps, im)
            if probs:
                ctx.fail('spec', dict(c, pretty=pretty(c)),
                         dict(problems=probs[:6], shape=list(im.shape), flood_groups=len(comps), spec_islands=len(want),
                              reported_islands=len(impl),
                              implementation=[dict(box=d['box'], npix=len(d['pix']), mask_shape=d['mshape']) for d in impl[:5]],
                              spec=[dict(box=w[0], npix=len(w[1])) for w in want[:5]]),
                         dict(site='find_islands', clause=sorted({p['clause'] for p in probs})[0], large=c['gen']['name']))
        ctx.count('large:' + c['gen']['name'])
        ctx.case(dict(kind=c['kind'], H=c['H'], W=c['W'], flood_groups=len(comps), islands=len(want),
                      longest_island_extent=max([max(w[0][1] - w[0][0], w[0][3] - w[0][2]) for w in want] + [0])),
                 nontrivial_key=case_key(c) if len(comps) >= 2 and any(not k['seeded'] for k in comps) else None)


def fresh_process_fails(c):
    """the clauses violated when the same case is run in a FRESH python process (no earlier calls)"""
    import json
    import subprocess
    import sys
    code = ("import sys, json; sys.path.insert(0, %r); import common; common.use_repo(); import corr_C02 as m; "
            "print('RESULT' + json.dumps(m.fails(json.load(sys.stdin))))" % os.path.join(common.VERIF, 'harness'))
    try:
        p = subprocess.run([sys.executable, '-c', code], input=json.dumps({k: v for k, v in c.items() if k != 'pretty'}),
                           capture_output=True, text=True, timeout=300)
        for line in p.stdout.splitlines():
            if line.startswith('RESULT'):
                return json.loads(line[6:])
    except Exception:
        pass
    return None


def shrink_failures(ctx, limit=4):
    """minimise the first failing grid of each distinct clause and put it in front, so that the replay
    named in the VIOLATION line is small"""
    seen, small = set(), []
    for f in list(ctx.failures):
        if f['kind'] != 'spec' or 'im' not in (f['case'] or {}) or 'seeds' in f['case'] \
                or f['signature'].get('what') == 'input-mutated':
            continue
        clause = f['signature'].get('clause')
        if clause in seen or len(seen) >= limit:
            continue
        seen.add(clause)
        c = {k: v for k, v in f['case'].items() if k != 'pretty'}
        try:
            s = shrink(c, lambda x, cl=clause: cl in fails(x))
        except Exception:
            continue
        hist = None
        if c.get('history'):
            fresh = fresh_process_fails(s)
            if fresh is not None and clause not in fresh:
                hist = ('the same grid is answered correctly by a FRESH process; in this process find_sources_in_image '
                        'had fitted islands before (history-dependence)')
                s['history'] = c['history']
        n0 = len(ctx.failures)
        evaluate(ctx, 'C02', [s], use_lean=ctx.driver_ok)
        ctx.evaluations -= 1
        for g in ctx.failures[n0:]:
            if hist and g['kind'] == 'spec':
                g['signature'] = dict(g['signature'], what='history-dependence')
                g['detail'] = dict(g['detail'], history=hist) if isinstance(g['detail'], dict) else f"{g['detail']}; {hist}"
        small += ctx.failures[n0:]
        del ctx.failures[n0:]
    ctx.failures[:0] = small


# ------------------------------------------------------------------------------------------------
# search: implementation vs the Python oracle of the Spec, with shrinking


def fails(c, clause=None):
    im, bkg, rms, flood, seed, inside = arrays(c)
    want, comps = oracle(im, bkg, rms, flood, seed, inside)
    try:
        impl = run_impl(im, bkg, rms, flood, seed, variant=variant_of(c), log=log_of(c))
    except InputMutated:
        return ['input-mutated']
    except Exception:
        return ['raises']
    return [p['clause'] for p in classify(impl, want, comps, im)]


def shrink(c, still_fails):
    """greedy: crop rows/columns, then switch pixels off (image := background), while it still fails"""
    im, bkg, rms, flood, seed, inside = arrays(c)

    keep = {k: c[k] for k in ('variant', 'history', 'carrier', 'log_none') if c.get(k)}
    keep.setdefault('variant', variant_of(c))      # the shrunk grid is run with the same dtype / layout

    def mk(im, bkg, rms):
        return mk_case(c['kind'] + '-shrunk', im, bkg, rms, flood, seed, extra=keep)
    changed = True
    while changed:
        changed = False
        for axis in (0, 1):
            for side in (0, 1):
                while im.shape[axis] > 1:
                    sl = [slice(None), slice(None)]
                    sl[axis] = slice(1, None) if side == 0 else slice(None, -1)
                    cand = mk(im[tuple(sl)], bkg[tuple(sl)], rms[tuple(sl)])
                    if still_fails(cand):
                        im, bkg, rms = im[tuple(sl)], bkg[tuple(sl)], rms[tuple(sl)]
                        changed = True
                    else:
                        break
        for r in range(im.shape[0]):
            for cc in range(im.shape[1]):
                if np.isfinite(im[r, cc]) and im[r, cc] == bkg[r, cc] and rms[r, cc] == 1.0:
                    continue
                i2, b2, r2 = im.copy(), bkg.copy(), rms.copy()
                i2[r, cc], b2[r, cc], r2[r, cc] = 0.0, 0.0, 1.0
                if still_fails(mk(i2, b2, r2)):
                    im, bkg, rms = i2, b2, r2
                    changed = True
    return mk(im, bkg, rms)


def search(ctx):
    common.use_repo()
    if any(f['kind'] == 'spec' for f in ctx.failures):
        return
    rng = np_rng(ctx)
    cases = fixed_cases() + [gen_case(rng, small=(k % 3 == 0)) for k in range(3000)]
    for c in cases:
        cl = fails(c)
        if cl:
            first = cl[0]
            small = shrink(c, lambda x: first in fails(x))
            evaluate(ctx, 'C02', [small], use_lean=False)
            if any(f['kind'] == 'spec' for f in ctx.failures):
                return


def replay(ctx, rec):
    common.use_repo()
    c = {k: v for k, v in rec['case'].items() if k != 'pretty'}
    if c.get('finder'):
        finder_one(ctx, c, report=True)
        return
    if 'gen' in c:
        evaluate_large(ctx, [c])
        return
    if c.get('history') == 'after-fit':       # re-create the history the case was observed under
        prime_fit(ctx)
        ctx.evaluations = 0
    if 'seeds' in c:
        seeds = [common.h2f(x) for x in c.pop('seeds')]
        variant = c.pop('variant', 'f64-C')
        judge_sequence(ctx, c, seeds, variant)
        ctx.case(dict(kind='seed-monotone-sequence'))
        return
    evaluate(ctx, 'C02', [c], use_lean=ctx.driver_ok)


# ------------------------------------------------------------------------------------------------
# thorough tier: the islands behind the components of find_sources_in_image


def blob_image(rng, n=28, nblob=None):
    """smooth blobs (sums of elliptical Gaussians) of various peak heights on a zero background;
    amplitudes chosen so that no pixel sits within 1e-3 of a threshold"""
    H, W = int(rng.integers(n - 8, n + 5)), int(rng.integers(n - 8, n + 5))
    yy, xx = np.mgrid[0:H, 0:W]
    im = np.zeros((H, W))
    for _ in range(nblob or int(rng.integers(2, 6))):
        r0, c0 = rng.uniform(2, H - 3), rng.uniform(2, W - 3)
        sr, sc = rng.uniform(0.8, 2.5), rng.uniform(0.8, 2.5)
        amp = rng.choice([4.6, 6.0, 9.0, 15.0, 30.0]) * rng.choice([1, 1, 1, -1])
        im += amp * np.exp(-0.5 * (((yy - r0) / sr) ** 2 + ((xx - c0) / sc) ** 2))
    return im


HDR = dict(CTYPE1='RA---SIN', CTYPE2='DEC--SIN', CRVAL1=150.0, CRVAL2=-30.0, CDELT1=-0.01, CDELT2=0.01,
           CRPIX1=10.0, CRPIX2=12.0, BMAJ=0.03, BMIN=0.03, BPA=0.0, BUNIT='Jy/beam')


def finder_sources(path, flood, seed, mask=None, **options):
    """find_sources_in_image(doislandflux=True) -> (components, {island number: (extent, pixel count)});
    `options` are further documented keyword options (blank=, max_summits=, docov=, outfile=, …)"""
    from AegeanTools.source_finder import SourceFinder
    import contextlib
    import io
    sf = SourceFinder(log=NULLLOG)
    # tqdm's progress bar goes to stderr: keep the check quiet
    with np.errstate(all='ignore'), warnings.catch_warnings(), contextlib.redirect_stderr(io.StringIO()):
        warnings.simplefilter('ignore')
        srcs = sf.find_sources_in_image(path, innerclip=seed, outerclip=flood, rms=1.0, bkg=0.0, cores=1,
                                        doislandflux=True, mask=mask, **options)
    comps, isles = [], {}
    for s in srcs:
        if hasattr(s, 'extent'):
            isles[int(s.island)] = (tuple(int(x) for x in s.extent), int(s.pixels))
        else:
            comps.append(s)
    return comps, isles


def comp_tuple(s):
    return tuple(common.f2h(getattr(s, k)) for k in ('ra', 'dec', 'peak_flux', 'int_flux', 'a', 'b', 'pa',
                                                      'err_ra', 'err_dec', 'err_peak_flux', 'local_rms')) + (int(s.flags),)


def finder_one(ctx, c, report=True):
    """c: a case with key 'finder' (image as hex list); checks the islands used by the finder against
    the Spec (and, with a region, the filter Spec + identical component values)"""
    from astropy.io import fits
    im, bkg, rms, flood, seed, inside = arrays(c)
    hdu = fits.PrimaryHDU(im.astype(np.float64))
    for k, v in HDR.items():
        hdu.header[k] = v
    path = os.path.join(ctx.tmpdir(), f"finder_{case_key(c)}.fits")
    hdu.writeto(path, overwrite=True)
    want_all, comps_all = oracle(im, bkg, rms, flood, seed, None)
    opts = dict(c.get('options') or {})
    if opts.pop('outfile', None):
        import io as _io
        opts['outfile'] = _io.StringIO()
    try:
        comps, isles = finder_sources(path, flood, seed, **opts)
    except Exception as e:
        ctx.fail('spec', dict(c, pretty=pretty(c)), f"find_sources_in_image({c.get('options') or ''}) raised {type(e).__name__}: {e}",
                 dict(site='find_sources_in_image', clause='raises', options=sorted((c.get('options') or {}).items())))
        return
    want_set = {(w[0], len(w[1])) for w in want_all}
    got_set = set(isles.values())
    bad = None
    # C02's words: "no reported component originates from a pixel group that fails this rule" - containment.  An island
    # of find_islands may legitimately yield no source (summit rules, max_summits: other properties own those), so a
    # seeded flood group that is absent from the finder's output is counted, not judged.
    if not got_set <= want_set:
        bad = (f"islands used by the finder {sorted(got_set - want_set)} are not seeded flood components "
               f"{sorted(want_set)}")
    ctx.count('finder-islands-without-source', len(want_set - got_set))
    orphan = [int(s.island) for s in comps if int(s.island) not in isles]
    if not bad and orphan:
        bad = f"components refer to islands {orphan} that are not reported"
    # options that have nothing to do with which islands are found (blank, docov, outfile) must not change the set of
    # islands the finder works on: compare with the run that differs only in those options
    side = {k: v for k, v in (c.get('options') or {}).items() if k in ('blank', 'docov', 'outfile')}
    if not bad and side:
        keep = {k: v for k, v in (c.get('options') or {}).items() if k not in side}
        try:
            _, isles0 = finder_sources(path, flood, seed, **keep)
            if set(isles0.values()) != got_set:
                bad = (f"the islands behind the reported sources depend on {side}: {sorted(got_set)} with, "
                       f"{sorted(set(isles0.values()))} without (other options {keep})")
        except Exception as e:
            bad = f"find_sources_in_image({keep}) raised {type(e).__name__}: {e}"
    if bad:
        ctx.fail('spec', dict(c, pretty=pretty(c)), (f"options {c['options']}: " if c.get('options') else '') + bad,
                 dict(site='find_sources_in_image', clause='component-origin', options=sorted((c.get('options') or {}).items())))
    ctx.count('finder-run')
    for k, v in sorted((c.get('options') or {}).items()):
        ctx.count(f'finder-option:{k}={v}')
    ctx.count('finder-components', len(comps))
    ctx.case(dict(kind='finder', H=c['H'], W=c['W'], islands=len(isles), components=len(comps)),
             nontrivial_key=('finder', case_key(c)) if len(comps_all) >= 2 and any(not k['seeded'] for k in comps_all) else None)
    return path, comps, isles


def aligned_blob_image(rng):
    """several compact sources that share image rows and / or columns (so that anything done to the image
    between two islands of one run - e.g. blank=True - can hit a later island), in a non-square image"""
    H, W = int(rng.integers(16, 25)), int(rng.integers(26, 41))
    if rng.random() < 0.5:
        H, W = W, H
    yy, xx = np.mgrid[0:H, 0:W]
    im = np.zeros((H, W))
    k = int(rng.integers(3, 6))
    r0 = rng.uniform(4, H - 5)
    c0 = rng.uniform(4, W - 5)
    for j in range(k):
        if j % 2 == 0:       # same rows, spread over the columns
            r, q = r0 + rng.uniform(-1.5, 1.5), rng.uniform(3, W - 4)
        else:                # same columns, spread over the rows
            r, q = rng.uniform(3, H - 4), c0 + rng.uniform(-1.5, 1.5)
        amp = float(rng.choice([9.0, 14.0, 25.0])) * (1 if rng.random() < 0.8 else -1)
        sg = rng.uniform(0.8, 1.6)
        im += amp * np.exp(-0.5 * (((yy - r) / sg) ** 2 + ((xx - q) / sg) ** 2))
    return im


OPTION_SETS = [dict(blank=True), dict(blank=True, max_summits=1), dict(max_summits=1), dict(docov=False),
               dict(blank=True, docov=False, outfile=True), dict(blank=True, docov=False), dict(outfile=True)]


def finder_option_runs(ctx, rng, n):
    """rarely used documented options of find_sources_in_image (products with blank=True): whatever the options, the
    islands behind the reported components are the seeded flood groups of the GIVEN image"""
    for k in range(n):
        im = aligned_blob_image(rng)
        opts = OPTION_SETS[(k + ctx.seed) % len(OPTION_SETS)]
        c = mk_case('finder', im, np.zeros_like(im), np.ones_like(im), 4.0, 5.0, extra=dict(finder=True, options=opts))
        finder_one(ctx, c)


def finder_runs(ctx, rng, n, with_region):
    for _ in range(n):
        im = blob_image(rng)
        c = mk_case('finder', im, np.zeros_like(im), np.ones_like(im), 4.0, 5.0, extra=dict(finder=True))
        finder_one(ctx, c)
