"""
C01 — correspondence and closed loop for "an injected isolated Gaussian is found and characterised".

Four streams (all randomness from ctx.rng):

  leaves    the regenerated leaves (`Gen.C01.gauss`, the constants, `renderVal`) at Float against the Python
            functions / module constants they were translated from  (translator validation, kind 'corr');
  residual  the model of `do_lmfit`'s inner `residual` closure against the real closure (captured by replacing
            `lmfit.minimize` inside `AegeanTools.fitting` for the duration of one call): random components, random
            NaN masks, with and without a random `B`;
  convert   the model of `result_to_components`' per-component conversion (`toComponent`) against the real method
            run on a hand-made lmfit model, and of AeRes.make_model's injection conventions (`inject`) against the
            real function; the two WCSHelper ellipse conversions are oracles whose ARGUMENTS and results are
            recorded, so that argument order / offsets / scalings are compared, not just end results;
  options   (part of loop) mixed option sets on images sitting on a non-zero pedestal: noise-free with rms forced and the
            background estimated internally (exact tolerances), and 12 fixed noisy cases over all four forced/estimated
            combinations judged by the property's own criterion (ra, dec, peak within 5 reported sigma, one component);
            these run in a forked child that is killed after CASE_TIMEOUT seconds (a tree that leaves the pedestal in
            sends MINPACK into a fit of the whole image);
  resolved  (part of loop) rms forced / background estimated (noise-free) and both estimated (white noise at S/N 5000) on a
            pedestal with sources 1 ... 4 beams across, exact tolerances (the background estimate must not eat into a
            resolved source);
  pairs     (part of loop) two isolated sources in one image: an oblique source of axis ratio 2.2-2.5 and a compact one in
            an empty corner of its bounding box, footprints >= 6 beams apart; each judged as an isolated injected Gaussian;
  debug     (part of loop) a slice re-run with the root, 'Aegean' and SourceFinder loggers at DEBUG: bit-identical results;
  large     one island of 25 000 pixels (72 x 56 px FWHM, docov off) in quick, a larger one in thorough;
  witnesses deterministic: err_a/err_b (open finding) and err_ra/err_dec (sky angles, checked at |dec| = 84);
  loop      the closed loop itself, kind 'spec': an image rendered INDEPENDENTLY of Aegean's conventions
            (pixel centres -> sky with astropy.wcs in 1-based FITS coordinates; offsets on the sphere with the
            vector formulas below; the Gaussian evaluated in the local tangent plane with PA East of North),
            `SourceFinder.find_sources_in_image`, and the property's tolerances on the one reported component.

The full statement (find ∘ render = id within tolerances) is NOT a theorem (MINPACK convergence, projection
curvature, rounding, statistics): the loop stream is exploration-strength evidence, and is labelled so.
"""
import json
import logging
import math
import os
import warnings

os.environ.setdefault('TQDM_DISABLE', '1')

import numpy as np  # noqa: E402

import common  # noqa: E402
from common import f2h, h2f, close  # noqa: E402

LEVEL = 'proof'
LEANCHECKER = True
RULE = ("loop stream: one case = one rendered image + one find_sources_in_image run; non-trivial = the source is at a "
        "sub-pixel offset (> 0.02 px from a pixel centre in x or y), not aligned with the pixel axes or elongated, and the "
        "run returned at least one component; distinct by (projection, header, source parameters, options). "
        "residual/convert streams: non-trivial = at least one masked pixel or a B matrix / a swap by fix_shape or a wrap by "
        "pa_limit occurred; distinct by the hash of the inputs")
ASSUMPTIONS = [
    "lmfit/MINPACK returns a (local) minimiser of the residual it is given, within the bounds set by "
    "estimate_lmfit_parinfo; that it reaches the truth from Aegean's starting point is sampled by the closed loop, not proved",
    "WCSHelper.pix2sky_ellipse / sky2pix_ellipse are oracles obeying the inverse laws on (ra, dec, a, pa) (C16 proves them "
    "from the point-level inverse of astropy.wcs) and recover the minor axis only when the two pixel offset vectors are "
    "perpendicular (explicit hypothesis of conversion_inverse)",
    "theorems are over the reals; IEEE double rounding and float32/float64 FITS storage are not modelled",
    "ln 2 is a positive parameter of the regenerated constants (R has no logarithm); fwhm_is_full_width_at_half_max "
    "instantiates it with Real.log 2, the driver with the double nearest to log 2",
    "noisy clause (within 5 reported standard errors): JUDGED for ra, dec, peak and the component count on 12 fixed noisy cases "
    "(white noise, docov off, S/N 50, |dec| 80-86 in ZEA/ARC/STG, all four forced/estimated rms-bkg option sets, on a pedestal; "
    "fixed geometry and noise seeds: the clean tree's worst |z| is 2.8); a, b (open finding C01-err-a-b-not-fwhm), pa and int are "
    "exploration-only (thorough tier, reported as statistics)",
    "'exactly one island' is left to the closed loop (C02 owns the island model)",
]
TRUSTED = [
    "astropy.wcs (pixel -> sky for the independent rendering and for measuring the position error), astropy.io.fits",
    "the harness's own spherical offset code (sph_offsets) and tangent-plane Gaussian",
    "numpy/scipy/lmfit as installed",
]
PARTIAL = [
    "FULL STATEMENT find∘render = id within tolerances: not a theorem; closed-loop sampling only (exploration)",
    "conversion_inverse: identity on b only under the hypothesis that the ellipse oracle recovers the minor axis "
    "(perpendicular pixel offset vectors, C16 `defect = 0`); identity on a, pa needs recovered minor <= major",
    "int_flux_vs_injected_partial: reported = injected integrated flux only when the sky beam at the source has the "
    "header beam's area; false away from the reference pixel in non-equal-area projections (open known finding)",
    "int_flux_identity: exact under LocalSimilarity (pixel->sky lengths scale by one factor at the source); sampled otherwise",
]

def _open_signatures():
    p = os.path.join(common.VERIF, 'known_findings.d', 'C01.json')
    try:
        return [e['signature'] for e in json.load(open(p)) if e.get('status') == 'open' and e.get('signature')]
    except (OSError, ValueError):
        return []


OPEN_SIGS = _open_signatures()


def report(ctx, kind, case, detail, sig):
    """ctx.fail, except that 'spec' failures carrying the signature of an OPEN known finding are held back until the end of
    run(): `check` treats any 'spec' failure as the explanation of a broken proof obligation / correspondence, so an
    always-present known finding would mask those.  They are released only when nothing else broke."""
    if kind == 'spec' and any(all(sig.get(k) == v for k, v in o.items()) for o in OPEN_SIGS):
        if not hasattr(ctx, '_c01_deferred'):
            ctx._c01_deferred = []
        ctx._c01_deferred.append((kind, case, detail, sig))
    else:
        ctx.fail(kind, case, detail, sig)


def release_deferred(ctx):
    held = getattr(ctx, '_c01_deferred', [])
    broke = any('no longer check' in n or 'no longer builds' in n for n in ctx.notes) or \
        any(f['kind'] == 'corr' for f in ctx.failures)
    unknown_spec = any(f['kind'] == 'spec' for f in ctx.failures)
    if broke and not unknown_spec:
        if held:
            ctx.note(f"{len(held)} failure(s) matching open known findings not reported in this run: a proof obligation or the "
                     "correspondence broke and must be explained by a new failing input, not by a known one")
    else:
        for kind, case, detail, sig in held:
            ctx.fail(kind, case, detail, sig)
    ctx._c01_deferred = []


LN2 = math.log(2.0)
NULLLOG = logging.getLogger('verif-c01-null')
NULLLOG.addHandler(logging.NullHandler())
NULLLOG.propagate = False
NULLLOG.setLevel(logging.CRITICAL + 1)

# the property's noise-free tolerances
TOL = dict(pos=0.02, peak=1e-3, a=5e-3, b=5e-3, pa=0.5, int=5e-3)
PROJS = ['SIN', 'TAN', 'ZEA', 'ARC', 'STG']


def _quiet():
    logging.getLogger('Aegean').setLevel(logging.CRITICAL + 1)
    logging.getLogger().setLevel(logging.CRITICAL + 1)
    warnings.simplefilter('ignore')
    np.seterr(all='ignore')


# ------------------------------------------------------------------------------------------------
# independent rendering


def make_header(c):
    from astropy.io import fits
    h = fits.Header()
    h['SIMPLE'] = True
    h['BITPIX'] = -64
    h['NAXIS'] = 2
    h['NAXIS1'] = int(c['n'][0])
    h['NAXIS2'] = int(c['n'][1])
    h['CTYPE1'] = 'RA---' + c['proj']
    h['CTYPE2'] = 'DEC--' + c['proj']
    h['CRVAL1'] = float(c['crval'][0])
    h['CRVAL2'] = float(c['crval'][1])
    h['CRPIX1'] = float(c['crpix'][0])
    h['CRPIX2'] = float(c['crpix'][1])
    h['CDELT1'] = -float(c['scale'])
    h['CDELT2'] = float(c['scale'])
    h['BMAJ'] = float(c['beam'][0])
    h['BMIN'] = float(c['beam'][1])
    h['BPA'] = float(c['beam'][2])
    h['BUNIT'] = 'Jy/beam'
    if c.get('sip'):
        # the same projection in its alternative standard spelling with a SIP distortion polynomial (pixel -> intermediate)
        h['CTYPE1'] = 'RA---' + c['proj'] + '-SIP'
        h['CTYPE2'] = 'DEC--' + c['proj'] + '-SIP'
        h['A_ORDER'] = 2
        h['B_ORDER'] = 2
        for k, v in c['sip'].items():
            h[k] = float(v)
    return h


def sph_offsets(ra0, dec0, ra, dec):
    """angular distance (deg) and position angle (deg, East of North) from (ra0, dec0) to (ra, dec):
    components of the target direction in the local (east, north, up) frame at the centre"""
    a0, d0 = np.radians(ra0), np.radians(dec0)
    a, d = np.radians(ra), np.radians(dec)
    da = a - a0
    e = np.cos(d) * np.sin(da)
    n = np.sin(d) * np.cos(d0) - np.cos(d) * np.sin(d0) * np.cos(da)
    u = np.sin(d) * np.sin(d0) + np.cos(d) * np.cos(d0) * np.cos(da)
    return np.degrees(np.arctan2(np.hypot(e, n), u)), np.degrees(np.arctan2(e, n))


def render(c):
    """the image (float64, numpy [row, col]) and the truth in catalogue units"""
    from astropy.wcs import WCS
    h = make_header(c)
    w = WCS(h, naxis=2)
    nx, ny = c['n']
    ra0, dec0 = [float(v) for v in w.all_pix2world([[c['xy'][0], c['xy'][1]]], 1)[0]]
    rr, cc = np.mgrid[0:ny, 0:nx]
    sky = w.all_pix2world(np.column_stack([cc.ravel() + 1.0, rr.ravel() + 1.0]), 1)
    r, phi = sph_offsets(ra0, dec0, sky[:, 0], sky[:, 1])
    u = r * np.cos(np.radians(phi - c['pa']))
    v = r * np.sin(np.radians(phi - c['pa']))
    a, b = c['a'] / 3600.0, c['b'] / 3600.0
    img = c['peak'] * np.exp(-4.0 * LN2 * (u ** 2 / a ** 2 + v ** 2 / b ** 2))
    truth = dict(ra=ra0, dec=dec0, a=c['a'], b=c['b'], pa=c['pa'], peak=c['peak'],
                 int=c['peak'] * c['a'] * c['b'] / (c['beam'][0] * c['beam'][1] * 3600.0 ** 2))
    return img.reshape(ny, nx), h, w, truth


def pair_case(ctx, c, record=True):
    """two injected Gaussians in one image, each isolated (disjoint >= 4 sigma footprints, negligible mutual flux): the
    main source `c` and `c['second']` (xy, a, b, pa, peak).  Each is judged as an isolated injected Gaussian: exactly one
    reported component within 0.6 a of it, all noise-free tolerances."""
    _quiet()
    c1 = {k: v for k, v in c.items() if k != 'second'}
    c2 = dict(c1, **c['second'])
    img1, h, w, t1 = render(c1)
    img2, _, _, t2 = render(c2)
    img = img1 + img2
    try:
        out = with_timeout(CASE_TIMEOUT, find, ctx, c1, img, h)
    except Exception as e:
        if record:
            ctx.case(c)
            ctx.fail('spec', dict(c, pretty=pretty(c1) + ' + second'), f"find_sources_in_image raised {type(e).__name__}: {e}",
                     dict(site='find_sources_in_image', clauses='raises'))
        return ['raises'], {}
    allbad, meas = [], {}
    for name, cc, tt in (('main', c1, t1), ('second', c2, t2)):
        mine = [s for s in out if sph_offsets(tt['ra'], tt['dec'], s.ra, s.dec)[0] * 3600.0 <= 0.6 * tt['a']]
        bad, m = judge(cc, tt, w, mine, img)
        meas[name] = {k: v for k, v in m.items() if k != 'got'}
        allbad += [name + ':' + b for b in bad]
    meas['n_total'] = len(out)
    if len(out) != 2 and not allbad:
        allbad.append('total-count')
    if record:
        ctx.case(dict(c, pretty=pretty(c1) + f" + second xy=({c2['xy'][0]:.2f},{c2['xy'][1]:.2f}) a={c2['a'] / c['scale'] / 3600:.2f}px "
                      f"b={c2['b'] / c['scale'] / 3600:.2f}px pa={c2['pa']:.1f} peak={c2['peak']:g}", measured=meas),
                 json.dumps(c, sort_keys=True))
        ctx.count('two-source')
        if allbad:
            ctx.fail('spec', dict(c, pretty=pretty(c1) + ' + second ' + json.dumps(c['second'])),
                     dict(failed=allbad, measured=meas, truth=dict(main=t1, second=t2), tolerances=TOL,
                          components=[[float(s.ra), float(s.dec), float(s.peak_flux), float(s.a), float(s.b), float(s.pa), int(s.island)] for s in out]),
                     dict(site='find_sources_in_image', clause='two-isolated-sources', clauses='+'.join(allbad)))
    return allbad, meas


def fingerprint(out):
    """everything a run reports about its components, bit for bit"""
    keys = ('island', 'source', 'ra', 'dec', 'peak_flux', 'err_peak_flux', 'int_flux', 'err_int_flux', 'a', 'err_a', 'b', 'err_b',
            'pa', 'err_pa', 'err_ra', 'err_dec', 'flags', 'local_rms', 'background', 'residual_mean', 'residual_std', 'psf_a', 'psf_b')
    return [[(k, f2h(getattr(s, k)) if isinstance(getattr(s, k, None), (float, np.floating)) else repr(getattr(s, k, None))) for k in keys]
            for s in out]


def debug_slice(ctx, cases):
    """logging must be an observer: each case is run at the default level and again with the root logger, the 'Aegean' logger
    and the SourceFinder's own logger at DEBUG (handlers silenced); the two runs must report bit-identical components"""
    _quiet()
    for c in cases:
        c = {k: v for k, v in c.items() if k not in ('debug',)}
        img, h, w, truth = render(c)
        if c.get('symmetric'):
            img = symmetrize(img, c['xy'])
        data = img + float(c.get('pedestal', 0.0))
        try:
            plain = fingerprint(with_timeout(CASE_TIMEOUT, find, ctx, c, data, h))
            _quiet()
            dbg = fingerprint(with_timeout(CASE_TIMEOUT, find, ctx, dict(c, debug=True), data, h))
        except Exception as e:
            ctx.case(c)
            ctx.fail('spec', dict(c, pretty=pretty(c)), f"find_sources_in_image raised {type(e).__name__}: {e} (debug slice)",
                     dict(site='find_sources_in_image', what='logging-dependence', clauses='raises'))
            continue
        finally:
            _quiet()
        ctx.case(dict(c, pretty=pretty(c), slice='debug'), 'debug:' + json.dumps(c, sort_keys=True))
        ctx.count('debug-slice')
        if plain != dbg:
            diff = [(a[0], h2f(a[1]) if a[1].startswith('x') and len(a[1]) == 17 else a[1], h2f(b[1]) if b[1].startswith('x') and len(b[1]) == 17 else b[1])
                    for sa, sb in zip(plain, dbg) for a, b in zip(sa, sb) if a != b][:8]
            ctx.fail('spec', dict(c, pretty=pretty(c)),
                     dict(failed=['logging-dependence'], components_default=len(plain), components_debug=len(dbg), first_differences=diff,
                          note='the same image gives different results when the loggers are at DEBUG level'),
                     dict(site='find_sources_in_image', what='logging-dependence'))


# size-like dimension of the property: the number of pixels of an island.  18 x 14 beams, 25 000 island pixels (> 2^14),
# docov off (the covariance matrix of such an island would not fit in memory)
LARGE_CASE = dict(proj='SIN', n=[301, 299], crval=[210.0, 12.0], crpix=[150.0, 150.0], scale=3.6 / 3600.0,
                  beam=[4.0 * 3.6 / 3600.0, 4.0 * 3.6 / 3600.0, 0.0], xy=[151.3, 148.6], a=72.0 * 3.6, b=56.0 * 3.6, pa=30.0,
                  peak=1.0, docov=False, snr=1000.0)


def pair_cases(rng):
    """an oblique elongated source (axis ratio 2.2-2.5, along a pixel diagonal) and a compact source in an empty corner of
    its bounding box, its footprint >= 6 beam widths from the big one's"""
    out = []
    for k in range(4):
        proj = ['SIN', 'TAN', 'ZEA', 'STG'][k]
        s = rng.choice([5.0, 10.0, 20.0]) / 3600.0
        beam_px = 3.0
        b_px = 16.0
        a_px = b_px * rng.uniform(2.2, 2.5)
        pa = rng.choice([45.0, -45.0]) + rng.uniform(-3.0, 3.0)
        cx, cy = 64.0 + rng.uniform(-0.5, 0.5), 64.0 + rng.uniform(-0.5, 0.5)
        comp_px = beam_px * rng.uniform(1.0, 1.5)
        # perpendicular to the major axis, at 1.19 (b/2 ... ) : footprints 4 sigma at snr 200 reach 1.19 FWHM/2... use full margins
        d = 0.6 * 1.19 * b_px + 0.6 * 1.19 * comp_px + 6.0 * beam_px + 8.0
        sgn = rng.choice([1.0, -1.0])
        # PA East of North with CDELT1 < 0: the major axis runs along (dx, dy) = (-sin pa, cos pa); its normal is (cos pa, sin pa)
        nxv, nyv = math.cos(math.radians(pa)), math.sin(math.radians(pa))
        x2, y2 = cx + sgn * d * nxv, cy + sgn * d * nyv
        peak = rng.choice([1.0, 3.0])
        out.append(dict(proj=proj, n=[128, 128], crval=[rng.uniform(0, 360), rng.choice([-35.0, 20.0, 60.0])], crpix=[64.5, 64.5],
                        scale=s, beam=[beam_px * s, beam_px * s, 0.0], xy=[cx, cy], a=a_px * s * 3600, b=b_px * s * 3600, pa=pa,
                        peak=peak, docov=False, snr=200.0,
                        second=dict(xy=[x2, y2], a=comp_px * s * 3600, b=beam_px * s * 3600, pa=rng.uniform(-89, 89),
                                    peak=peak * rng.choice([1.0, 0.5]))))
    return out


def resolved_option_cases(rng):
    """noise-free (fe) and almost noise-free (ee, S/N 5000) images on a pedestal with sources 1 ... 5 beams across: the
    internally estimated background must not eat into a resolved source"""
    out = []
    # measured on the clean tree (3 x 8 runs per size): at 4 beams |dpeak| <= 4e-5, |da|,|db| <= 1.6e-4, |dint| <= 2.8e-4
    # (margin >= 18 x); at 4.5 beams |dint| reaches 1.0e-3 and at 5 beams 2.9e-3 with |dpeak| 5.6e-4 (BANE's 5 x 4-beam box
    # starts to see the source), so 4 beams is the largest size kept
    sizes = [1.0, 2.0, 3.0, 3.5, 4.0]
    for k, size in enumerate(sizes + sizes[1:]):
        ee = k >= len(sizes)
        s = 10.0 / 3600.0
        beam_px = 3.2
        a_px = beam_px * size
        b_px = max(beam_px, a_px * rng.uniform(0.7, 1.0))
        peak = rng.choice([1.0, -1.0, 5.0])
        c = dict(proj=['SIN', 'TAN', 'ZEA', 'ARC', 'STG'][k % 5], n=[192, 192], crval=[rng.uniform(0, 360), rng.choice([-30.0, 45.0, 70.0])],
                 crpix=[96.0, 96.0], scale=s, beam=[beam_px * s, beam_px * s, 0.0], xy=[96.0 + rng.uniform(-8, 8), 96.0 + rng.uniform(-8, 8)],
                 a=a_px * s * 3600, b=b_px * s * 3600, pa=rng.uniform(-89, 89), peak=peak, docov=False, snr=200.0,
                 opts='ee' if ee else 'fe', pedestal=abs(peak) * rng.choice([0.3, -0.2, 1.0]))
        if ee:
            c.update(noise=abs(peak) / 5000.0, noise_kind='white', noise_seed=2000 + k, exact=True)
        out.append(c)
    return out


def map_option_cases(rng):
    """rms and/or background supplied as MAP FILES (rmsin= / bkgin=), alone and combined with a forced or an internally
    estimated other quantity, on a pedestal: m = map, f = forced, e = estimated"""
    out = []
    for k, opts in enumerate(['mf', 'fm', 'mm', 'me', 'em']):
        s = 10.0 / 3600.0
        beam_px = 3.2
        a_px = beam_px * rng.uniform(1.0, 2.5)
        peak = rng.choice([1.0, -1.0, 4.0])
        c = dict(proj=PROJS[k % 5], n=[160, 150], crval=[rng.uniform(0, 360), rng.choice([-30.0, 45.0, 70.0])], crpix=[80.0, 75.0], scale=s,
                 beam=[beam_px * s, beam_px * s, 0.0], xy=[80.0 + rng.uniform(-10, 10), 75.0 + rng.uniform(-10, 10)],
                 a=a_px * s * 3600, b=max(beam_px, a_px * rng.uniform(0.6, 1.0)) * s * 3600, pa=rng.uniform(-89, 89), peak=peak,
                 docov=False, snr=200.0, opts=opts, pedestal=abs(peak) * rng.choice([0.3, -0.2, 1.0]))
        if opts[0] == 'e':
            c.update(noise=abs(peak) / 5000.0, noise_kind='white', noise_seed=3000 + k, exact=True)
        out.append(c)
    return out


def sip_cases(rng):
    """the TAN (and the other four) projections in the alternative standard spelling `-SIP` with a quadratic distortion
    polynomial; reference pixel off the image so that the distortion at the source is 0.1 ... 1 pixel while the local scale
    changes by < 0.5 %"""
    out = []
    for k in range(3):
        c = gen_case(rng, True)
        for key in ('symmetric', 'kind'):
            c.pop(key, None)
        s = rng.choice([5.0, 10.0]) / 3600.0
        bpx = 3.2
        off = rng.uniform(400.0, 600.0)
        ang = rng.uniform(0, 2 * math.pi)
        c.update(proj=['TAN', 'TAN', 'SIN'][k], n=[110, 100], scale=s, crpix=[55.0 + off * math.cos(ang), 50.0 + off * math.sin(ang)],
                 crval=[rng.uniform(0, 360), rng.choice([-30.0, 20.0, 60.0])], beam=[bpx * s, bpx * s, 0.0],
                 xy=[rng.uniform(35, 75), rng.uniform(30, 70)], a=bpx * s * 3600 * rng.uniform(1.0, 2.0), pa=rng.uniform(-89, 89),
                 docov=(k == 1), snr=200.0)
        c['b'] = max(bpx * s * 3600, c['a'] * rng.uniform(0.5, 1.0))
        # a CONFORMAL quadratic distortion, f + i g = (cr + i ci)(u + i v)^2: locally a similarity, so that the slice tests
        # the position (and the use of the distortion at all) and not the axis conversion under shear, which is C16's open
        # finding; |c| off^2 = 0.15 ... 0.3 px at the source, local scale change 2 |c| off < 0.15 %
        cabs = rng.uniform(0.15, 0.3) / off ** 2
        ph = rng.uniform(0, 2 * math.pi)
        cr, ci = cabs * math.cos(ph), cabs * math.sin(ph)
        c['sip'] = {'A_2_0': cr, 'A_0_2': -cr, 'A_1_1': -2 * ci, 'B_2_0': ci, 'B_0_2': -ci, 'B_1_1': 2 * cr}
        out.append(c)
    return out


# "filename : str or HDUList" per the docstring of find_sources_in_image; open known finding C01-hdulist-input
KNOWN_HDULIST = dict(proj='SIN', n=[96, 80], crval=[180.0, -30.0], crpix=[48.0, 40.0], scale=10.0 / 3600.0,
                     beam=[30.0 / 3600.0, 30.0 / 3600.0, 0.0], xy=[50.3, 40.6], a=45.0, b=35.0, pa=35.0, peak=1.0,
                     docov=False, snr=200.0, input='hdulist')


def correlated_noise(rs, shape, c, sigma):
    """white noise smoothed with the (pixel) beam, rescaled to rms sigma"""
    from scipy.ndimage import gaussian_filter
    s = (c['beam'][0] + c['beam'][1]) / 2.0 / c['scale'] / (2 * math.sqrt(2 * LN2))
    n = gaussian_filter(rs.normal(0, 1, shape), s, mode='wrap')
    return n * (sigma / n.std())


def find(ctx, c, img, h):
    from astropy.io import fits
    from AegeanTools.source_finder import SourceFinder
    fn = os.path.join(ctx.tmpdir(), 'c01-%d.fits' % os.getpid())
    fits.PrimaryHDU(data=img, header=h).writeto(fn, overwrite=True)
    if c.get('input') == 'hdulist':     # "filename : str or HDUList" (docstring of find_sources_in_image)
        fn = fits.HDUList([fits.PrimaryHDU(data=np.array(img), header=h)])
    sf = SourceFinder(log=DEBUGLOG if c.get('debug') else NULLLOG)
    kw = dict(cores=1, docov=bool(c['docov']), innerclip=5, outerclip=4, nonegative=False, nopositive=False)
    if c.get('debug'):
        with debug_logging():
            return _find_run(ctx, c, sf, fn, kw)
    return _find_run(ctx, c, sf, fn, kw)


DEBUGLOG = logging.getLogger('verif-c01-debug')
DEBUGLOG.addHandler(logging.NullHandler())
DEBUGLOG.propagate = False
DEBUGLOG.setLevel(logging.DEBUG)


class debug_logging(object):
    """root logger and the 'Aegean' logger at DEBUG, every handler replaced by a NullHandler; restored on exit"""

    def __enter__(self):
        self.saved = []
        for name in (None, 'Aegean'):
            lg = logging.getLogger(name)
            self.saved.append((lg, lg.level, list(lg.handlers), lg.propagate))
            lg.handlers = [logging.NullHandler()]
            lg.setLevel(logging.DEBUG)
            if name:
                lg.propagate = False
        return self

    def __exit__(self, *exc):
        for lg, level, handlers, prop in self.saved:
            lg.handlers = handlers
            lg.setLevel(level)
            lg.propagate = prop
        return False


def _find_run(ctx, c, sf, fn, kw):
    from AegeanTools.source_finder import SourceFinder
    # option set: first letter rms, second bkg; f = forced by the caller, e = estimated internally (BANE)
    opts = c.get('opts') or ('ee' if c.get('bane') else 'ff')
    rmsval = c['noise'] if c.get('noise') else abs(c['peak']) / c['snr']
    if opts[0] == 'f':
        kw['rms'] = rmsval
    if opts[1] == 'f':
        kw['bkg'] = float(c.get('pedestal', 0.0))
    # m = supplied as a map file (rmsin= / bkgin=): a constant map with the value that would have been forced
    if 'm' in opts:
        from astropy.io import fits as _fits
        hdr = _fits.getheader(fn) if isinstance(fn, str) else fn[0].header
        shape = (hdr['NAXIS2'], hdr['NAXIS1'])
        if opts[0] == 'm':
            kw['rmsin'] = os.path.join(ctx.tmpdir(), 'c01-rms-%d.fits' % os.getpid())
            _fits.PrimaryHDU(data=np.full(shape, rmsval), header=hdr).writeto(kw['rmsin'], overwrite=True)
        if opts[1] == 'm':
            kw['bkgin'] = os.path.join(ctx.tmpdir(), 'c01-bkg-%d.fits' % os.getpid())
            _fits.PrimaryHDU(data=np.full(shape, float(c.get('pedestal', 0.0))), header=hdr).writeto(kw['bkgin'], overwrite=True)
    cap = getattr(ctx, '_c01_capture', None)
    if cap is None:
        return sf.find_sources_in_image(fn, **kw)
    # record what estimate_lmfit_parinfo was given and what bounds it set (bounds stream)
    real = SourceFinder.estimate_lmfit_parinfo

    def spy(self, data, rmsimg, curve, beam, innerclip, outerclip=None, offsets=(0, 0), max_summits=None):
        params = real(self, data, rmsimg, curve, beam, innerclip, outerclip, offsets=offsets, max_summits=max_summits)
        if params is not None and int(params['components'].value) >= 1:
            rec = dict(shape=[int(data.shape[0]), int(data.shape[1])], offsets=[int(offsets[0]), int(offsets[1])],
                       innerclip=float(innerclip), outerclip=float(outerclip if outerclip is not None else innerclip),
                       ncomp=int(params['components'].value))
            xo, yo = int(params['c0_xo'].value), int(params['c0_yo'].value)
            rec['rms'] = float(rmsimg[xo, yo])
            rec['pixbeam'] = [float(v) for v in self.global_data.psfhelper.get_psf_pix2pix(yo + offsets[0], xo + offsets[1])]
            for k in ('amp', 'xo', 'yo', 'sx', 'sy', 'theta'):
                q = params['c0_' + k]
                rec[k] = [float(q.value), float(q.min), float(q.max)]
            cap.append(rec)
        return params
    SourceFinder.estimate_lmfit_parinfo = spy
    try:
        out = sf.find_sources_in_image(fn, **kw)
    finally:
        SourceFinder.estimate_lmfit_parinfo = real
    ctx._c01_wcshelper = sf.global_data.wcshelper
    return out


CASE_TIMEOUT = 45   # seconds of wall time for one find_sources_in_image run on a <= 256x256 image (normal: 0.05 - 3 s)


class CaseTimeout(Exception):
    pass


def with_timeout(seconds, fn, *args):
    """run fn(*args); raise CaseTimeout if it has not returned after `seconds` (SIGALRM; main thread only)"""
    import signal

    def onalarm(signum, frame):
        raise CaseTimeout(f"no result after {seconds} s")
    try:
        old = signal.signal(signal.SIGALRM, onalarm)
    except ValueError:      # not in the main thread: run unguarded
        return fn(*args)
    # re-fire every 2 s after the deadline: an exception raised inside a MINPACK callback or under a broad `except`
    # of the code under test may be swallowed once
    signal.setitimer(signal.ITIMER_REAL, float(seconds), 2.0)
    try:
        return fn(*args)
    finally:
        signal.setitimer(signal.ITIMER_REAL, 0.0)
        signal.signal(signal.SIGALRM, old)


def _child(conn, ctx_tmp, c, data, h):
    class T(object):
        def tmpdir(self):
            return ctx_tmp
    try:
        out = find(T(), c, data, h)
        conn.send(('ok', out))
    except BaseException as e:     # noqa: B902 - report whatever happened to the parent
        conn.send(('err', f"{type(e).__name__}: {e}"))
    finally:
        conn.close()


def find_in_child(seconds, ctx, c, data, h):
    """find() in a forked child that is killed after `seconds`: a mutated tree can send MINPACK into a fit of the whole
    image (a pedestal that is not removed), which no in-process alarm interrupts"""
    import multiprocessing as mp
    mpc = mp.get_context('fork')
    parent, child = mpc.Pipe(duplex=False)
    p = mpc.Process(target=_child, args=(child, ctx.tmpdir(), c, data, h))
    p.start()
    child.close()
    try:
        if not parent.poll(seconds):
            raise CaseTimeout(f"no result after {seconds} s")
        kind, val = parent.recv()
    finally:
        if p.is_alive():
            p.kill()
        p.join(5)
        parent.close()
    if kind == 'err':
        raise RuntimeError(val)
    return val


def symmetrize(img, xy):
    """average the image with its point reflection about the source centre (a pixel corner or centre): the Gaussian is
    point symmetric, so this changes it by rounding errors only, but makes mirror pixels BIT-EQUAL (what a renderer
    working in pixel coordinates produces)"""
    ny, nx = img.shape
    cx2, cy2 = int(round(2 * (xy[0] - 1))), int(round(2 * (xy[1] - 1)))
    out = img.copy()
    r = np.arange(ny)
    c_ = np.arange(nx)
    r2, c2 = cy2 - r, cx2 - c_
    rok, cok = (r2 >= 0) & (r2 < ny), (c2 >= 0) & (c2 < nx)
    rr, cc = np.meshgrid(r[rok], c_[cok], indexing='ij')
    out[rr, cc] = 0.5 * (img[rr, cc] + img[cy2 - rr, cx2 - cc])
    return out


def amp_bound_binding(c, img):
    """does estimate_lmfit_parinfo's amplitude bound (as coded on the pinned tree: 5 % + innerclip sigma above the
    brightest pixel) exclude the true peak?  Used only as the signature of a known finding."""
    pk = np.max(img * np.sign(c['peak']))
    rms = abs(c['peak']) / c['snr']
    return bool(abs(c['peak']) > pk * 1.05 + 5 * rms)


def judge(c, truth, w, out, img=None):
    """-> (failed clauses, measurements)"""
    m = dict(n=len(out))
    bad = []
    if len(out) != 1:
        bad.append('count')
        if len(out) > 1:
            # one source split into several components: every component sits on the source, has its shape, and the
            # peaks add up to the injected peak; and the input is of the kind known to do that (bit-equal mirror pixels
            # about a pixel corner, or an oblique ridge with axis ratio >= 3)
            near = all(sph_offsets(truth['ra'], truth['dec'], s.ra, s.dec)[0] * 3600.0 <= 0.6 * truth['a'] for s in out)
            tot = sum(s.peak_flux for s in out) / truth['peak']
            kind = bool(c.get('symmetric')) or (c['a'] / c['b'] >= 3.0 and c['pa'] % 90.0 != 0.0)
            m['peak_sum_ratio'] = float(tot)
            m['split'] = bool(near and abs(tot - 1) < 0.03 and kind)
            m['components'] = [[float(s.peak_flux), float(s.a), float(s.b), float(s.pa)] for s in out]
        return bad, m
    s = out[0]
    px = w.all_world2pix([[s.ra, s.dec]], 1)[0]
    pt = w.all_world2pix([[truth['ra'], truth['dec']]], 1)[0]
    m['dpos'] = float(math.hypot(px[0] - pt[0], px[1] - pt[1]))
    m['dpeak'] = float(s.peak_flux / truth['peak'] - 1)
    m['da'] = float(s.a / truth['a'] - 1)
    m['db'] = float(s.b / truth['b'] - 1)
    m['dpa'] = float((s.pa - truth['pa'] + 90.0) % 180.0 - 90.0)
    m['dint'] = float(s.int_flux / truth['int'] - 1)
    m['flags'] = int(s.flags)
    # the integrated flux recomputed with the REPORTED psf (int_flux_identity), relative to the code's value
    if s.psf_a > 0 and s.psf_b > 0 and s.int_flux != 0:
        m['dint_identity'] = float(s.peak_flux * s.a * s.b / (s.psf_a * s.psf_b) / s.int_flux - 1)
        m['psf_area_ratio'] = float(s.psf_a * s.psf_b / (c['beam'][0] * c['beam'][1] * 3600.0 ** 2))
    m['got'] = [float(v) for v in (s.ra, s.dec, s.a, s.b, s.pa, s.peak_flux, s.int_flux, s.psf_a, s.psf_b)]
    if not all(np.isfinite(m['got'])):
        bad.append('nonfinite')
        return bad, m
    if not (-90.0 < s.pa <= 90.0):
        bad.append('pa_range')
    if not (s.a >= s.b):
        bad.append('a_ge_b')
    if not (0.0 <= s.ra < 360.0):
        bad.append('ra_range')
    if m['dpos'] > TOL['pos']:
        bad.append('pos')
    if abs(m['dpeak']) > TOL['peak']:
        bad.append('peak')
    if abs(m['da']) > TOL['a']:
        bad.append('a')
    if abs(m['db']) > TOL['b']:
        bad.append('b')
    if c['b'] / c['a'] <= 0.95 and abs(m['dpa']) > TOL['pa']:   # the PA of a (nearly) circular source is undefined
        bad.append('pa')
    if abs(m['dint']) > TOL['int']:
        bad.append('int')
    return bad, m


def signature(c, bad, m, img):
    sig = dict(site='find_sources_in_image', clauses='+'.join(bad), proj=c['proj'])
    if bad == ['int'] and 'psf_area_ratio' in m and abs((1 + m['dint']) * m['psf_area_ratio'] - 1) <= 1e-3 \
            and abs(m['psf_area_ratio'] - 1) > 1e-3:
        # everything else is recovered and the flux is exactly the injected one times BMAJ*BMIN/(psf_a*psf_b)
        sig = dict(site='WCSHelper.get_beamarea_pix', clause='int_flux', cause='pixel-beam-of-reference-pixel')
    elif bad == ['count'] and m.get('split'):
        sig = dict(site='estimate_lmfit_parinfo', what='component-count', split_summit=True, cause='pixel-corner-or-ridge')
    elif 'peak' in bad and img is not None and not c.get('bane') and amp_bound_binding(c, img):
        sig = dict(site='estimate_lmfit_parinfo', clause='peak', cause='amp-bound-below-true-peak')
    return sig


def pretty(c):
    px = c['scale'] * 3600
    return (f"{c['proj']} {c['n'][0]}x{c['n'][1]} scale={px:g}\" crval=({c['crval'][0]:.4f},{c['crval'][1]:.4f}) "
            f"crpix=({c['crpix'][0]:.2f},{c['crpix'][1]:.2f}) beam=({c['beam'][0] / c['scale']:.2f},{c['beam'][1] / c['scale']:.2f})px@{c['beam'][2]:.1f} "
            f"src xy=({c['xy'][0]:.3f},{c['xy'][1]:.3f}) a={c['a'] / px:.2f}px b={c['b'] / px:.2f}px pa={c['pa']:.2f} peak={c['peak']:.4g} "
            f"docov={c['docov']} snr={c['snr']:g}" + (' bane' if c.get('bane') else '') + (f" noise={c['noise']:g}" if c.get('noise') else '')
            + (f" opts={c['opts']}" if c.get('opts') else '') + (f" pedestal={c['pedestal']:g}" if c.get('pedestal') else '')
            + (' symmetric' if c.get('symmetric') else '') + (' judged' if c.get('judged') else '')
            + (' SIP' + json.dumps(c['sip']) if c.get('sip') else '') + (' input=' + c['input'] if c.get('input') else ''))


def loop_case(ctx, c, record=True):
    """run one closed-loop case; returns (bad, m)"""
    _quiet()
    img, h, w, truth = render(c)
    if c.get('symmetric'):
        img = symmetrize(img, c['xy'])
    data = img
    if c.get('noise'):
        rs = np.random.RandomState(c.get('noise_seed', 0))
        if c.get('noise_kind') == 'white':
            data = img + rs.normal(0.0, c['noise'], img.shape)
        else:
            data = img + correlated_noise(rs, img.shape, c, c['noise'])
    if c.get('pedestal'):
        data = data + float(c['pedestal'])
    try:
        if c.get('opts'):
            out = find_in_child(CASE_TIMEOUT, ctx, c, data, h)
        else:
            out = with_timeout(CASE_TIMEOUT, find, ctx, c, data, h)
    except Exception as e:  # the finder must not raise (or stall) on a valid image
        if record:
            ctx.case(c)
            sig = dict(site='find_sources_in_image', clauses='raises')
            if c.get('input') == 'hdulist' and isinstance(e, (TypeError, RuntimeError)) and 'CaseTimeout' not in str(e):
                sig = dict(site='find_sources_in_image', clauses='raises', input='hdulist', error='TypeError')
            report(ctx, 'spec', dict(c, pretty=pretty(c)), f"find_sources_in_image raised {type(e).__name__}: {e}", sig)
        return ['raises'], {}
    if c.get('noise') and not c.get('exact'):
        return judge_noisy(ctx, c, truth, w, out, record)
    bad, m = judge(c, truth, w, out, img)
    if record and getattr(ctx, '_c01_capture', None):
        check_bounds(ctx, c, truth, ctx._c01_capture)
    if record:
        fx, fy = abs(c['xy'][0] - round(c['xy'][0])), abs(c['xy'][1] - round(c['xy'][1]))
        nontriv = (max(fx, fy) > 0.02) and (c['b'] < c['a'] or c['pa'] % 90 != 0) and len(out) >= 1
        ctx.case(dict(c, pretty=pretty(c), measured={k: v for k, v in m.items() if k != 'got'}),
                 json.dumps(c, sort_keys=True) if nontriv else None, sample_every=40)
        ctx.count('proj:' + c['proj'])
        ctx.count('docov:%s' % c['docov'])
        ctx.count('sign:' + ('+' if c['peak'] > 0 else '-'))
        ctx.count('dec>=60' if abs(c['crval'][1]) >= 60 else 'dec<60')
        if c.get('opts'):
            ctx.count('opts:' + c['opts'] + (':pedestal' if c.get('pedestal') else ''))
        if c.get('symmetric'):
            ctx.count('exact-pixel-corner')
        if c['a'] / c['b'] >= 3.0:
            ctx.count('axis-ratio>=3')
        if c.get('kind'):
            ctx.count('kind:' + c['kind'])
        if bad:
            report(ctx, 'spec', dict(c, pretty=pretty(c)),
                   dict(failed=bad, measured=m, truth=truth, tolerances=TOL), signature(c, bad, m, img))
    return bad, m


def check_bounds(ctx, c, truth, cap):
    """bounds stream, one isolated source = one island with one summit:
    (corr) the bounds estimate_lmfit_parinfo set equal the regenerated model's (driver op `bounds`);
    (spec) the TRUE pixel-space parameters lie inside them (truth_within_bounds_pos/neg), beyond the property's tolerances"""
    from AegeanTools import source_finder
    recs = [r for r in cap if r['ncomp'] == 1]
    del cap[:]
    if len(recs) != 1:
        return
    r = recs[0]
    f2c = source_finder.FWHM2CC
    args = [LN2, f2c, r['amp'][0], r['rms'], r['innerclip'], r['outerclip'], r['pixbeam'][0], r['pixbeam'][1],
            float(r['shape'][0]), float(r['shape'][1])]
    o = ctx.driver.batch(['bounds ' + ' '.join(f2h(v) for v in args)])[0]
    info = dict(case=pretty(c), captured=r)
    ctx.count('bounds')
    if o == 'bad-op':
        ctx.fail('corr', info, 'driver rejected the bounds request', dict(site='estimate_lmfit_parinfo', what='bounds-op'))
        return
    g = [h2f(t) for t in o.split()]
    want = [None, r['amp'][1], r['amp'][2], r['xo'][2] - r['xo'][0], r['sx'][0], r['sy'][0], r['sx'][1], r['sx'][2], r['sy'][1], r['sy'][2]]
    names = ['sampling', 'amp_min', 'amp_max', 'xo_lim', 'sx', 'sy', 'sx_min', 'sx_max', 'sy_min', 'sy_max']
    diff = [n for n, a, b in zip(names, g, want) if b is not None and not close(a, b, rel=1e-11, abs_=1e-13)]
    if abs((r['yo'][2] - r['yo'][0]) - (r['xo'][2] - r['xo'][0])) > 1e-12 or abs((r['xo'][0] - r['xo'][1]) - (r['xo'][2] - r['xo'][0])) > 1e-12:
        diff.append('xo/yo limits not symmetric and equal')
    if not (math.isinf(r['theta'][1]) and math.isinf(r['theta'][2])):
        diff.append('theta bounded')
    ctx.case(dict(info, model=dict(zip(names, g))), 'bounds:' + pretty(c))
    if diff:
        ctx.fail('corr', info, f"bounds set by estimate_lmfit_parinfo differ from the regenerated model in {diff}: model {dict(zip(names, g))}",
                 dict(site='estimate_lmfit_parinfo', what='bounds'))
        return
    # the truth, in the island's pixel coordinates
    wh = ctx._c01_wcshelper
    x, y, fx, fy, th = [float(v) for v in wh.sky2pix_ellipse((truth['ra'], truth['dec']), truth['a'] / 3600.0, truth['b'] / 3600.0, truth['pa'])]
    t = dict(amp=truth['peak'], xo=x - 1 - r['offsets'][0], yo=y - 1 - r['offsets'][1], sx=fx * f2c, sy=fy * f2c)
    out_of = []
    if not (r['amp'][1] - 1e-3 * abs(t['amp']) <= t['amp'] <= r['amp'][2] + 1e-3 * abs(t['amp'])):
        out_of.append('amp')
    for k in ('xo', 'yo'):
        if not (r[k][1] - 0.02 <= t[k] <= r[k][2] + 0.02):
            out_of.append(k)
    for k in ('sx', 'sy'):
        if not (r[k][1] * 0.995 <= t[k] <= r[k][2] * 1.005):
            out_of.append(k)
    if out_of:
        report(ctx, 'spec', dict(c, pretty=pretty(c)),
               dict(failed=['truth-outside-bounds:' + '+'.join(out_of)], truth_pixel=t, bounds={k: r[k] for k in ('amp', 'xo', 'yo', 'sx', 'sy')},
                    note='the true parameters are excluded by the bounds handed to lmfit by more than the tolerance of the clause'),
               dict(site='estimate_lmfit_parinfo', clause='truth-outside-bounds', which='+'.join(out_of)))


def judge_noisy(ctx, c, truth, w, out, record):
    """noisy clause: the component nearest the truth is within 5 reported standard errors (exploration)"""
    m = dict(n=len(out))
    if not out:
        bad = ['count']
    else:
        s = min(out, key=lambda s: sph_offsets(truth['ra'], truth['dec'], s.ra, s.dec)[0])
        r, phi = sph_offsets(truth['ra'], truth['dec'], s.ra, s.dec)
        dra = r * math.sin(math.radians(phi))
        ddec = r * math.cos(math.radians(phi))
        dev = dict(peak=(s.peak_flux - truth['peak'], s.err_peak_flux), a=(s.a - truth['a'], s.err_a),
                   b=(s.b - truth['b'], s.err_b), ra=(dra, s.err_ra), dec=(ddec, s.err_dec),
                   int=(s.int_flux - truth['int'], s.err_int_flux))
        if c['b'] / c['a'] <= 0.8:
            dev['pa'] = ((s.pa - truth['pa'] + 90.0) % 180.0 - 90.0, s.err_pa)
        bad = []
        for k, (d, e) in dev.items():
            if e is None or not np.isfinite(e) or e <= 0:
                m['nsig_' + k] = None
                continue
            m['nsig_' + k] = float(abs(d) / e)
            if abs(d) > 5 * e:
                bad.append(k)
        if len(out) != 1:
            bad.append('count')
        m['flags'] = int(s.flags)
    if c.get('judged'):
        # the part of the noisy clause whose error model is sound: position and peak flux (white noise, docov off);
        # a, b (open finding C01-err-a-b-not-fwhm), pa and int stay exploration-only
        jbad = [k for k in bad if k in ('ra', 'dec', 'peak', 'count')]
        if record:
            ctx.case(dict(c, pretty=pretty(c), measured=m), json.dumps(c, sort_keys=True))
            ctx.count('noisy-judged:runs')
            ctx.count('opts:' + (c.get('opts') or 'ff') + ':noisy')
            if jbad:
                ctx.fail('spec', dict(c, pretty=pretty(c)),
                         dict(failed=jbad, measured=m, truth=truth, criterion='|value - truth| <= 5 reported standard errors '
                              '(ra, dec, peak) and exactly one component'),
                         dict(site='find_sources_in_image', clause='noisy-5-sigma', which='+'.join(jbad), opts=c.get('opts') or 'ff'))
        return jbad, m
    if record:
        ctx.case(dict(c, pretty=pretty(c), measured=m))
        ctx.count('noisy:runs')
        for k in bad:
            ctx.count('noisy:beyond5sigma:' + k)
    return bad, m


# ------------------------------------------------------------------------------------------------
# generators


def gen_case(rng, quick=True, hard=False):
    proj = rng.choice(PROJS)
    scale = rng.choice([1.0, 5.0, 10.0, 30.0, 60.0]) / 3600.0
    nx, ny = rng.choice([(72, 64), (96, 80), (110, 128)])
    bpp = rng.uniform(2.6, 4.5)                                  # beam major FWHM, pixels
    bratio = rng.choice([1.0, rng.uniform(0.6, 1.0)])
    bpa = rng.choice([0.0, rng.uniform(-90.0, 90.0)])
    beam = (bpp * scale, bpp * bratio * scale, bpa)
    amax = 2.2 if quick else 3.0
    a = beam[0] * 3600.0 * rng.choice([1.0, rng.uniform(1.0, amax)])
    b = a * rng.choice([1.0, rng.uniform(0.35 if hard else 0.45, 1.0)])
    b = min(a, max(b, beam[0] * 3600.0))                         # a >= b >= beam (major axis of the beam)
    pa = rng.choice([0.0, 90.0, 45.0, -89.5, 35.0, rng.uniform(-89.99, 90.0), rng.uniform(-89.99, 90.0)])
    dec0 = rng.choice([0.0, -30.0, 60.0, 85.0, -85.0, rng.uniform(-85.0, 85.0)])
    ra0 = rng.choice([0.0, 359.995, 0.004, 180.0, rng.uniform(0.0, 360.0)])
    margin = 2.0 * a / 3600.0 / scale + 3.0
    x = rng.uniform(margin, nx - margin)
    y = rng.uniform(margin, ny - margin)
    if rng.random() < 0.15:
        x, y = round(x) + 0.5, round(y) + 0.5                    # pixel corner: the largest pixelisation loss
    peak = rng.choice([1.0, -1.0, rng.uniform(0.01, 100.0), -rng.uniform(0.01, 100.0)])
    crpix = rng.choice([(nx / 2.0, ny / 2.0), (1.0, 1.0), (nx / 2.0 + 0.5, ny / 2.0 + 0.5),
                        (rng.uniform(0, nx), rng.uniform(0, ny)),
                        (rng.uniform(-40.0, nx + 40.0), rng.uniform(-40.0, ny + 40.0))])
    c = dict(proj=proj, n=[nx, ny], crval=[ra0, dec0], crpix=[crpix[0], crpix[1]], scale=scale,
             beam=[beam[0], beam[1], beam[2]], xy=[x, y], a=a, b=b, pa=pa, peak=peak,
             docov=rng.random() < 0.5, snr=rng.choice([200.0, 50.0, 1000.0]))
    u = rng.random()
    if u < 0.05:
        # centred EXACTLY on a pixel corner, mirror pixels bit-equal (open finding C01-split-summit)
        c['xy'] = [round(x) + 0.5, round(y) + 0.5]
        c['symmetric'] = True
    elif u < 0.12:
        thin_aligned(rng, c)
    elif u < 0.17:
        coarse_beam_corner(rng, c)
    elif u < 0.19:
        # a thin oblique ridge: axis ratio 3..5 (open finding C01-split-summit)
        c['n'] = [128, 120]
        c['a'] = beam[0] * 3600.0 * rng.uniform(3.0, 4.5)
        c['b'] = beam[0] * 3600.0
        c['pa'] = rng.choice([30.0, -60.0, rng.uniform(-89.0, 89.0)])
        c['xy'] = [rng.uniform(50.0, 78.0), rng.uniform(50.0, 70.0)]
        c['docov'] = False
    return c


def thin_aligned(rng, c):
    """axis ratio 3 ... 6.5 with the major axis on or within a few degrees of a pixel axis (PA 0 / 90: CDELT1 = -CDELT2, no
    rotation), circular beam, minor axis = beam; forced S/N 20 ... 200 (the island, hence the shape limits, shrink with S/N)"""
    s = c['scale']
    bpx = rng.uniform(2.8, 3.6)
    c['beam'] = [bpx * s, bpx * s, 0.0]
    ratio = rng.uniform(3.0, 6.5)
    c['b'] = bpx * s * 3600.0
    c['a'] = ratio * c['b']
    c['pa'] = rng.choice([0.0, 90.0, 0.0, 90.0, rng.uniform(-4.0, 4.0), 90.0 - rng.uniform(0.0, 4.0), -90.0 + rng.uniform(0.01, 4.0)])
    half = 0.8 * ratio * bpx + 6.0
    c['n'] = [int(2 * half + 40), int(2 * half + 34)]
    c['crpix'] = [c['n'][0] / 2.0, c['n'][1] / 2.0]
    c['xy'] = [c['n'][0] / 2.0 + rng.uniform(-8, 8), c['n'][1] / 2.0 + rng.uniform(-8, 8)]
    c['docov'] = False
    c['snr'] = rng.choice([20.0, 100.0, 200.0])
    c['kind'] = 'thin-aligned'
    return c


def coarse_beam_corner(rng, c):
    """an elongated beam (a/b 1.5 ... 3) sampled coarsely across its minor axis (2 ... 2.5 px FWHM), a beam-shaped (point)
    source centred near a pixel corner (fractional offsets 0.45 ... 0.55 in x and y), high S/N: the largest pixelisation loss"""
    s = c['scale']
    bmin = rng.uniform(2.0, 2.5)
    bmaj = bmin * rng.uniform(1.5, 3.0)
    bpa = rng.choice([0.0, 90.0, rng.uniform(-90.0, 90.0)])
    c['beam'] = [bmaj * s, bmin * s, bpa]
    c['a'], c['b'], c['pa'] = bmaj * s * 3600.0, bmin * s * 3600.0, bpa if bpa > -90.0 else 90.0
    c['n'] = [72, 64]
    c['crpix'] = [36.0, 32.0]
    c['xy'] = [float(rng.randint(24, 48)) + rng.uniform(0.45, 0.55), float(rng.randint(22, 42)) + rng.uniform(0.45, 0.55)]
    c['snr'] = rng.choice([200.0, 1000.0])
    c['kind'] = 'coarse-beam-corner'
    return c


# the witness of the open known finding: TAN, 60" pixels, reference pixel 330 px from the source
KNOWN_INT_FLUX = dict(proj='TAN', n=[96, 80], crval=[180.0, -30.0], crpix=[-200.0, -150.0], scale=60.0 / 3600.0,
                      beam=[3.0 * 60.0 / 3600.0, 3.0 * 60.0 / 3600.0, 0.0], xy=[50.3, 40.6], a=300.0, b=200.0,
                      pa=35.0, peak=1.0, docov=False, snr=50.0)


# witnesses of the open finding C01-split-summit
KNOWN_SPLIT_CORNER = dict(proj='SIN', n=[96, 80], crval=[180.0, -30.0], crpix=[48.0, 40.0], scale=10.0 / 3600.0,
                          beam=[30.0 / 3600.0, 30.0 / 3600.0, 0.0], xy=[50.5, 40.5], a=60.0, b=35.0, pa=45.0, peak=1.0,
                          docov=False, snr=200.0, symmetric=True)
KNOWN_SPLIT_RIDGE = dict(proj='SIN', n=[128, 120], crval=[180.0, -30.0], crpix=[64.0, 60.0], scale=10.0 / 3600.0,
                         beam=[50.0 / 3600.0, 50.0 / 3600.0, 0.0], xy=[50.3, 40.2], a=200.0, b=50.0, pa=30.0, peak=1.0,
                         docov=False, snr=200.0)


def option_cases(rng):
    """mixed option sets on images sitting on a non-zero pedestal.
    noise-free: rms forced, background estimated internally (BANE's clipped median of a noise-free pedestal is the pedestal).
    noisy, JUDGED (fixed geometry and noise seeds, so the clean tree's verdict does not depend on VERIF_SEED): white noise,
    docov off, S/N 50, |dec| 80..86 in ZEA/ARC/STG, all four option sets; ra, dec, peak within 5 reported sigma."""
    out = []
    for k, proj in enumerate(['SIN', 'TAN', 'ZEA', 'ARC', 'STG', 'SIN']):
        c = gen_case(rng, True)
        c.pop('symmetric', None)
        c.update(proj=proj, n=[128, 128], crpix=[64.0 + k, 60.0], xy=[rng.uniform(40, 90), rng.uniform(40, 90)],
                 opts='fe', pedestal=abs(c['peak']) * rng.choice([0.3, -0.2, 1.0]), docov=False)
        s = c['scale']
        c['beam'] = [3.2 * s, 3.2 * s * rng.uniform(0.7, 1.0), rng.uniform(-90, 90)]
        c['a'] = c['beam'][0] * 3600 * rng.uniform(1.0, 2.0)
        c['b'] = max(c['beam'][0] * 3600, c['a'] * rng.uniform(0.5, 1.0))
        out.append(c)
    fixed = random_fixed()
    for k in range(12):
        proj = ['ZEA', 'ARC', 'STG'][k % 3]
        dec = [84.0, -82.0, 86.0, -80.0][k % 4]
        s = 10.0 / 3600.0
        out.append(dict(proj=proj, n=[128, 128], crval=[fixed.uniform(0, 360), dec], crpix=[64.0, 64.0], scale=s,
                        beam=[3.0 * s, 3.0 * s, 0.0], xy=[fixed.uniform(45, 85), fixed.uniform(45, 85)],
                        a=3.0 * s * 3600 * fixed.uniform(1.0, 1.8), b=3.0 * s * 3600, pa=fixed.uniform(-89, 89),
                        peak=fixed.choice([1.0, -1.0, 7.5]), docov=False, snr=50.0, opts=['ff', 'fe', 'ef', 'ee'][k % 4],
                        noise_kind='white', noise_seed=1000 + k, judged=True))
        c = out[-1]
        c['noise'] = abs(c['peak']) / 50.0
        c['pedestal'] = 0.3 * abs(c['peak'])
    return out


def random_fixed():
    import random
    return random.Random('C01/judged-noisy')


def load_corpus():
    d = os.path.join(common.VERIF, 'corpus', 'C01')
    out = []
    if os.path.isdir(d):
        for fn in sorted(os.listdir(d)):
            if fn.endswith('.json'):
                out.append(json.load(open(os.path.join(d, fn))))
    return out


# ------------------------------------------------------------------------------------------------
# stream: leaves


def corr_leaves(ctx):
    from AegeanTools import fitting, source_finder, AeRes
    rng = ctx.rng
    lines, expect = [], []
    lines.append('consts ' + f2h(LN2))
    expect.append(('consts', [source_finder.CC2FHWM, source_finder.FWHM2CC, AeRes.FWHM2CC], None))
    for _ in range(200 if ctx.quick else 2000):
        x, y = rng.uniform(-5, 40), rng.uniform(-5, 40)
        amp = rng.choice([1.0, rng.uniform(-50, 50)])
        xo, yo = rng.uniform(0, 35), rng.uniform(0, 35)
        sx, sy = rng.uniform(0.5, 8), rng.uniform(0.5, 8)
        th = rng.choice([0.0, 90.0, rng.uniform(-360, 360)])
        lines.append('leaf ' + ' '.join(f2h(v) for v in (x, y, amp, xo, yo, sx, sy, th)))
        g = float(fitting.elliptical_gaussian(x, y, amp, xo, yo, sx, sy, th))
        expect.append(('leaf', [g, g], (x, y, amp, xo, yo, sx, sy, th)))
        f2c, peak = AeRes.FWHM2CC, amp
        lines.append('render ' + ' '.join(f2h(v) for v in (f2c, peak, xo, yo, sx * 2, sy * 2, th, x, y)))
        r = float(fitting.elliptical_gaussian(x, y, peak, xo - 1, yo - 1, sx * 2 * f2c, sy * 2 * f2c, th))
        expect.append(('render', [r, r], (f2c, peak, xo, yo, sx * 2, sy * 2, th, x, y)))
    outs = ctx.driver.batch(lines)
    for line, (op, want, args), o in zip(lines, expect, outs):
        got = [h2f(t) for t in o.split()] if o != 'bad-op' else None
        ctx.case(dict(op=op, args=args))
        if got is None or len(got) != len(want) or not all(close(g, w_, rel=1e-12, abs_=1e-300) for g, w_ in zip(got, want)):
            ctx.fail('corr', dict(op=op, line=line), f"regenerated {op}: driver {got} vs python {want}",
                     dict(site=op, what='translator-validation'))
    ctx.count('leaves', len(lines))


# ------------------------------------------------------------------------------------------------
# stream: residual


class _Captured(Exception):
    pass


def real_residual(data, comps, B):
    """evaluate do_lmfit's own `residual` closure at `comps` (lmfit.minimize is replaced for one call)"""
    import lmfit
    from AegeanTools import fitting
    params = lmfit.Parameters()
    for i, c in enumerate(comps):
        for k, v in zip(('amp', 'xo', 'yo', 'sx', 'sy', 'theta'), c):
            params.add('c%d_%s' % (i, k), value=v)
        params.add('c%d_flags' % i, value=0, vary=False)
    params.add('components', value=len(comps), vary=False)
    box = {}

    class FakeMin(object):
        pass

    def fake_minimize(residual, p, **kw):
        box['r'] = np.array(residual(p, **kw.get('kws', {})), dtype=float)
        box['kw'] = kw
        box['params'] = p
        res = FakeMin()
        res.residual = box['r']
        res.params = p
        return res

    real = fitting.lmfit.minimize
    fitting.lmfit.minimize = fake_minimize
    try:
        fitting.do_lmfit(np.array(data, dtype=float), params, B=B, dojac=True)
    finally:
        fitting.lmfit.minimize = real
    box['kw']['__params__'] = box.get('params')
    return box['r'], box['kw']


def corr_residual(ctx):
    rng = ctx.rng
    from AegeanTools import fitting
    cases = []
    for k in range(40 if ctx.quick else 400):
        rows, cols = rng.randint(1, 7), rng.randint(1, 7)
        ncomp = rng.choice([1, 1, 2, 3])
        comps = [(rng.choice([1.0, rng.uniform(-5, 5)]), rng.uniform(-1, rows), rng.uniform(-1, cols), rng.uniform(0.5, 4),
                  rng.uniform(0.5, 4), rng.choice([0.0, rng.uniform(-200, 200)])) for _ in range(ncomp)]
        mode = rng.choice(['truth', 'random', 'random'])
        truth = comps if mode == 'truth' else [(rng.uniform(-5, 5), rng.uniform(-1, rows), rng.uniform(-1, cols),
                                               rng.uniform(0.5, 4), rng.uniform(0.5, 4), rng.uniform(-200, 200))
                                              for _ in range(rng.choice([1, 2]))]
        data = np.zeros((rows, cols))
        xs, ys = np.indices((rows, cols))
        for c in truth:
            data += fitting.elliptical_gaussian(xs, ys, *c)
        if mode != 'truth':
            data += np.array([[rng.uniform(-0.1, 0.1) for _ in range(cols)] for _ in range(rows)])
        nmask = rng.choice([0, 0, rng.randint(0, rows * cols - 1)])
        for idx in rng.sample(range(rows * cols), nmask):
            data[idx // cols, idx % cols] = np.nan
        npix = int(np.isfinite(data).sum())
        B = None
        if rng.random() < 0.5 and npix > 0:
            B = np.array([[rng.uniform(-2, 2) for _ in range(npix)] for _ in range(npix)])
        cases.append(dict(rows=rows, cols=cols, comps=comps, data=data, B=B, mode=mode, nmask=nmask))
    lines = []
    for c in cases:
        pix = ' '.join('n' if not np.isfinite(v) else f2h(v) for v in c['data'].ravel())
        comps = ' '.join(f2h(v) for comp in c['comps'] for v in comp)
        bs = 'bnone' if c['B'] is None else 'bmat %d %s' % (c['B'].shape[1], ' '.join(f2h(v) for v in c['B'].ravel()))
        lines.append(f"resid {c['rows']} {c['cols']} {len(c['comps'])} {comps} {pix} {bs}")
    outs = ctx.driver.batch(lines)
    for c, line, o in zip(cases, lines, outs):
        r, kw = real_residual(c['data'], c['comps'], c['B'])
        key = None
        if c['nmask'] or c['B'] is not None:
            key = 'resid:' + common.hashlib.sha1(line.encode()).hexdigest()[:16]
        small = dict(rows=c['rows'], cols=c['cols'], comps=c['comps'], mode=c['mode'], nmask=c['nmask'],
                     B=None if c['B'] is None else 'random %dx%d' % c['B'].shape,
                     data=[None if not np.isfinite(v) else float(v) for v in c['data'].ravel()])
        ctx.case(small, key)
        ctx.count('resid:' + c['mode'] + (':B' if c['B'] is not None else ''))
        w = o.split()
        if w[0] in ('bad-op', 'err'):
            ctx.fail('corr', small, f"model rejects what do_lmfit accepts: {o}", dict(site='do_lmfit.residual', what='guard'))
            continue
        got = [h2f(t) for t in w[1:]]
        mr, mss = got[:-1], got[-1]
        scale = 1.0
        if c['B'] is not None:
            d = np.abs(real_residual(c['data'], c['comps'], None)[0])
            scale = float(np.max(np.abs(c['B']).T.dot(d))) if len(d) else 1.0
        ok = int(w[0]) == len(r) == len(mr) and all(abs(a - b) <= 1e-11 * max(1.0, scale, abs(a)) for a, b in zip(mr, r))
        ok = ok and close(mss, float(np.sum(r ** 2)), rel=1e-9, abs_=1e-18 * max(1.0, scale) ** 2)
        if c['mode'] == 'truth' and ok:
            # Spec-level: at the truth the real closure returns (numerically) zero
            if len(r) and float(np.max(np.abs(r))) > 1e-12 * max(1.0, scale):
                ctx.fail('spec', small, f"do_lmfit.residual at the true parameters is not zero: max |r| = {np.max(np.abs(r))}",
                         dict(site='do_lmfit.residual', what='nonzero-at-truth'))
        if not ok:
            ctx.fail('corr', small, f"do_lmfit.residual {list(map(float, r))[:6]}… vs model {mr[:6]}… (len {len(r)} vs {w[0]})",
                     dict(site='do_lmfit.residual', what='values'))
        # lmfit is handed the analytic Jacobian and the mask coordinates as x (rows) / y (columns)
        # (judged by behaviour, not identity: a wrapper that returns the same matrix is fine — the first version of
        #  this check demanded `Dfun is fitting.lmfit_jacobian` and raised a false alarm when fix 207d62e wrapped it)
        dfun, pp = kw.get('Dfun'), kw.get('__params__')
        dfun_ok = callable(dfun)
        if dfun_ok and pp is not None:
            try:
                a = np.asarray(dfun(pp, **kw.get('kws', {})), dtype=float)
                b = np.asarray(fitting.lmfit_jacobian(pp, **kw.get('kws', {})), dtype=float)
                dfun_ok = a.shape == b.shape and np.array_equal(a, b, equal_nan=True)
            except Exception:
                dfun_ok = False
        if not dfun_ok:
            ctx.fail('corr', small, "do_lmfit(dojac=True) does not hand lmfit the analytic Jacobian (Dfun differs from lmfit_jacobian "
                     "on a canonically built Parameters object)", dict(site='do_lmfit', what='Dfun'))
        mk = np.where(np.isfinite(c['data']))
        if not (np.array_equal(kw['kws']['x'], mk[0]) and np.array_equal(kw['kws']['y'], mk[1])):
            ctx.fail('corr', small, "do_lmfit passes different pixel coordinates to the Jacobian than to the model",
                     dict(site='do_lmfit', what='kws'))


# ------------------------------------------------------------------------------------------------
# stream: convert


class _Rec(object):
    """wraps a WCSHelper: records the arguments and results of the two ellipse conversions"""

    def __init__(self, inner):
        object.__setattr__(self, '_inner', inner)
        object.__setattr__(self, 'p2s_calls', [])
        object.__setattr__(self, 's2p_calls', [])

    def __getattr__(self, k):
        return getattr(self._inner, k)

    def pix2sky_ellipse(self, pixel, sx, sy, theta):
        out = self._inner.pix2sky_ellipse(pixel, sx, sy, theta)
        self.p2s_calls.append(([float(pixel[0]), float(pixel[1]), float(sx), float(sy), float(theta)], [float(v) for v in out]))
        return out

    def sky2pix_ellipse(self, pos, a, b, pa):
        out = self._inner.sky2pix_ellipse(pos, a, b, pa)
        self.s2p_calls.append(([float(pos[0]), float(pos[1]), float(a), float(b), float(pa)], [float(v) for v in out]))
        return out


def corr_convert(ctx):
    import lmfit
    from astropy.io import fits
    from AegeanTools import source_finder, AeRes, fitting
    from AegeanTools.source_finder import SourceFinder
    from AegeanTools.models import IslandFittingData, ComponentSource
    rng = ctx.rng
    _quiet()
    todo = []
    nhdr = 6 if ctx.quick else 40
    for _ in range(nhdr):
        c = gen_case(rng, ctx.quick)
        h = make_header(c)
        fn = os.path.join(ctx.tmpdir(), 'c01-conv-%d.fits' % os.getpid())
        fits.PrimaryHDU(data=np.zeros((c['n'][1], c['n'][0])), header=h).writeto(fn, overwrite=True)
        sf = SourceFinder(log=NULLLOG)
        sf.load_globals(fn, rms=1.0, bkg=0.0, cores=1, docov=False)
        rec = _Rec(sf.global_data.wcshelper)
        sf.global_data.wcshelper = rec
        ny, nx = sf.global_data.img.shape
        for _ in range(8):
            xmin, ymin = rng.randint(0, ny - 12), rng.randint(0, nx - 12)
            xmax, ymax = xmin + rng.randint(4, 11), ymin + rng.randint(4, 11)
            fit = dict(amp=rng.choice([1.0, rng.uniform(-20, 20)]), xo=rng.uniform(0, xmax - xmin), yo=rng.uniform(0, ymax - ymin),
                       sx=rng.uniform(0.8, 5), sy=rng.uniform(0.8, 5),
                       theta=rng.choice([0.0, 90.0, rng.uniform(-400, 400), rng.uniform(-180, 180)]))
            model = lmfit.Parameters()
            for k in ('amp', 'xo', 'yo', 'sx', 'sy', 'theta'):
                model.add('c0_' + k, value=fit[k])
                model['c0_' + k].stderr = 0.01
            model.add('c0_flags', value=0, vary=False)
            model.add('components', value=1, vary=False)
            idata = np.ones((xmax - xmin, ymax - ymin))
            isl = IslandFittingData(1, idata, (5, 4, None), (xmin, xmax, ymin, ymax), False)
            res = fitting_dummy()
            del rec.p2s_calls[:]
            srcs = sf.result_to_components(res, model, isl, 0)
            s = srcs[0]
            first = rec.p2s_calls[0]
            area = float(sf.global_data.psfhelper.get_beamarea_pix(s.ra, s.dec))
            todo.append(('tocomp', dict(hdr=pretty(c), xmin=xmin, ymin=ymin, fit=fit), first, area, s))
        # injection conventions
        rec2 = _Rec(sf.global_data.psfhelper)
        for _ in range(4):
            src = ComponentSource()
            x, y = rng.uniform(8, nx - 8), rng.uniform(8, ny - 8)
            src.ra, src.dec = [float(v) for v in rec2.pix2sky((y, x))]
            src.a, src.b, src.pa = rng.uniform(2, 6) * c['scale'] * 3600, rng.uniform(2, 6) * c['scale'] * 3600, rng.uniform(-90, 90)
            src.peak_flux = rng.choice([1.0, rng.uniform(-10, 10)])
            calls = []
            real = fitting.elliptical_gaussian

            def spy(xx, yy, amp, xo, yo, sx, sy, theta):
                calls.append([float(amp), float(xo), float(yo), float(sx), float(sy), float(theta)])
                return real(xx, yy, amp, xo, yo, sx, sy, theta)
            AeRes.fitting.elliptical_gaussian = spy
            try:
                del rec2.s2p_calls[:]
                AeRes.make_model([src], (ny, nx), rec2)
            finally:
                AeRes.fitting.elliptical_gaussian = real
            if calls and rec2.s2p_calls:
                todo.append(('inject', dict(hdr=pretty(c), src=[src.ra, src.dec, src.a, src.b, src.pa, src.peak_flux]),
                             rec2.s2p_calls[0], calls[0], None))
    lines = []
    for kind, info, call, extra, s in todo:
        if kind == 'tocomp':
            f = info['fit']
            args = [source_finder.CC2FHWM, extra, float(info['xmin']), float(info['ymin']), f['amp'], f['xo'], f['yo'], f['sx'], f['sy'],
                    f['theta']] + call[1]
            lines.append('tocomp 64 ' + ' '.join(f2h(v) for v in args))
        else:
            ra, dec, a, b, pa, peak = info['src']
            lines.append('inject ' + ' '.join(f2h(v) for v in [AeRes.FWHM2CC, ra, dec, a, b, pa, peak] + call[1]))
    outs = ctx.driver.batch(lines)
    for (kind, info, call, extra, s), line, o in zip(todo, lines, outs):
        got = [h2f(t) for t in o.split()] if o != 'bad-op' else []
        if kind == 'tocomp':
            swapped = call[1][2] < call[1][3]
            wrapped = not (-90 < (call[1][4] + (90 if swapped else 0)) <= 90)
            ctx.case(info, ('tocomp:' + common.hashlib.sha1(line.encode()).hexdigest()[:16]) if (swapped or wrapped) else None)
            ctx.count('tocomp' + (':swap' if swapped else '') + (':wrap' if wrapped else ''))
            want_args = call[0]
            want = [s.ra, s.dec, s.a, s.b, s.pa, s.peak_flux, s.int_flux]
            ok = len(got) == 15 and all(close(g, w_, rel=1e-12) for g, w_ in zip(got[:5], want_args))
            if not ok:
                ctx.fail('corr', info, f"arguments handed to pix2sky_ellipse: code {want_args} vs model {got[:5]}",
                         dict(site='result_to_components', what='pix2sky_ellipse-arguments'))
                continue
            ok = all(close(g, float(w_), rel=1e-11) for g, w_ in zip(got[5:12], want)) and close(got[12], float(s.int_flux), rel=1e-11)
            if not ok:
                ctx.fail('corr', info, f"reported component: code {[float(v) for v in want]} vs model {got[5:13]}",
                         dict(site='result_to_components', what='reported-values'))
            # Spec-level facts of the conversion on the code's own output
            if not (s.a >= s.b and -90 < s.pa <= 90 and 0 <= s.ra < 360):
                ctx.fail('spec', info, f"reported a={s.a} b={s.b} pa={s.pa} ra={s.ra} violate a>=b, -90<pa<=90, 0<=ra<360",
                         dict(site='result_to_components', what='normalisation'))
        else:
            ctx.case(info)
            ctx.count('inject')
            want_args = call[0]
            ok = len(got) == 11 and all(close(g, w_, rel=1e-12) for g, w_ in zip(got[:5], want_args))
            if not ok:
                ctx.fail('corr', info, f"arguments handed to sky2pix_ellipse: code {want_args} vs model {got[:5]}",
                         dict(site='AeRes.make_model', what='sky2pix_ellipse-arguments'))
                continue
            if not all(close(g, w_, rel=1e-12) for g, w_ in zip(got[5:], extra)):
                ctx.fail('corr', info, f"arguments of elliptical_gaussian in make_model: code {extra} vs model {got[5:]}",
                         dict(site='AeRes.make_model', what='render-arguments'))


def corr_palimit(ctx):
    """`pa_limit` itself, on the loop boundaries and on random angles (the model's loops get 64 iterations of fuel)"""
    from AegeanTools import source_finder
    rng = ctx.rng
    vals = [-90.0, 90.0, 270.0, -270.0, 450.0, -450.0, 0.0, 89.99999999999999, -89.99999999999999, 90.00000000000001,
            -90.00000000000001, 180.0, -180.0, 91.0, -91.0, 1e3, -1e3]
    vals += [rng.uniform(-720, 720) for _ in range(60)] + [float(90 * rng.randint(-12, 12)) for _ in range(20)]
    outs = ctx.driver.batch(['palimit 64 ' + f2h(v) for v in vals])
    for v, o in zip(vals, outs):
        want = float(source_finder.pa_limit(v))
        got = h2f(o) if o != 'bad-op' else None
        ctx.case(dict(op='pa_limit', pa=v), ('palimit:%r' % v) if not (-90 < v <= 90) else None)
        ctx.count('pa_limit')
        if not (-90 < want <= 90) or abs(((want - v) / 180.0) - round((want - v) / 180.0)) > 1e-9:
            ctx.fail('spec', dict(op='pa_limit', pa=v), f"pa_limit({v!r}) = {want!r} is not the representative of pa modulo 180 in (-90, 90]",
                     dict(site='pa_limit', what='range-or-congruence'))
        elif got is None or got != want:
            ctx.fail('corr', dict(op='pa_limit', pa=v), f"pa_limit({v!r}): code {want!r} vs model {got!r}", dict(site='pa_limit', what='value'))


def errors_witness(ctx):
    """Deterministic witness for the noisy clause ("within 5 REPORTED standard errors"): the reported err_a / err_b must
    be the first-order change of the reported a / b when sx / sy move by their pixel-space standard errors.  As coded,
    `fitting.errors` offsets only the x component of a point (sx cos t, sy sin t) by err_sx: no CC2FWHM, a factor |cos t|
    (zero at theta = 90).  Open known finding; run on every check so that the KNOWN-FINDING line is printed."""
    import lmfit
    from astropy.io import fits
    from AegeanTools.source_finder import SourceFinder, CC2FHWM
    from AegeanTools.models import IslandFittingData
    c = dict(proj='SIN', n=[96, 80], crval=[180.0, -30.0], crpix=[48.0, 40.0], scale=10.0 / 3600, beam=[30.0 / 3600, 30.0 / 3600, 0.0])
    fn = os.path.join(ctx.tmpdir(), 'c01-err-%d.fits' % os.getpid())
    fits.PrimaryHDU(data=np.zeros((80, 96)), header=make_header(c)).writeto(fn, overwrite=True)
    sf = SourceFinder(log=NULLLOG)
    sf.load_globals(fn, rms=1.0, bkg=0.0, cores=1, docov=False)
    w = sf.global_data.wcshelper
    for theta in (0.0, 60.0, 90.0):
        fit = dict(amp=1.0, xo=5.0, yo=4.0, sx=3.0, sy=2.0, theta=theta)
        model = lmfit.Parameters()
        for k, v in fit.items():
            model.add('c0_' + k, value=v)
            model['c0_' + k].stderr = 0.05
        model.add('c0_flags', value=0, vary=False)
        model.add('components', value=1, vary=False)
        isl = IslandFittingData(1, np.ones((10, 10)), (5, 4, None), (30, 40, 30, 40), False)
        src = sf.result_to_components(fitting_dummy(), model, isl, 0)[0]
        pix = (5.0 + 30 + 1, 4.0 + 30 + 1)
        e0 = w.pix2sky_ellipse(pix, 3.0 * CC2FHWM, 2.0 * CC2FHWM, theta)
        ea = w.pix2sky_ellipse(pix, 3.05 * CC2FHWM, 2.0 * CC2FHWM, theta)
        eb = w.pix2sky_ellipse(pix, 3.0 * CC2FHWM, 2.05 * CC2FHWM, theta)
        want_a, want_b = abs(ea[2] - e0[2]) * 3600, abs(eb[3] - e0[3]) * 3600
        case = dict(op='errors', header=pretty_hdr(c), fit=fit, stderr=0.05, reported=dict(err_a=float(src.err_a), err_b=float(src.err_b)),
                    first_order=dict(err_a=float(want_a), err_b=float(want_b)))
        ctx.case(case)
        ctx.count('errors-witness')
        if not (0.8 <= src.err_a / want_a <= 1.25 and 0.8 <= src.err_b / want_b <= 1.25):
            report(ctx, 'spec', case, f"theta={theta}: reported err_a={src.err_a:.4g} err_b={src.err_b:.4g} arcsec, but a, b change by "
                   f"{want_a:.4g}, {want_b:.4g} arcsec when sx, sy move by their standard error 0.05 px",
                   dict(site='fitting.errors', clause='err_a_err_b', cause='sigma-not-fwhm-x-component-only'))


def errors_position_witness(ctx):
    """err_ra / err_dec as `fitting.errors` defines them: with ref = pix2sky(x, y) and off = pix2sky(x + err_x, y + err_y),
    err_ra is the great-circle angle between ref and (off.ra, ref.dec) and err_dec the one between ref and (ref.ra, off.dec)
    - true angles on the sky, so the RA error already carries its cos(dec).  Evaluated with astropy and the harness's own
    spherical code at |dec| = 84 (where an extra or missing cos(dec) is a factor 10), three projections."""
    import lmfit
    from astropy.io import fits
    from astropy.wcs import WCS
    from AegeanTools.source_finder import SourceFinder
    from AegeanTools.models import IslandFittingData
    for proj, dec0 in (('ZEA', 84.0), ('ARC', -84.0), ('STG', 84.0), ('SIN', 0.0)):
        c = dict(proj=proj, n=[96, 80], crval=[123.0, dec0], crpix=[48.0, 40.0], scale=10.0 / 3600, beam=[30.0 / 3600, 30.0 / 3600, 0.0])
        h = make_header(c)
        fn = os.path.join(ctx.tmpdir(), 'c01-errpos-%d.fits' % os.getpid())
        fits.PrimaryHDU(data=np.zeros((80, 96)), header=h).writeto(fn, overwrite=True)
        sf = SourceFinder(log=NULLLOG)
        sf.load_globals(fn, rms=1.0, bkg=0.0, cores=1, docov=False)
        w = WCS(h, naxis=2)
        fit = dict(amp=1.0, xo=5.3, yo=4.6, sx=3.0, sy=2.0, theta=20.0)
        err = dict(amp=0.01, xo=0.07, yo=0.04, sx=0.05, sy=0.05, theta=0.5)
        model = lmfit.Parameters()
        for k, v in fit.items():
            model.add('c0_' + k, value=v)
            model['c0_' + k].stderr = err[k]
        model.add('c0_flags', value=0, vary=False)
        model.add('components', value=1, vary=False)
        isl = IslandFittingData(1, np.ones((10, 10)), (5, 4, None), (30, 40, 20, 30), False)
        src = sf.result_to_components(fitting_dummy(), model, isl, 0)[0]
        xp, yp = 5.3 + 30 + 1, 4.6 + 20 + 1                       # (row, column), 1-based
        ref = w.all_pix2world([[yp, xp]], 1)[0]
        off = w.all_pix2world([[yp + err['yo'], xp + err['xo']]], 1)[0]
        want_ra = float(sph_offsets(ref[0], ref[1], off[0], ref[1])[0])
        want_dec = float(sph_offsets(ref[0], ref[1], ref[0], off[1])[0])
        case = dict(op='errors-position', header=pretty_hdr(c), fit=fit, stderr=err,
                    reported=dict(err_ra=float(src.err_ra), err_dec=float(src.err_dec)), expected=dict(err_ra=want_ra, err_dec=want_dec))
        ctx.case(case, 'errpos:' + proj)
        ctx.count('errors-position-witness')
        if not (close(float(src.err_ra), want_ra, rel=1e-6, abs_=1e-12) and close(float(src.err_dec), want_dec, rel=1e-6, abs_=1e-12)):
            ctx.fail('spec', case, f"{proj} dec={dec0}: reported err_ra={src.err_ra:.6g} err_dec={src.err_dec:.6g} deg, but moving the "
                     f"fitted pixel position by its standard errors moves the sky position by {want_ra:.6g} (along RA, as an angle "
                     f"on the sky) and {want_dec:.6g} (Dec)", dict(site='fitting.errors', clause='err_ra_err_dec'))


def pretty_hdr(c):
    return f"{c['proj']} {c['n'][0]}x{c['n'][1]} scale={c['scale'] * 3600:g}\" crval={c['crval']} crpix={c['crpix']}"


def fitting_dummy():
    class D(object):
        residual = np.zeros(3)
        success = True
        errorbars = True
    return D()


# ------------------------------------------------------------------------------------------------
# entry points


def run(ctx):
    common.use_repo()
    _quiet()
    # corpus + the witness of the open known finding first
    for c in [KNOWN_INT_FLUX, KNOWN_SPLIT_CORNER, KNOWN_SPLIT_RIDGE] + load_corpus():
        loop_case(ctx, c)
    stalled = set()
    for c in option_cases(ctx.rng):
        if c.get('opts') in stalled:       # one stalled run per option set is enough evidence; do not wait for the others
            ctx.count('skipped-after-stall:' + c['opts'])
            continue
        bad, _ = loop_case(ctx, c)
        if 'raises' in bad and ctx.failures and 'CaseTimeout' in str(ctx.failures[-1]['detail']):
            stalled.add(c.get('opts'))
    for c in resolved_option_cases(ctx.rng):
        if c.get('opts') in stalled:
            ctx.count('skipped-after-stall:' + c['opts'])
            continue
        bad, _ = loop_case(ctx, c)
        if 'raises' in bad and ctx.failures and 'CaseTimeout' in str(ctx.failures[-1]['detail']):
            stalled.add(c.get('opts'))
    extra = [KNOWN_HDULIST]
    if not any(e.get('id') == 'C01-hdulist-input' for e in common.load_known('C01')):
        # the witness is run (and printed as KNOWN-FINDING) once the fragment known_findings.d/C01.json has been assembled
        ctx.note("open finding C01-hdulist-input is not in known_findings.json yet: its witness is not run")
        extra = []
    for c in map_option_cases(ctx.rng) + sip_cases(ctx.rng) + extra:
        if c.get('opts') in stalled:
            ctx.count('skipped-after-stall:' + c['opts'])
            continue
        bad, _ = loop_case(ctx, c)
        if c.get('sip'):
            ctx.count('sip')
        if 'raises' in bad and ctx.failures and 'CaseTimeout' in str(ctx.failures[-1]['detail']):
            stalled.add(c.get('opts'))
    for c in pair_cases(ctx.rng):
        pair_case(ctx, c)
    loop_case(ctx, LARGE_CASE)
    if not ctx.quick:
        loop_case(ctx, dict(LARGE_CASE, n=[420, 400], crpix=[200.0, 210.0], xy=[207.4, 195.2], a=110.0 * 3.6, b=70.0 * 3.6, pa=-52.0, peak=-2.0))
    sample = [gen_case(ctx.rng, True) for _ in range(6 if ctx.quick else 30)]
    debug_slice(ctx, [KNOWN_INT_FLUX, KNOWN_SPLIT_RIDGE] + [c for c in sample if not c.get('symmetric')]
                + [dict(resolved_option_cases(ctx.rng)[1])])
    corr_leaves(ctx)
    corr_residual(ctx)
    corr_convert(ctx)
    corr_palimit(ctx)
    errors_witness(ctx)
    errors_position_witness(ctx)
    n = 230 if ctx.quick else 1500
    worst = {}
    for k in range(n):
        c = gen_case(ctx.rng, ctx.quick)
        ctx._c01_capture = [] if (k < (80 if ctx.quick else 400) and not c.get('symmetric') and c['a'] / c['b'] < 3.0) else None
        bad, m = loop_case(ctx, c)
        ctx._c01_capture = None
        for q in ('dpos', 'dpeak', 'da', 'db', 'dpa', 'dint', 'dint_identity'):
            if q in m and not (q == 'dpa' and c['b'] / c['a'] > 0.95):
                key = (q, c['proj'])
                if abs(m[q]) > worst.get(key, (0, None))[0]:
                    worst[key] = (abs(m[q]), pretty(c))
    ctx.extra['worst_deviation'] = {f'{q}/{p}': dict(value=v, case=cs) for (q, p), (v, cs) in sorted(worst.items())}
    for q in ('dpos', 'dpeak', 'da', 'db', 'dpa', 'dint', 'dint_identity'):
        vals = [v for (qq, p), (v, _) in worst.items() if qq == q]
        if vals:
            ctx.note(f"closed loop, worst |{q}| over {n} noise-free runs: {max(vals):.3g}")
    if not ctx.quick:
        explore_noisy(ctx)
        build_links(ctx)
    release_deferred(ctx)


def build_links(ctx):
    """thorough tier: compile lean/Aegean/Proofs/C01Links.lean (C16's inverse laws instantiate C01's oracle contract; C17's
    great-circle distance gives the err_ra / err_dec theorem; C04's gauss is C01's gauss) and audit its axioms.  It depends
    on C04, C16 and C17 building on the tree under test; the outcome is reported in the evidence."""
    import re
    ok, log = common.lean_build(['Aegean.Proofs.C01Links'])
    info = dict(built=bool(ok))
    fn = os.path.join(common.LEAN_DIR, 'Aegean', 'Proofs', 'C01Links.lean')
    src = open(fn).read()
    thms = re.findall(r'^theorem\s+(\S+)', src, re.M)
    info['theorems'] = thms
    code = re.sub(r'/-.*?-/', '', src, flags=re.S)
    code = '\n'.join(l.split('--', 1)[0] for l in code.splitlines())
    info['forbidden'] = sorted(set(m.group(0).strip() for m in common.FORBIDDEN.finditer(code)))
    if ok:
        tmp = os.path.join(common.LEAN_DIR, f'.audit_C01Links_{os.getpid()}.lean')
        with open(tmp, 'w') as f:
            f.write('import Aegean.Proofs.C01Links\n' + ''.join(f'#print axioms Aegean.C01Links.{t}\n' for t in thms))
        try:
            rc, out = common.run_cmd(['lake', 'env', 'lean', tmp], cwd=common.LEAN_DIR)
        finally:
            os.unlink(tmp)
        ax = sorted({a.strip() for m in re.finditer(r"depends on axioms: \[([^\]]*)\]", out, re.S) for a in m.group(1).replace('\n', ' ').split(',') if a.strip()})
        info['axioms'] = ax
        info['audited'] = len(re.findall(r"depends on axioms|does not depend on any axioms", out))
        bad = sorted(set(ax) - common.ALLOWED_AXIOMS)
        if bad or info['forbidden'] or info['audited'] != len(thms):
            raise RuntimeError(f"C01Links audit failed: axioms {bad}, forbidden tokens {info['forbidden']}, audited {info['audited']}/{len(thms)}")
        ctx.note(f"C01Links: built, {len(thms)} theorems, axioms {ax}")
    else:
        info['errors'] = common.lean_errors(log)
        ctx.note("C01Links did NOT build on this tree (it needs Aegean.Properties.C04, C16 and C17 to build): " + '; '.join(info['errors'][:3]))
    ctx.extra['links'] = info


def explore_noisy(ctx):
    """thorough tier only, EXPLORATION: beam-correlated Gaussian noise, forced vs internal (BANE) rms/bkg"""
    rng = ctx.rng
    nrun = 120
    for k in range(nrun):
        c = gen_case(rng, True)
        c['n'] = [200, 180]
        c['crpix'] = [100.0, 90.0]
        c['xy'] = [rng.uniform(60, 140), rng.uniform(60, 120)]
        c['snr'] = rng.choice([20.0, 50.0, 100.0])
        c['noise'] = abs(c['peak']) / c['snr']
        c['noise_seed'] = rng.randrange(2 ** 31)
        c['bane'] = rng.random() < 0.5
        loop_case(ctx, c)
    tot = ctx.histogram.get('noisy:runs', 0)
    bad = {k.split(':')[-1]: v for k, v in ctx.histogram.items() if k.startswith('noisy:beyond5sigma:')}
    ctx.note(f"EXPLORATION noisy clause: {tot} runs (beam-correlated noise, SNR 20-100, half with BANE rms/bkg); "
             f"runs with a parameter beyond 5 reported sigma, by parameter: {bad or 'none'}")
    ctx.extra['noisy_exploration'] = dict(runs=tot, beyond_5_sigma=bad,
                                          note='statistics: reported, never a VIOLATION by itself')


def shrink(ctx, c, bad):
    """move a failing closed-loop case towards the plainest one that still fails the same clauses"""
    def fails(cc):
        b, _ = loop_case(ctx, cc, record=False)
        return set(bad) <= set(b)
    steps = [('docov', False), ('peak', 1.0), ('snr', 200.0), ('crval', [180.0, 0.0]), ('proj', 'SIN'),
             ('beam', [c['beam'][0], c['beam'][0], 0.0]), ('pa', 35.0), ('pa', 0.0),
             ('crpix', [c['n'][0] / 2.0, c['n'][1] / 2.0]),
             ('xy', [float(round(c['xy'][0])), float(round(c['xy'][1]))])]
    cur = dict(c)
    for k, v in steps:
        if cur.get(k) == v:
            continue
        t = dict(cur)
        t[k] = v
        try:
            if fails(t):
                cur = t
        except Exception:
            pass
    return cur


def search(ctx):
    """a proof obligation or a correspondence broke: look for a closed-loop input on which the real code violates the
    property.  Elongated, rotated sources at sub-pixel offsets in every projection, both weightings; then shrink."""
    common.use_repo()
    _quiet()
    found = None
    focus = search_focus(ctx)
    if focus:
        ctx.note("search aimed at " + ', '.join(f.__name__ for f in focus) + " (the part of the model that broke)")
    ntarget = (40 if ctx.quick else 200) if focus else 0
    for k in range(ntarget + (60 if ctx.quick else 400)):
        c = gen_case(ctx.rng, True, hard=True)
        if k < ntarget:
            c.pop('symmetric', None)
            c = focus[k % len(focus)](ctx.rng, c)
        elif k - ntarget < 10:   # the plain cases first: they are the easiest to read in a replay
            c.update(proj=PROJS[k % 5], crval=[180.0, -30.0], crpix=[c['n'][0] / 2.0, c['n'][1] / 2.0], pa=35.0,
                     b=max(c['beam'][0] * 3600, 0.6 * c['a']), peak=1.0, docov=(k >= 5), snr=200.0)
        bad, m = loop_case(ctx, c, record=False)
        ctx.evaluations += 1
        if bad:
            img = render(c)[0]
            sig = signature(c, bad, m, img)
            if any(all(sig.get(k) == v for k, v in o.items()) for o in OPEN_SIGS):
                continue
            found = (c, bad)
            break
    if found:
        c, bad = found
        c2 = shrink(ctx, c, bad)
        loop_case(ctx, c2)            # records the failure (kind 'spec') with its measurements
        if not any(f['kind'] == 'spec' for f in ctx.failures):
            loop_case(ctx, c)


def search_focus(ctx):
    """which generators exercise the part of the model that no longer checks: the names of the broken obligations /
    untranslatable leaves (notes written by `check`) and the signatures/details of the correspondence failures"""
    text = ' '.join(ctx.notes) + ' ' + ' '.join(str(f.get('detail')) + str(f.get('signature')) for f in ctx.failures if f['kind'] == 'corr')
    broke = [l for l in text.replace("'", ' ').replace(',', ' ').replace(':', ' ').replace('[', ' ').replace(']', ' ').split()]
    shape = {'sxMax', 'syMax', 'sxMin', 'syMin', 'sxInit', 'syInit', 'sMax_eq_hand', 'sMin_eq_hand', 'sInit_eq_hand',
             'sx_max', 'sy_max', 'sx_min', 'sy_min', 'sx', 'sy'}
    amp = {'sampling', 'ampMinPos', 'ampMaxPos', 'ampMinNeg', 'ampMaxNeg', 'sampling_eq_hand', 'ampMinPos_eq_hand',
           'ampMaxPos_eq_hand', 'ampMinNeg_eq_hand', 'ampMaxNeg_eq_hand', 'amp_min', 'amp_max', 'xoLim', 'xo_lim', 'xoLim_eq_hand'}
    focus = []
    if shape & set(broke):
        focus.append(thin_aligned)
    if amp & set(broke):
        focus.append(coarse_beam_corner)
    return focus


def replay(ctx, rec):
    common.use_repo()
    _quiet()
    c = rec.get('case') or {}
    if isinstance(c, dict) and 'proj' in c and 'xy' in c:
        c = {k: v for k, v in c.items() if k != 'pretty'}
        bad, m = loop_case(ctx, c)
        ctx.note(f"replay: failed clauses {bad}; measured { {k: v for k, v in m.items() if k != 'got'} }")
    else:
        ctx.note("replay: this record is a correspondence/proof record, re-running the whole check")
        run(ctx)
