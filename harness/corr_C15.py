"""
C15 — correspondence + search for `fits_tools.compress` / `fits_tools.expand`
(and the places a compressed file is consumed: `load_image_band`, `SourceFinder._load_aux_image`,
the SR6 command line).

run(ctx):    for a set of (rows, cols, factor, header kind, file | in-memory HDU, image pattern) the
             real compress and expand are run on integer-valued float32 images; then
               * the compressed header + data are compared with the Lean model (`compress` op: regenerated
                 index arithmetic + hand model),
               * the *real* compressed header + data are given to the model's `expand` and the result is
                 compared with the real expanded image (exactly at decimation nodes, float32 tolerance
                 elsewhere) and header,
               * the Spec clauses are evaluated on the real output directly, twice: in numpy
                 (`py_spec`) and by the Lean `Spec.C15.judge` through the driver ('spec' failures),
               * `load_image_band` / `_load_aux_image` on the compressed file must give the image's shape.
             A malformed stream (bad factor, missing scale keywords, tampered BN_* keys, 1-pixel axes)
             checks that the model rejects exactly what the code rejects.
             thorough: the SR6 CLI on the same cases; an exhaustive implementation-vs-Spec sweep.
search(ctx): exhaustive sweep of small (rows, cols, factor), implementation vs Spec only, in
             increasing size so that the first failure is the minimal one.
"""
import itertools
import logging
import os
import warnings

import numpy as np

import common

LEVEL = 'proof'
LEANCHECKER = True
RULE = ("a case is (rows, cols, factor, header kind in {cdelt, cd, mixed, both, cdrot (full rotated CD matrix), pc, crota}, input in {hdu (HDUList), file (str name), path (pathlib.Path), pathlike (another os.PathLike)}, image pattern "
        "in {random, affine, nodal, sparse (zero nodes next to 3e9 nodes, every factor 1..64)}); the real compress and expand are run on it; non-trivial = factor >= 2 (some "
        "pixel is interpolated and the residual bookkeeping is exercised); distinct by (rows, cols, factor, header "
        "kind, input); malformed-stream cases are counted separately in the histogram and are never non-trivial")
ASSUMPTIONS = [
    "history independence is sampled, not proved: the Lean model is a pure function, the implementation is checked by "
    "running shapes that share a compressed shape and factor back to back in one process on the same file names",
    "header cards other than NAXISi, CRPIXi, CDELTi/CDi_i and BN_* are opaque (keyword, raw value) pairs in the model; "
    "the all-cards comparison (round trip: Spec; intermediate compressed header: correspondence) runs on every card "
    "astropy reports, with rotated CD matrices, PC+CDELT and CROTA2 headers among the generated kinds",
    "scipy.interpolate.RegularGridInterpolator(method='linear') is what Model.C15.interp2 says: it raises unless the "
    "grid is strictly ascending and contains every query point, picks the cell [g_i, g_{i+1}] with the largest "
    "i <= m-2 such that g_i <= x, and returns the bilinear combination of the four corner values (sampled by the "
    "expand correspondence on every case, not proved)",
    "exact arithmetic: the theorems are about the model over the reals; the code computes the interpolation in "
    "IEEE double and stores float32 (integer-valued test images make node values and linear cells exact; other "
    "pixels are compared with a float32 tolerance).  NaN propagation (a NaN neighbour turns a node into NaN "
    "through 0*NaN) is outside the model",
    "astropy.io.fits writes and reads back header values and float32 data faithfully",
    "the hand part of the model (decimation, last row/column copy, scipy checks, cell search, bilinear formula, the "
    "glue around the regenerated pieces) is tied to the code only by this sampled correspondence; nx, ny, lcx, lcy, the "
    "node coordinates, the CRPIX / scale formulas and dispatch, and the BN_* bookkeeping are regenerated from source "
    "on every run",
    "int(lc/factor) in expand is Python float division: the theorem that it is 0 is kernel-evaluated for every "
    "factor 1..64 and residual < factor (the property's range); for larger factors the theorems are about the "
    "same expression with the quotient taken in Nat",
]
TRUSTED = ["Gen.C15.nxOf/nyOf/lcxOf/lcyOf regenerated from fits_tools.compress and Gen.C15.nodeRow/nodeCol from "
           "fits_tools.expand by py2lean.py (int mode; np.arange(n) translated element-wise)",
           "Gen.C15.crpixC1..crpixE2, keyC1..keyE2, upA1..dnB2, bnCfac..bnRpx2, outRows/outCols, bnDeleted: slices cut "
           "from compress/expand by translator/targets/C15.py (conservative: anything unrecognised is UNTRANSLATABLE "
           "and the hand fallback stands in), translated by py2lean.py; tied to the code additionally by the header "
           "correspondence of every case (the driver evaluates the regenerated pieces)",
           "scipy RegularGridInterpolator, astropy.io.fits"]
PARTIAL = []

CRPIX = (3.0, 5.5)
SCALE = (-0.0125, 0.03125)


# ---------------------------------------------------------------------------------------------
# building cases
# ---------------------------------------------------------------------------------------------

def make_image(rows, cols, f, pattern, seed):
    rng = np.random.RandomState(seed % (2 ** 31))
    if pattern == 'sparse':
        # a count map: zeros and a few small counts, with 3e9 (exact in float32) on every other decimation node, so
        # that every zero node has a bright predecessor node along rows and along columns: any leakage eps * 3e9
        # from a neighbouring node is visible exactly (family: k*f*(1/f) != k)
        r, c = np.mgrid[0:rows, 0:cols]
        img = rng.randint(0, 4, (rows, cols)).astype(np.float64)
        node = (r % f == 0) & (c % f == 0)
        bright = ((r // f + c // f) % 2 == 0)
        img = np.where(node, np.where(bright, 3e9, 0.0), img)
        return np.array(img, dtype=np.float32)
    if pattern == 'affine':
        a, b, g = rng.randint(-50, 50, 3)
        r, c = np.mgrid[0:rows, 0:cols]
        img = a + b * r + g * c
    elif pattern == 'nodal':
        # what BANE writes: values at the nodes k*f, bilinear in between (node values are multiples of f*f so
        # that every pixel is an integer); rows/columns beyond the last node are filled at random
        nr, nc = (rows - 1) // f + 2, (cols - 1) // f + 2
        nodes = rng.randint(-40, 40, (nr, nc)).astype(np.int64) * f * f
        r, c = np.mgrid[0:rows, 0:cols]
        i, j = r // f, c // f
        dy, dx = r - i * f, c - j * f
        img = ((f - dy) * (f - dx) * nodes[i, j] + (f - dy) * dx * nodes[i, j + 1]
               + dy * (f - dx) * nodes[i + 1, j] + dy * dx * nodes[i + 1, j + 1]) // (f * f)
        lr, lc = ((rows - 1) // f) * f, ((cols - 1) // f) * f     # last decimation node on each axis
        noise = rng.randint(-1000, 1000, (rows, cols))
        img = np.where((r > lr) | (c > lc), noise, img)
    else:
        img = rng.randint(-1000, 1000, (rows, cols))
    return np.array(img, dtype=np.float32)


def make_hdulist(img, kind, extra=None):
    from astropy.io import fits
    hdu = fits.PrimaryHDU(np.array(img, dtype=np.float32))
    hdu.header['CTYPE1'] = 'RA---SIN'
    hdu.header['CTYPE2'] = 'DEC--SIN'
    hdu.header['CRVAL1'] = 30.0
    hdu.header['CRVAL2'] = -20.0
    hdu.header['CRPIX1'] = CRPIX[0]
    hdu.header['CRPIX2'] = CRPIX[1]
    if kind in ('cdelt', 'both'):
        hdu.header['CDELT1'] = SCALE[0]
        hdu.header['CDELT2'] = SCALE[1]
    if kind in ('cd', 'both'):
        hdu.header['CD1_1'] = SCALE[0] * 2
        hdu.header['CD2_2'] = SCALE[1] * 2
        hdu.header['CD1_2'] = 0.0
        hdu.header['CD2_1'] = 0.0
    if kind == 'mixed':
        hdu.header['CD1_1'] = SCALE[0]
        hdu.header['CDELT2'] = SCALE[1]
    if kind == 'cdrot':        # rotated / skewed image: full CD matrix, no CDELT
        hdu.header['CD1_1'] = -0.0121
        hdu.header['CD1_2'] = 0.0043
        hdu.header['CD2_1'] = 0.0039
        hdu.header['CD2_2'] = 0.0117
    if kind == 'pc':           # PC matrix + CDELT
        hdu.header['CDELT1'] = SCALE[0]
        hdu.header['CDELT2'] = SCALE[1]
        hdu.header['PC1_1'] = 0.9396926207859084
        hdu.header['PC1_2'] = -0.3420201433256687
        hdu.header['PC2_1'] = 0.3420201433256687
        hdu.header['PC2_2'] = 0.9396926207859084
    if kind == 'crota':        # AIPS convention
        hdu.header['CDELT1'] = SCALE[0]
        hdu.header['CDELT2'] = SCALE[1]
        hdu.header['CROTA2'] = 23.5
        hdu.header['BUNIT'] = 'Jy/beam'
        hdu.header['BMAJ'] = 0.05
    if kind == 'no1':
        hdu.header['CDELT2'] = SCALE[1]
    if kind == 'no2':
        hdu.header['CDELT1'] = SCALE[0]
    for k, v in (extra or {}).items():
        hdu.header[k] = v
    return fits.HDUList([hdu])


TOUCHED = {'NAXIS1', 'NAXIS2', 'CRPIX1', 'CRPIX2', 'CDELT1', 'CD1_1', 'CDELT2', 'CD2_2'}


def enc(v):
    """a card value as one token, bit-exact for floats"""
    if isinstance(v, (bool, np.bool_)):
        return 'bT' if v else 'bF'
    if isinstance(v, (int, np.integer)):
        return 'i%d' % int(v)
    if isinstance(v, (float, np.floating)):
        return 'f' + common.f2h(v)
    return 's' + str(v).encode('utf8').hex()


def other_cards(h):
    """every card that compress/expand are not supposed to touch: {keyword: encoded value}.  HISTORY (both
    functions append to it), COMMENT/blank and BN_* are excluded."""
    out = {}
    for card in h.cards:
        k = card.keyword
        if k in TOUCHED or k in ('HISTORY', 'COMMENT', '') or k.startswith('BN_') or ' ' in k:
            continue
        out[k] = enc(card.value)
    return out


def hdr_tokens(h, shape=None):
    """the model's view of a header: HDR BN tokens"""
    def opt(k):
        return common.f2h(h[k]) if k in h else '-'
    bnkeys = ['BN_CFAC', 'BN_NPX1', 'BN_NPX2', 'BN_RPX1', 'BN_RPX2']
    if all(k in h for k in bnkeys):
        bn = 'bn ' + ' '.join(str(int(h[k])) for k in bnkeys)
    else:
        bn = 'nobn'
    oc = other_cards(h)
    other = f"other {len(oc)}" + ''.join(f" {k} {v}" for k, v in oc.items())
    return (f"{int(h['NAXIS1'])} {int(h['NAXIS2'])} {common.f2h(h['CRPIX1'])} {common.f2h(h['CRPIX2'])} "
            f"{opt('CDELT1')} {opt('CD1_1')} {opt('CDELT2')} {opt('CD2_2')} {bn} {other}")


def px_tokens(data):
    flat = np.asarray(data, dtype=np.float64).ravel()
    out = []
    for v in flat:
        if v == v and abs(v) < 2 ** 31 and v == int(v):
            out.append(str(int(v)))
        else:
            out.append(common.f2h(v))
    return ' '.join(out)


def parse_result(line):
    """model answer -> ('err', token) | ('ok', rows, cols, hdr dict, data float64 array)"""
    w = line.split()
    if w[0] != 'ok':
        return ('err', w[1] if len(w) > 1 else w[0])
    rows, cols = int(w[1]), int(w[2])
    hdr = dict(NAXIS1=int(w[3]), NAXIS2=int(w[4]), CRPIX1=common.h2f(w[5]), CRPIX2=common.h2f(w[6]))
    for key, tok in zip(['CDELT1', 'CD1_1', 'CDELT2', 'CD2_2'], w[7:11]):
        if tok != '-':
            hdr[key] = common.h2f(tok)
    k = 11
    if w[k] == 'bn':
        for key, tok in zip(['BN_CFAC', 'BN_NPX1', 'BN_NPX2', 'BN_RPX1', 'BN_RPX2'], w[k + 1:k + 6]):
            hdr[key] = int(tok)
        k += 6
    else:
        k += 1
    assert w[k] == 'other', line[:200]
    n = int(w[k + 1])
    hdr['__other__'] = {w[k + 2 + 2 * i]: w[k + 3 + 2 * i] for i in range(n)}
    k += 2 + 2 * n
    data = np.array([common.h2f(t) for t in w[k:]], dtype=np.float64).reshape(rows, cols)
    return ('ok', rows, cols, hdr, data)


HKEYS = ['NAXIS1', 'NAXIS2', 'CRPIX1', 'CRPIX2', 'CDELT1', 'CD1_1', 'CDELT2', 'CD2_2',
         'BN_CFAC', 'BN_NPX1', 'BN_NPX2', 'BN_RPX1', 'BN_RPX2']


def hdr_view(h):
    v = {k: (float(h[k]) if not k.startswith(('NAXIS', 'BN_')) else int(h[k])) for k in HKEYS if k in h}
    v['__other__'] = other_cards(h)
    return v


def dec(tok):
    if tok[0] == 'f':
        return repr(common.h2f(tok[1:]))
    if tok[0] == 's':
        return repr(bytes.fromhex(tok[1:]).decode('utf8'))
    return tok[1:]


def hdr_diff(real, model, rel=1e-12):
    """first differing keyword between two header views, or None"""
    for k in HKEYS:
        if (k in real) != (k in model):
            return f"{k}: implementation {'has' if k in real else 'lacks'} it, model {'has' if k in model else 'lacks'} it"
        if k in real:
            a, b = real[k], model[k]
            if isinstance(a, int) and isinstance(b, int):
                if a != b:
                    return f"{k}: implementation {a}, model {b}"
            elif not common.close(float(a), float(b), rel=rel):
                return f"{k}: implementation {a!r}, model {b!r}"
    # every other card: same keywords, bit-identical values
    ro, mo = real.get('__other__'), model.get('__other__')
    if ro is not None and mo is not None:
        for k in list(ro) + [k for k in mo if k not in ro]:
            if (k in ro) != (k in mo):
                return f"{k}: implementation {'has' if k in ro else 'lacks'} it, model {'has' if k in mo else 'lacks'} it"
            if ro[k] != mo[k]:
                return f"{k}: implementation {dec(ro[k])}, model {dec(mo[k])}"
    return None


# ---------------------------------------------------------------------------------------------
# the Spec in numpy (same clauses as lean/Aegean/Spec/C15.lean)
# ---------------------------------------------------------------------------------------------

def sampled(n, f):
    return sorted(set(range(0, n, f)) | {n - 1})


def py_spec(img, f, out):
    """None if every clause holds, else (clause, r, c, text)"""
    rows, cols = img.shape
    if tuple(out.shape) != (rows, cols):
        return ('shape', 0, 0, f"expanded shape {tuple(out.shape)} != original {(rows, cols)}")
    if not np.all(np.isfinite(out)):
        r, c = np.argwhere(~np.isfinite(out))[0]
        return ('range', int(r), int(c), f"non-finite value at ({r},{c})")
    bad = np.argwhere(out[::f, ::f] != img[::f, ::f])
    if len(bad):
        r, c = int(bad[0][0]) * f, int(bad[0][1]) * f
        return ('node', r, c, f"node ({r},{c}): original {img[r, c]!r}, expanded {out[r, c]!r}")
    smp = img[np.ix_(sampled(rows, f), sampled(cols, f))]
    lo, hi = smp.min(), smp.max()
    bad = np.argwhere((out < lo) | (out > hi))
    if len(bad):
        r, c = map(int, bad[0])
        return ('range', r, c, f"pixel ({r},{c}) = {out[r, c]!r} outside the range [{lo!r}, {hi!r}] of the compressed samples")
    im = img.astype(np.int64)
    # the interpolation is done in IEEE double and stored as float32: an exact 0 (or any value reached by
    # cancellation) comes back with an absolute error of a few ulp of the largest corner value
    tol = 1e-10 * max(1.0, float(np.abs(img).max()))
    for I in range((rows - 1) // f):
        for J in range((cols - 1) // f):
            cell = im[I * f:(I + 1) * f + 1, J * f:(J + 1) * f + 1]
            dy, dx = np.mgrid[0:f + 1, 0:f + 1]
            lin = ((f - dy) * (f - dx) * cell[0, 0] + (f - dy) * dx * cell[0, -1]
                   + dy * (f - dx) * cell[-1, 0] + dy * dx * cell[-1, -1])
            if np.array_equal(lin, f * f * cell):
                o = out[I * f:(I + 1) * f + 1, J * f:(J + 1) * f + 1]
                bad = np.argwhere(~(np.abs(o.astype(np.float64) - cell) <= tol))
                if len(bad):
                    r, c = I * f + int(bad[0][0]), J * f + int(bad[0][1])
                    return ('linear', r, c, f"cell ({I},{J}) is linear between nodes but pixel ({r},{c}): original "
                                            f"{img[r, c]!r}, expanded {out[r, c]!r}")
    return None


# ---------------------------------------------------------------------------------------------
# running the implementation
# ---------------------------------------------------------------------------------------------

class Obs:
    pass


class FsPath:
    """a minimal os.PathLike that is neither str nor pathlib.Path"""
    def __init__(self, p):
        self.p = p

    def __fspath__(self):
        return self.p


def as_name(io, p):
    """the object used to NAME a file, per input kind: str, pathlib.Path or another os.PathLike"""
    import pathlib
    if io == 'path':
        return pathlib.Path(p)
    if io == 'pathlike':
        return FsPath(p)
    return p


def relayout(img, layout):
    """the same pixel values in another dtype / byte order / memory layout (what a caller may hand over in an HDU)"""
    if layout == 'F':
        return np.asfortranarray(img)
    if layout == 'f8':
        return img.astype(np.float64)
    if layout == 'be':
        return img.astype('>f4')
    if layout == 'strided':
        big = np.zeros((img.shape[0] * 2, img.shape[1] * 3), dtype=np.float32)
        big[::2, ::3] = img
        return big[::2, ::3]
    if layout == 'i4':
        return img.astype(np.int32)
    return img


def run_impl(ctx, case, want_file_checks=True, fixed_tag=None):
    """compress + expand through the real code; returns an Obs (with .error set if something raised)"""
    from astropy.io import fits
    from AegeanTools import fits_tools
    rows, cols, f, kind, io, pattern = (case[k] for k in ('rows', 'cols', 'f', 'kind', 'io', 'pattern'))
    o = Obs()
    o.img = make_image(rows, cols, f, pattern, case.get('imgseed', 0))
    o.error = None
    hl = make_hdulist(o.img, kind)
    if case.get('layout'):
        hl[0].data = relayout(o.img, case['layout'])
        if case['layout'] in ('f8', 'i4'):      # BITPIX legitimately becomes -32 after the round trip
            hl[0].header['BITPIX'] = -32
    o.hdr0 = hdr_view(hl[0].header)
    if case.get('layout') in ('f8', 'i4'):
        o.hdr0['__other__']['BITPIX'] = enc(-32)
    o.hdr0_tokens = hdr_tokens(hl[0].header)
    tmp = ctx.tmpdir()
    run_impl.n = getattr(run_impl, 'n', 0) + 1
    tag = fixed_tag or f"{run_impl.n}_{rows}_{cols}_{f}_{kind}_{pattern}"
    o.files = []

    def path(prefix):
        if case.get('fname'):          # file NAME under test: <prefix><fname>, optionally relative to the cwd
            p = os.path.join(tmp, prefix + case['fname'])
            return os.path.relpath(p, os.getcwd()) if case.get('relative') else p
        return os.path.join(tmp, f"{prefix}{tag}.fits")
    cpath = path('c_')
    try:
        o.stage = 'compress'
        if io in ('file', 'path', 'pathlike'):
            ipath = path('i_')
            hl.writeto(ipath, overwrite=True)
            epath = path('e_')
            res = fits_tools.compress(as_name(io, ipath), f, as_name(io, cpath))
            if res is None:
                o.error = 'none'
                return o
            with fits.open(cpath) as ch:
                o.chdr, o.cdata = ch[0].header.copy(), np.array(ch[0].data)
            o.stage = 'expand'
            res = fits_tools.expand(as_name(io, cpath), as_name(io, epath))
            if res is None:
                o.error = 'none'
                return o
            with fits.open(epath) as eh:
                o.ehdr, o.edata = eh[0].header.copy(), np.array(eh[0].data)
        else:
            res = fits_tools.compress(hl, f)
            if res is None:
                o.error = 'none'
                return o
            o.chdr, o.cdata = res[0].header.copy(), np.array(res[0].data)
            if want_file_checks:
                res.writeto(cpath, overwrite=True)
            o.stage = 'expand'
            res = fits_tools.expand(res)
            if res is None:
                o.error = 'none'
                return o
            o.ehdr, o.edata = res[0].header.copy(), np.array(res[0].data)
        o.cpath = cpath if (io != 'hdu' or want_file_checks) else None
        o.files = [cpath, path('i_'), path('e_')]
    except Exception as e:  # noqa
        o.error = f"{type(e).__name__}: {e}"
    return o


def sig(what, case, **kw):
    rows, cols, f = case['rows'], case['cols'], case['f']
    s = dict(site='compress/expand', what=what, residual_rows=rows % f != 0, residual_cols=cols % f != 0,
             factor_gt_size=f > min(rows, cols))
    if case.get('io') in ('path', 'pathlike'):
        s['name_type'] = case['io']
    if case.get('layout'):
        s['layout'] = case['layout']
    if case.get('fname'):
        s['file_name'] = 'non-ascii' if any(ord(ch) > 127 for ch in case['fname']) else 'ascii'
    if case.get('history'):
        s['history'] = True        # the case was preceded, in this process, by the calls listed in case['history']
    s.update(kw)
    return s


def classify(case):
    rows, cols, f = case['rows'], case['cols'], case['f']
    if f > min(rows, cols):
        return 'factor>size'
    if rows % f or cols % f:
        return 'residual'
    return 'multiple'


def check_consumers(ctx, case, o):
    """a compressed file is accepted where an uncompressed one is, and yields the image's shape"""
    from AegeanTools import fits_tools
    from AegeanTools.source_finder import SourceFinder
    if not getattr(o, 'cpath', None) or not os.path.exists(o.cpath):
        return
    try:
        name = as_name(case.get('io'), o.cpath)
        data, hdr = fits_tools.load_image_band(name)
        aux = SourceFinder(log=logging.getLogger('verif-C15'))._load_aux_image(o.img, name)
    except Exception as e:  # noqa
        ctx.fail('spec', case, f"a compressed file was rejected on load: {type(e).__name__}: {e}",
                 sig('consumer-raises', case))
        return
    if tuple(data.shape) != o.img.shape or tuple(aux.shape) != o.img.shape or int(hdr['NAXIS2']) != o.img.shape[0] \
            or int(hdr['NAXIS1']) != o.img.shape[1]:
        ctx.fail('spec', case, f"load_image_band on the compressed file gives shape {tuple(data.shape)} "
                 f"(NAXIS2,NAXIS1={hdr['NAXIS2']},{hdr['NAXIS1']}), the image is {o.img.shape}",
                 sig('consumer-shape', case))
    elif hasattr(o, 'edata') and not np.array_equal(np.array(data), o.edata, equal_nan=True):
        ctx.fail('spec', case, "load_image_band on the compressed file differs from expand() of the same file",
                 sig('consumer-values', case))
    ctx.count('consumer-checked')


def run_cases(ctx, cases, use_driver=True, consumers=True):
    """real code on every case; model + Lean Spec through the driver in one batch; judge"""
    obs, lines, slots = [], [], []
    for case in cases:
        o = run_impl(ctx, case, want_file_checks=consumers)
        obs.append(o)
        slot = {}
        if use_driver and ctx.driver_ok:
            slot['compress'] = len(lines)
            lines.append(f"compress {case['f']} {case['rows']} {case['cols']} {o.hdr0_tokens} {px_tokens(o.img)}")
            if o.error is None:
                slot['expand'] = len(lines)
                lines.append(f"expand {o.cdata.shape[0]} {o.cdata.shape[1]} {hdr_tokens(o.chdr)} {px_tokens(o.cdata)}")
                if o.edata.ndim == 2:
                    slot['spec'] = len(lines)
                    lines.append(f"spec {case['f']} {case['rows']} {case['cols']} {o.edata.shape[0]} {o.edata.shape[1]} "
                                 f"{px_tokens(o.img)} {px_tokens(o.edata)}")
        slots.append(slot)
    outs = ctx.driver.batch(lines) if lines else []
    for case, o, slot in zip(cases, obs, slots):
        judge(ctx, case, o, {k: outs[i] for k, i in slot.items()})
        if consumers and o.error is None:
            check_consumers(ctx, case, o)
        for p in getattr(o, 'files', []):
            if os.path.exists(p):
                os.unlink(p)
        cls = classify(case)
        ctx.count(cls)
        ctx.count('hdr:' + case['kind'])
        ctx.count('io:' + case['io'])
        ctx.count('img:' + case['pattern'])
        nt = (case['rows'], case['cols'], case['f'], case['kind'], case['io']) if case['f'] >= 2 else None
        ctx.case(dict(case, residual_class=cls,
                      compressed_shape=list(o.cdata.shape) if o.error is None else None), nontrivial_key=nt,
                 sample_every=211)


def judge(ctx, case, o, ans):
    rows, cols, f = case['rows'], case['cols'], case['f']
    # ---- the implementation must succeed on every valid case (Spec: "succeeds") ----
    if o.error is not None:
        ctx.fail('spec', case, f"{o.stage} failed on a valid input: {o.error}", sig('raises', case, stage=o.stage))
        return
    # ---- Spec on the real output: numpy, then Lean ----
    bad = py_spec(o.img, f, o.edata)
    if bad:
        ctx.fail('spec', dict(case, pixel=[bad[1], bad[2]]), bad[3], sig(bad[0], case))
    kd = hdr_diff({k: v for k, v in hdr_view(o.ehdr).items()}, o.hdr0, rel=1e-9)
    if kd:
        ctx.fail('spec', case, f"keyword not restored after compress+expand: {kd.replace('model', 'original')} "
                 f"(every card other than HISTORY/BN_* must come back; CRPIX and the scale keywords to 1e-9, all others "
                 f"bit-identical)",
                 sig('keywords', case, keyword=kd.split(':')[0]))
    from AegeanTools import fits_tools
    if fits_tools.is_compressed(o.ehdr) or any(k.startswith('BN_') for k in o.ehdr):
        ctx.fail('spec', case, f"BN_* keywords left after expand: {[k for k in o.ehdr if k.startswith('BN_')]}",
                 sig('bn-keys', case))
    if not fits_tools.is_compressed(o.chdr):
        ctx.fail('spec', case, "the compressed header is not recognised by is_compressed()", sig('bn-keys-missing', case))
    if 'spec' in ans:
        a = ans['spec'].split()
        if a[0] == 'ok':
            ctx.count('linear-cells-checked', int(a[1]))
            if bad:
                ctx.fail('corr', case, f"numpy Spec says {bad[0]} violated but the Lean Spec accepts", sig('spec-disagree', case))
        elif a[0] == 'violated':
            if not bad:
                ctx.fail('spec', dict(case, pixel=[int(a[2]), int(a[3])]),
                         f"Lean Spec.C15.judge: clause {a[1]} violated at ({a[2]},{a[3]})", sig(a[1], case))
        else:
            ctx.fail('corr', case, f"driver could not evaluate the Spec: {ans['spec'][:80]}", sig('driver', case))
    # ---- correspondence: compress ----
    if 'compress' in ans:
        m = parse_result(ans['compress'])
        if m[0] == 'err':
            ctx.fail('corr', case, f"model rejects ({m[1]}) an input the implementation compressed", sig('corr-compress-guard', case))
        else:
            _, mr, mc, mh, md = m
            if (mr, mc) != tuple(o.cdata.shape):
                ctx.fail('corr', case, f"compressed shape: implementation {tuple(o.cdata.shape)}, model {(mr, mc)}",
                         sig('corr-compress-shape', case))
            elif not np.array_equal(md, o.cdata.astype(np.float64)):
                r, c = np.argwhere(md != o.cdata)[0]
                ctx.fail('corr', case, f"compressed data differ at ({r},{c}): implementation {o.cdata[r, c]!r}, model {md[r, c]!r}",
                         sig('corr-compress-data', case))
            else:
                d = hdr_diff(hdr_view(o.chdr), mh)
                if d:
                    ctx.fail('corr', case, f"compressed header: {d}", sig('corr-compress-header', case))
    # ---- correspondence: expand (the model is given the real compressed file) ----
    if 'expand' in ans:
        m = parse_result(ans['expand'])
        if m[0] == 'err':
            ctx.fail('corr', case, f"model's expand rejects ({m[1]}) a compressed file the implementation expanded",
                     sig('corr-expand-guard', case))
        else:
            _, mr, mc, mh, md = m
            if (mr, mc) != tuple(o.edata.shape):
                ctx.fail('corr', case, f"expanded shape: implementation {tuple(o.edata.shape)}, model {(mr, mc)}",
                         sig('corr-expand-shape', case))
            else:
                m32 = md.astype(np.float32)
                e = o.edata.astype(np.float64)
                tol = 2e-6 * np.maximum(1.0, np.abs(e))
                diff = np.abs(m32.astype(np.float64) - e)
                nodes = np.zeros(e.shape, bool)
                nodes[::f, ::f] = True
                badpx = np.argwhere((diff > tol) | (nodes & (m32 != o.edata)) | ~np.isfinite(e))
                if len(badpx):
                    r, c = map(int, badpx[0])
                    ctx.fail('corr', dict(case, pixel=[r, c]),
                             f"expanded pixel ({r},{c}): implementation {o.edata[r, c]!r}, model {m32[r, c]!r}",
                             sig('corr-expand-data', case))
                else:
                    ctx.count('pixels-compared', int(e.size))
                    ctx.count('pixels-bit-identical', int((m32 == o.edata).sum()))
                d = hdr_diff(hdr_view(o.ehdr), mh)
                if d:
                    ctx.fail('corr', case, f"expanded header: {d}", sig('corr-expand-header', case))


# ---------------------------------------------------------------------------------------------
# translator self-validation: the regenerated index arithmetic against the Python it came from
# ---------------------------------------------------------------------------------------------

def index_cases(ctx, n):
    rng = ctx.rng
    trip = [(rng.randint(1, 300), rng.randint(1, 300), rng.randint(1, 80)) for _ in range(n)]
    trip += [(r, c, f) for r in (1, 2, 3, 7, 64) for c in (1, 2, 5, 64) for f in (1, 2, 3, 7, 63, 64, 65)]
    lines = [f"idx {r} {c} {f}" for r, c, f in trip]
    nodes = [(rng.randint(0, 70), rng.randint(0, 70), rng.randint(0, 70), rng.randint(1, 70)) for _ in range(n)]
    lines += [f"node {k} {a} {b} {f}" for k, a, b, f in nodes]
    outs = ctx.driver.batch(lines)
    for (r, c, f), out in zip(trip, outs):
        nx, ny = r // f, c // f
        lcx, lcy = r % f, c % f
        if lcx > 0:
            nx += 1
        if lcy > 0:
            ny += 1
        if out.split() != [str(nx), str(ny), str(lcx), str(lcy)]:
            ctx.fail('corr', dict(rows=r, cols=c, f=f), f"regenerated nx ny lcx lcy = {out}, Python gives {nx} {ny} {lcx} {lcy}",
                     dict(site='translator', what='idx'))
        ctx.count('translator-idx')
    for (k, a, b, f), out in zip(nodes, outs[len(trip):]):
        want = [str((k + int(b / f)) * f), str((k + int(a / f)) * f)]
        if out.split() != want:
            ctx.fail('corr', dict(k=k, rpx1=a, rpx2=b, f=f), f"regenerated node coordinates {out}, Python gives {want}",
                     dict(site='translator', what='node'))
        ctx.count('translator-node')


# ---------------------------------------------------------------------------------------------
# malformed stream: what the code rejects, the model rejects, with the same class of error
# ---------------------------------------------------------------------------------------------

def err_class(e):
    if e is None:
        return 'none'
    if isinstance(e, ZeroDivisionError):
        return 'badFactor'
    if isinstance(e, IndexError):
        return 'squeezed'
    if isinstance(e, ValueError) and 'out of bounds' in str(e):
        return 'outOfBounds'
    if isinstance(e, ValueError) and 'strictly' in str(e):
        return 'notAscending'
    if isinstance(e, ValueError) and 'broadcast' in str(e):
        return 'shapeMismatch'
    return 'other:' + type(e).__name__


MODEL_NONE = {'badFactor', 'noScale1', 'noScale2'}      # the code logs an error and returns None


def malformed(ctx):
    from AegeanTools import fits_tools
    rng = ctx.rng
    lines, meta = [], []
    img = make_image(7, 5, 3, 'random', 11)
    prev = logging.root.manager.disable
    logging.disable(logging.CRITICAL)
    try:
        # --- compress: bad factors, missing scale keywords, one-pixel axes ---
        comp = [(0, 'cdelt', (7, 5)), (3, 'no1', (7, 5)), (3, 'no2', (7, 5)), (2, 'cdelt', (1, 6)), (2, 'cd', (6, 1)),
                (1, 'cdelt', (1, 1)), (3, 'both', (7, 5)), (4, 'mixed', (3, 9))]
        for f, kind, shape in comp:
            im = make_image(shape[0], shape[1], max(f, 1), 'random', 5)
            hl = make_hdulist(im, kind)
            tok = hdr_tokens(hl[0].header)
            try:
                res = fits_tools.compress(hl, f)
                got = 'none' if res is None else 'ok'
            except Exception as e:  # noqa
                got = err_class(e)
            lines.append(f"compress {f} {shape[0]} {shape[1]} {tok} {px_tokens(im)}")
            meta.append((dict(op='compress', f=f, kind=kind, shape=list(shape)), got))
        for bad in (-1, 0.3):
            res = fits_tools.compress(make_hdulist(img, 'cdelt'), bad)
            if res is not None:
                ctx.count('malformed-accept/refuse-differs')
                ctx.note(f"out-of-domain factor {bad!r} was accepted by compress (allowed; not a failure)")
            ctx.count('malformed')
        # --- expand: tampered BN_* keys on a genuinely compressed file ---
        for trial in range(10 if ctx.quick else 40):
            rows, cols, f = rng.randint(2, 12), rng.randint(2, 12), rng.randint(1, 9)
            im = make_image(rows, cols, f, 'random', trial)
            ch = fits_tools.compress(make_hdulist(im, rng.choice(['cdelt', 'cd'])), f)
            h = ch[0].header
            tamper = rng.choice(['rpx1', 'rpx2', 'npx1', 'npx2', 'cfac0', 'nobn', 'npx-small', 'noscale', 'cfac'])
            if tamper == 'rpx1':
                h['BN_RPX1'] = f * rng.randint(1, 2)
            elif tamper == 'rpx2':
                h['BN_RPX2'] = f * rng.randint(1, 2) + rng.randint(0, f - 1)
            elif tamper == 'npx1':
                h['BN_NPX1'] = int(h['BN_NPX1']) + f + rng.randint(1, 5)
            elif tamper == 'npx2':
                h['BN_NPX2'] = int(h['BN_NPX2']) + f + rng.randint(1, 5)
            elif tamper == 'npx-small':
                h['BN_NPX1'] = max(1, int(h['BN_NPX1']) - 1)
            elif tamper == 'cfac0':
                h['BN_CFAC'] = 0
            elif tamper == 'cfac':
                h['BN_CFAC'] = f + rng.randint(1, 3)
            elif tamper == 'nobn':
                del h['BN_RPX1']
            elif tamper == 'noscale':
                for k in ('CDELT1', 'CD1_1'):
                    if k in h:
                        del h[k]
            tok = hdr_tokens(h)
            cdata = np.array(ch[0].data)
            lines.append(f"expand {cdata.shape[0]} {cdata.shape[1]} {tok} {px_tokens(cdata)}")
            try:
                res = fits_tools.expand(ch)
                got = 'none' if res is None else ('ok', np.array(res[0].data), hdr_view(res[0].header))
            except Exception as e:  # noqa
                got = err_class(e)
            meta.append((dict(op='expand', tamper=tamper, rows=rows, cols=cols, f=f), got))
    finally:
        logging.disable(prev)
    outs = ctx.driver.batch(lines)
    for (case, got), out in zip(meta, outs):
        m = parse_result(out)
        ctx.count('malformed')
        ctx.count('malformed:' + (got if isinstance(got, str) else 'ok'))
        ctx.case(dict(case, implementation=got if isinstance(got, str) else 'ok', model=out[:40]))
        s = dict(site=case['op'], what='malformed', detail=case.get('tamper', case.get('kind')))
        # Everything in this stream lies OUTSIDE what the property quantifies over (axis < 2, factor <= 0, no scale
        # keyword, tampered BN_* keys).  How such input is refused -- None with an ERROR log, IndexError, ValueError
        # from scipy -- and even whether it is refused is freedom the property leaves, so only this is compared:
        # when BOTH sides accept, they must compute the same thing.  The refusal classes are recorded in the
        # histogram and a disagreement on accept/refuse is a note, not a failure.
        impl_refuses = isinstance(got, str) and got != 'ok'
        model_refuses = m[0] == 'err'
        if impl_refuses or model_refuses:
            if impl_refuses != model_refuses:
                ctx.count('malformed-accept/refuse-differs')
                ctx.note(f"out-of-domain input {case}: implementation {'refuses (' + got + ')' if impl_refuses else 'accepts'}, "
                         f"model {'refuses (' + m[1] + ')' if model_refuses else 'accepts'} (allowed; not a failure)")
            elif (m[1] not in MODEL_NONE) if got == 'none' else (m[1] != got):
                ctx.count('malformed-refusal-class-differs')
        else:
            if m[0] != 'ok':
                ctx.fail('corr', case, f"implementation accepts; model: {out[:60]}", s)
            elif isinstance(got, tuple):
                _, data, hv = got
                if data.shape != m[4].shape or not np.allclose(data, m[4].astype(np.float32), rtol=2e-6, atol=2e-6, equal_nan=True):
                    ctx.fail('corr', case, f"implementation and model expand a tampered file differently "
                                           f"(shapes {data.shape} / {m[4].shape})", s)
                else:
                    if case.get('tamper') == 'nobn':     # returned untouched: the remaining BN_* keys stay
                        hv = {k: v for k, v in hv.items() if not k.startswith('BN_')}
                    if hdr_diff(hv, m[3]):
                        ctx.fail('corr', case, f"tampered file, header: {hdr_diff(hv, m[3])}", s)


# ---------------------------------------------------------------------------------------------
# in-process histories: the answer must be a function of the current input only
# ---------------------------------------------------------------------------------------------

def same_compressed_shape(rng, f, k):
    """up to three different lengths n with ceil(n / f) == k (so they compress to the same k + 1 samples)"""
    cand = [n for n in range(max(2, (k - 1) * f + 1), k * f + 1)]
    rng.shuffle(cand)
    return cand[:3]


def run_sequence(ctx, seq):
    """the cases of `seq` one after the other in this process, on the SAME file names, each judged by the full
    Spec and by its consumers immediately (so that every expand() call sees the state left by the previous one)"""
    done = []
    for case in seq:
        c = dict(case, history=[[d['rows'], d['cols'], d['f'], d['kind'], d['io'], d['pattern'], d.get('imgseed', 0)]
                                for d in done][-6:])
        o = run_impl(ctx, c, want_file_checks=True, fixed_tag='hist')
        judge(ctx, c, o, {})
        if o.error is None:
            check_consumers(ctx, c, o)
        ctx.count('history-step')
        ctx.case(dict(rows=c['rows'], cols=c['cols'], f=c['f'], kind=c['kind'], io=c['io'], history_len=len(done)),
                 nontrivial_key=('hist', c['rows'], c['cols'], c['f'], c['kind'], c['io'], len(done)) if c['f'] >= 2 else None,
                 sample_every=997)
        done.append(case)


FILE_NAMES = [
    ('mosa\u00efque_1904\u221266_\u00f1.fits', False),        # non-ASCII characters
    ('with space and (parens).fits', False),
    ('percent%s_%d_{0}_{name}_brace.fits', False),            # format characters
    ('long_' + 'x' * 180 + '.fits', False),
    ('relative-path.fits', True),
    ('UPPER.FITS', False),
    ('no_extension', True),
]


def file_names(ctx):
    """the file NAME as a dimension, for str input: compress(name, f, name), expand(name, name), load_image_band,
    _load_aux_image and the SR6 command line; shapes and factors are ordinary"""
    rng = ctx.rng
    cases = []
    for fname, rel in FILE_NAMES:
        rows, cols, f = rng.randint(4, 14), rng.randint(4, 14), rng.randint(2, 5)
        c = mk(rows, cols, f, rng.choice(['cdelt', 'cdrot']), 'file', 'nodal', rng.randint(0, 10 ** 6))
        c['fname'], c['relative'] = fname, rel
        cases.append(c)
        if not ctx.quick or len(cases) % 3 == 1:
            c2 = dict(c, io='path')
            cases.append(c2)
    run_cases(ctx, cases, use_driver=False, consumers=True)
    sr6_cases(ctx, cases, missing=False)
    ctx.count('file-names', len(cases))


def large_cases(ctx):
    """one deliberately long image per axis (just above 2^16, not a multiple of the factor), implementation vs Spec"""
    cases = [mk(65536 + 4321, 8, 7, 'cdelt', 'hdu', 'nodal', 81), mk(9, 65536 + 1234, 5, 'cdrot', 'hdu', 'nodal', 82)]
    if not ctx.quick:
        cases += [mk(1500, 1100, 13, 'cd', 'file', 'nodal', 83), mk(2 ** 17 + 3, 3, 64, 'cdelt', 'hdu', 'sparse', 84)]
    run_cases(ctx, cases, use_driver=False, consumers=False)
    ctx.count('large', len(cases))


def env_slice(ctx):
    """the same corpus cases in a worker thread, under np.errstate(all='raise') and with warnings turned into errors:
    the result must still satisfy the Spec (the property does not restrict where the functions are called from)"""
    import threading
    cases = [mk(*c) for c in CORPUS[:14] if c[2] <= 16][:10]

    def one(case, label):
        c = dict(case, env=label)
        o = run_impl(ctx, c, want_file_checks=True)
        return c, o

    out = []
    for k, case in enumerate(cases):
        label = ['thread', 'errstate-raise', 'warnings-error'][k % 3]
        if label == 'thread':
            box = []
            t = threading.Thread(target=lambda: box.append(one(case, label)))
            t.start()
            t.join()
            out.append(box[0] if box else (dict(case, env=label), None))
        elif label == 'errstate-raise':
            with np.errstate(all='raise'):
                out.append(one(case, label))
        else:
            with warnings.catch_warnings():
                warnings.simplefilter('error')
                warnings.simplefilter('ignore', ResourceWarning)     # file handles: not the property's subject
                out.append(one(case, label))
            warnings.simplefilter('ignore')
    for c, o in out:
        ctx.count('env:' + c['env'])
        ctx.case(c)
        if o is None:
            ctx.fail('spec', c, "compress/expand did not return in a worker thread", sig('raises', c, env=c['env']))
            continue
        before = len(ctx.failures)
        judge(ctx, c, o, {})
        if o.error is None:
            check_consumers(ctx, c, o)
        for f in ctx.failures[before:]:
            f['signature']['env'] = c['env']


def debug_slice(ctx):
    """the corpus again with the root logger and the 'Aegean' logger at DEBUG (handlers silenced): results must be
    bit-identical to the default-level run"""
    cases = [mk(*c) for c in CORPUS[:10]]
    ref = [run_impl(ctx, c, want_file_checks=False) for c in cases]
    root, aeg = logging.getLogger(), logging.getLogger('Aegean')
    saved = (root.level, aeg.level, list(root.handlers), logging.root.manager.disable)
    try:
        logging.disable(logging.NOTSET)
        root.handlers = [logging.NullHandler()]
        root.setLevel(logging.DEBUG)
        aeg.setLevel(logging.DEBUG)
        dbg = [run_impl(ctx, c, want_file_checks=False) for c in cases]
    finally:
        root.setLevel(saved[0])
        aeg.setLevel(saved[1])
        root.handlers = saved[2]
        logging.disable(saved[3])
    for c, a, b in zip(cases, ref, dbg):
        ctx.count('debug-slice')
        ctx.case(dict(c, logging='DEBUG'))
        same = a.error == b.error and (a.error is not None or (
            np.array_equal(a.edata, b.edata, equal_nan=True) and np.array_equal(a.cdata, b.cdata, equal_nan=True)
            and hdr_view(a.ehdr) == hdr_view(b.ehdr) and hdr_view(a.chdr) == hdr_view(b.chdr)))
        if not same:
            ctx.fail('spec', dict(c, logging='DEBUG'), "compress/expand give a different result with logging at DEBUG",
                     sig('logging-dependence', c))


def sparse_all_factors(ctx):
    """every factor 1..64, an image just large enough for two decimation nodes per axis, pattern 'sparse' (zero nodes
    next to 3e9 nodes), implementation vs Spec with exact node comparison; a few of them also through the model"""
    cases = [mk(f + 2 + (f % 2), f + 1 + (f % 3), f, 'cdelt' if f % 2 else 'cd', 'hdu', 'sparse', 7000 + f)
             for f in range(1, 65)]
    cases += [mk(2 * f + 1, 2 * f + 3, f, 'cdelt', 'hdu', 'sparse', 7100 + f) for f in (2, 3, 7, 49)]
    run_cases(ctx, cases, use_driver=False, consumers=False)
    pick = [c for c in cases if c['f'] in (1, 2, 5, 7, 49, 64)][:7]
    run_cases(ctx, pick, use_driver=True, consumers=False)
    ctx.count('sparse-all-factors', len(cases))


def histories(ctx):
    """for each factor: two or three original shapes that share ceil(rows/f) and ceil(cols/f) -- hence the same
    compressed shape, factor and (often) residual class -- round-tripped alternately, file and HDUList inputs mixed,
    with load_image_band / _load_aux_image on each compressed file; plus the same shape with different pixels and
    a different header kind.  A cache keyed on too little, a reused buffer or a stale file shows up as a Spec failure
    of a later step (signature carries history=True; the replay re-runs the steps before it)."""
    rng = ctx.rng
    factors = [2, 3, 5, 7] if ctx.quick else list(range(2, 13))
    for f in factors:
        for rep in range(1 if ctx.quick else 3):
            kr, kc = rng.randint(1, 5), rng.randint(1, 5)
            rs, cs = same_compressed_shape(rng, f, kr), same_compressed_shape(rng, f, kc)
            shapes = [(r, c) for r in rs for c in cs]
            rng.shuffle(shapes)
            shapes = shapes[:3]
            if len(shapes) < 2:
                continue
            seq = []
            for n in range(2 * len(shapes) + 1):           # A B C A B C A': every shape follows every other one
                r, c = shapes[n % len(shapes)]
                seq.append(mk(r, c, f, rng.choice(['cdelt', 'cd', 'cdrot']), ['hdu', 'file', 'path'][(n + rep) % 3],
                              rng.choice(['random', 'nodal']), rng.randint(0, 10 ** 6)))
            run_sequence(ctx, seq)
    # round 9: the SAME original shape and the same compressed shape under DIFFERENT factors
    # (ceil(n / f1) == ceil(n / f2)): shape + compressed shape do not determine the factor
    for rep in range(2 if ctx.quick else 8):
        for _try in range(50):
            n, m = rng.randint(8, 40), rng.randint(8, 40)
            f1 = rng.randint(2, 12)
            alts = [g for g in range(2, 13) if g != f1 and -(-n // g) == -(-n // f1) and -(-m // g) == -(-m // f1)]
            if alts:
                break
        else:
            continue
        f2 = rng.choice(alts)
        kind = rng.choice(['cdelt', 'cd', 'cdrot'])
        seq = [mk(n, m, [f1, f2][k % 2], kind, ['hdu', 'file', 'path'][(k + rep) % 3], rng.choice(['random', 'nodal']),
                  rng.randint(0, 10 ** 6)) for k in range(4)]
        run_sequence(ctx, seq)
    # the seeder's own pair
    run_sequence(ctx, [mk(41, 37, 5, 'cdelt', 'hdu', 'random', 1), mk(43, 38, 5, 'cdelt', 'hdu', 'random', 2),
                       mk(41, 37, 5, 'cdelt', 'file', 'nodal', 3)])


def repeated_ops(ctx):
    """compress of an already compressed HDUList and expand of an already expanded one: whatever the code does,
    the model (a pure function applied twice) must predict it.  On the pinned tree: the second compress decimates
    again and overwrites BN_* with the compressed size (the original size is lost; expand then returns the
    once-compressed array, no longer marked compressed); the second expand returns the same object untouched."""
    from AegeanTools import fits_tools
    rng = ctx.rng
    lines, meta = [], []
    for trial in range(4 if ctx.quick else 16):
        rows, cols, f1, f2 = rng.randint(6, 30), rng.randint(6, 30), rng.randint(1, 5), rng.randint(1, 5)
        img = make_image(rows, cols, f1, 'random', trial)
        case = dict(op='compress-twice', rows=rows, cols=cols, f=f1, f2=f2)
        try:
            c1 = fits_tools.compress(make_hdulist(img, rng.choice(['cdelt', 'cdrot'])), f1)
            h1, d1 = c1[0].header.copy(), np.array(c1[0].data)
            c2 = fits_tools.compress(c1, f2)
            h2, d2 = c2[0].header.copy(), np.array(c2[0].data)
            e1 = fits_tools.expand(c2)
            h3, d3 = e1[0].header.copy(), np.array(e1[0].data)
            e2 = fits_tools.expand(e1)
            same = e2 is e1 and np.array_equal(np.array(e2[0].data), d3, equal_nan=True) and \
                hdr_view(e2[0].header) == hdr_view(h3)
        except Exception as e:  # noqa
            ctx.note(f"repeated compress/expand raised {type(e).__name__}: {e} on {case}")
            ctx.fail('corr', case, f"repeated compress/expand raised {type(e).__name__}: {e} (the pinned tree does not)",
                     dict(site='compress/expand', what='repeated-ops'))
            continue
        if not same:
            ctx.fail('spec', case, "expand() of an already expanded (uncompressed) HDUList changed it",
                     dict(site='expand', what='expand-not-idempotent'))
        lines.append(f"compress {f2} {d1.shape[0]} {d1.shape[1]} {hdr_tokens(h1)} {px_tokens(d1)}")
        meta.append((case, 'second compress', h2, d2))
        lines.append(f"expand {d2.shape[0]} {d2.shape[1]} {hdr_tokens(h2)} {px_tokens(d2)}")
        meta.append((case, 'expand after two compresses', h3, d3))
        ctx.count('repeated-ops')
        ctx.case(dict(case, second_compress_shape=list(d2.shape), after_one_expand=list(d3.shape),
                      bn_after_second_compress=[int(h2['BN_NPX2']), int(h2['BN_NPX1'])]))
    outs = ctx.driver.batch(lines) if (lines and ctx.driver_ok) else []
    for (case, what, h, d), out in zip(meta, outs):
        m = parse_result(out)
        if m[0] != 'ok':
            ctx.fail('corr', case, f"{what}: implementation succeeds, model: {out[:60]}", dict(site='compress/expand', what='repeated-ops'))
        elif m[4].shape != d.shape or not np.allclose(m[4].astype(np.float32), d, rtol=2e-6, atol=2e-6, equal_nan=True):
            ctx.fail('corr', case, f"{what}: data differ (shapes {d.shape} / {m[4].shape})", dict(site='compress/expand', what='repeated-ops'))
        elif hdr_diff(hdr_view(h), m[3]):
            ctx.fail('corr', case, f"{what}: header {hdr_diff(hdr_view(h), m[3])}", dict(site='compress/expand', what='repeated-ops'))


# ---------------------------------------------------------------------------------------------
# open known finding C15-nan-bleed: a NaN node turns its finite neighbours into NaN (0 * NaN)
# ---------------------------------------------------------------------------------------------

NAN_WITNESS = dict(rows=7, cols=7, f=3, nan_at=[3, 3])


def nan_witness(ctx):
    """BANE maps carry NaN where the image is blank.  RegularGridInterpolator multiplies the far corner of a
    cell by weight 0, and 0*NaN = NaN, so every decimation node whose cell (towards higher indices) has a NaN
    corner comes back NaN although its own value is finite.  Outside the ordered-field model; recorded as an
    open known finding.  The failure is reported only once known_findings.json knows the finding's id (so that
    the line is KNOWN-FINDING, never a new VIOLATION, whatever order files are integrated in)."""
    from astropy.io import fits
    from AegeanTools import fits_tools
    w = NAN_WITNESS
    img = np.arange(w['rows'] * w['cols'], dtype=np.float32).reshape(w['rows'], w['cols'])
    img[tuple(w['nan_at'])] = np.nan
    try:
        out = np.array(fits_tools.expand(fits_tools.compress(make_hdulist(img, 'cdelt'), w['f']))[0].data)
    except Exception as e:  # noqa
        ctx.note(f"NaN witness: compress/expand raised {type(e).__name__}: {e}")
        return
    f = w['f']
    lost = [(r, c) for r in range(0, w['rows'], f) for c in range(0, w['cols'], f)
            if np.isfinite(img[r, c]) and not (out.shape == img.shape and out[r, c] == img[r, c])]
    ctx.count('nan-witness')
    ctx.case(dict(w, lost_nodes=[list(x) for x in lost]))
    if lost:
        known_ids = {e.get('id') for e in common.load_known('C15')}
        detail = (f"image with one NaN pixel at node {tuple(w['nan_at'])}: the finite decimation nodes {lost} come back "
                  f"NaN after compress+expand (0*NaN in the bilinear sum)")
        if 'C15-nan-bleed' in known_ids:
            ctx.fail('spec', dict(w, lost_nodes=[list(x) for x in lost]), detail,
                     dict(site='expand', what='node', nan_neighbour=True))
        else:
            ctx.note("open finding C15-nan-bleed reproduced (not yet in known_findings.json): " + detail)


# ---------------------------------------------------------------------------------------------
# SR6 command line (thorough)
# ---------------------------------------------------------------------------------------------

def sr6_cases(ctx, cases, missing=True):
    from astropy.io import fits
    from AegeanTools import fits_tools
    from AegeanTools.CLI import SR6
    tmp = ctx.tmpdir()
    prev = logging.root.manager.disable
    logging.disable(logging.CRITICAL)
    try:
        for n, case in enumerate(cases):
            rows, cols, f, kind, pattern = (case[k] for k in ('rows', 'cols', 'f', 'kind', 'pattern'))
            img = make_image(rows, cols, f, pattern, case.get('imgseed', 0))
            ipath, cpath, epath = (os.path.join(tmp, f"sr6_{n}_{x}.fits") for x in 'ice')
            if case.get('fname'):
                ipath, cpath, epath = (os.path.join(tmp, f"sr6{x}_" + case['fname']) for x in 'ice')
                if case.get('relative'):
                    ipath, cpath, epath = (os.path.relpath(p, os.getcwd()) for p in (ipath, cpath, epath))
            make_hdulist(img, kind).writeto(ipath, overwrite=True)
            c = dict(case, via='SR6')
            try:
                rc1 = SR6.main([ipath, '-f', str(f), '-o', cpath])
                rc2 = SR6.main([cpath, '-x', '-o', epath])
                with fits.open(epath) as eh:
                    ehdr, edata = eh[0].header.copy(), np.array(eh[0].data)
                with fits.open(cpath) as ch:
                    chdr, cdata = ch[0].header.copy(), np.array(ch[0].data)
            except Exception as e:  # noqa
                ctx.fail('spec', c, f"SR6 compress/expand failed: {type(e).__name__}: {e}", sig('raises', case, stage='SR6'))
                continue
            if rc1 not in (0, None) or rc2 not in (0, None):
                ctx.fail('spec', c, f"SR6 returned {rc1}, {rc2} on existing input files", sig('raises', case, stage='SR6'))
            bad = py_spec(img, f, edata)
            if bad:
                ctx.fail('spec', dict(c, pixel=[bad[1], bad[2]]), 'SR6: ' + bad[3], sig(bad[0], case))
            kd = hdr_diff(hdr_view(ehdr), hdr_view(fits.getheader(ipath)), rel=1e-9)
            if kd:
                ctx.fail('spec', c, f"SR6: keyword not restored: {kd}", sig('keywords', case, keyword=kd.split(':')[0]))
            if any(k.startswith('BN_') for k in ehdr):
                ctx.fail('spec', c, "SR6: BN_* keywords left after expand", sig('bn-keys', case))
            # the CLI is a thin wrapper: same result as the library call
            ref = fits_tools.expand(fits_tools.compress(make_hdulist(img, kind), f))
            if not np.array_equal(np.array(ref[0].data), edata, equal_nan=True):
                ctx.fail('corr', c, "SR6 output differs from the library compress+expand", sig('corr-sr6', case))
            ctx.count('sr6')
            ctx.case(dict(c, compressed_shape=list(cdata.shape)))
        # missing input file: reported, exit status 1, nothing written
        nofile = os.path.join(tmp, 'does_not_exist.fits')
        outp = os.path.join(tmp, 'never.fits')
        for argv in ([nofile, '-f', '3', '-o', outp], [nofile, '-x', '-o', outp]) if missing else ():
            try:
                rc = SR6.main(argv)
            except BaseException as e:  # noqa  (SystemExit included)
                rc = f"raised {type(e).__name__}: {e}"
            if rc != 1 or os.path.exists(outp):
                ctx.fail('spec', dict(via='SR6', argv=argv[1:]), f"missing input file: SR6 returned {rc!r}, output exists: "
                         f"{os.path.exists(outp)} (expected exit status 1 and no output)",
                         dict(site='SR6', what='missing-input'))
            ctx.count('sr6-missing')
            ctx.case(dict(via='SR6', argv=argv[1:], rc=rc))
    finally:
        logging.disable(prev)


# ---------------------------------------------------------------------------------------------
# case sets
# ---------------------------------------------------------------------------------------------

KINDS = ['cdelt', 'cd', 'mixed', 'both', 'cdrot', 'cdrot', 'pc', 'crota']
CORPUS = [
    # (rows, cols, f, kind, io, pattern)
    (2, 2, 1, 'cdelt', 'hdu', 'random'), (2, 2, 64, 'cd', 'file', 'random'), (2, 3, 2, 'cdelt', 'hdu', 'random'),
    (7, 5, 3, 'cdelt', 'file', 'nodal'), (9, 9, 4, 'cd', 'hdu', 'nodal'), (12, 8, 4, 'cdelt', 'hdu', 'affine'),
    (13, 40, 13, 'mixed', 'file', 'affine'), (40, 40, 39, 'cdelt', 'hdu', 'random'), (40, 39, 41, 'cd', 'hdu', 'random'),
    (5, 17, 16, 'both', 'file', 'nodal'), (9, 7, 3, 'cdrot', 'hdu', 'nodal'), (8, 11, 2, 'cdrot', 'file', 'random'),
    (10, 6, 4, 'pc', 'hdu', 'affine'), (6, 9, 5, 'crota', 'file', 'random'),
    (11, 9, 4, 'cdelt', 'path', 'nodal'), (7, 12, 3, 'cd', 'pathlike', 'random'), (33, 2, 8, 'cdelt', 'file', 'nodal'), (17, 17, 8, 'cd', 'hdu', 'nodal'),
]


def mk(rows, cols, f, kind, io, pattern, imgseed=0):
    return dict(rows=rows, cols=cols, f=f, kind=kind, io=io, pattern=pattern, imgseed=imgseed)


def load_corpus_dir():
    import glob
    import json
    out = []
    for fn in sorted(glob.glob(os.path.join(common.VERIF, 'corpus', 'C15', '*.json'))):
        try:
            rec = json.load(open(fn))
            c = rec.get('case', rec)
            out.append(mk(c['rows'], c['cols'], c['f'], c.get('kind', 'cdelt'), c.get('io', 'hdu'),
                          c.get('pattern', 'random'), c.get('imgseed', 0)))
        except Exception:  # noqa
            pass
    return out


def case_set(ctx):
    rng = ctx.rng
    cases = load_corpus_dir() + [mk(*c) for c in CORPUS]
    small = range(2, 7) if ctx.quick else range(2, 10)
    fs = range(1, 9) if ctx.quick else range(1, 13)
    for rows, cols, f in itertools.product(small, small, fs):
        if ctx.quick and (rows + cols + f + ctx.seed) % 2:
            continue
        cases.append(mk(rows, cols, f, ['cdelt', 'cd', 'cdrot'][(rows + cols + f) % 3], 'hdu', ['random', 'nodal'][(rows * cols + f) % 2],
                        rows * 100 + cols))
    n = 220 if ctx.quick else 2200
    for k in range(n):
        rows, cols = rng.randint(2, 40), rng.randint(2, 40)
        mode = k % 4
        if mode == 0:
            f = rng.randint(1, 64)
        elif mode == 1:
            f = rng.randint(2, max(2, min(rows, cols) // 2))        # several complete cells
        elif mode == 2:
            f = rng.choice([d for d in range(1, 41) if rows % d == 0 or cols % d == 0])   # exact multiples on an axis
        else:
            f = max(1, min(64, min(rows, cols) + rng.randint(-2, 2)))   # factor about the size of the image
        cases.append(mk(rows, cols, f, rng.choice(KINDS), ['file', 'path', 'hdu', 'hdu', 'pathlike', 'hdu', 'hdu', 'hdu', 'hdu', 'hdu'][k % 10],
                        rng.choice(['random', 'nodal', 'nodal', 'affine', 'sparse']), rng.randint(0, 10 ** 6)))
    # data handed over in another dtype / byte order / memory layout (HDUList input and file input)
    for k, layout in enumerate(['F', 'f8', 'be', 'strided', 'i4'] * (1 if ctx.quick else 6)):
        rows, cols, f = rng.randint(4, 20), rng.randint(4, 20), rng.randint(2, 6)
        c = mk(rows, cols, f, rng.choice(['cdelt', 'cdrot']), 'hdu' if k % 2 else 'path', 'nodal', rng.randint(0, 10 ** 6))
        c['layout'] = layout
        cases.append(c)
    return cases


def run(ctx):
    common.use_repo()
    warnings.simplefilter('ignore')
    cases = case_set(ctx)
    index_cases(ctx, 200 if ctx.quick else 2000)
    for k in range(0, len(cases), 400):
        run_cases(ctx, cases[k:k + 400])
    malformed(ctx)
    sparse_all_factors(ctx)
    file_names(ctx)
    large_cases(ctx)
    debug_slice(ctx)
    env_slice(ctx)
    histories(ctx)
    repeated_ops(ctx)
    nan_witness(ctx)
    if not ctx.quick:
        sr6_cases(ctx, [c for k, c in enumerate(cases) if k % 9 == 0][:300])
        sweep(ctx, thorough=True)


def sweep(ctx, thorough):
    """implementation vs Spec only (numpy), exhaustive over small shapes and factors, smallest first"""
    top = 40 if thorough else 16
    fs = list(range(1, 65))
    found = False
    shapes = sorted(itertools.product(range(2, top + 1), repeat=2), key=lambda s: (s[0] + s[1], s))
    # thorough: all shapes 2..40 x 2..40; every factor 1..64 for a third of the shapes (rotating with the seed), a
    # spread of about a dozen factors (1, 2, 3, around the size, divisors, 63, 64) for the rest
    for n, (rows, cols) in enumerate(shapes):
        if thorough and (n + ctx.seed) % 3:
            use = sorted(set([1, 2, 3, rows - 1, rows, rows + 1, cols - 1, cols, cols + 1, 63, 64] +
                             [d for d in range(2, 41) if rows % d == 0][:3]) & set(fs))
        else:
            use = fs
        for f in use:
            case = mk(rows, cols, f, 'cdelt' if (rows + f) % 2 else 'cd', 'hdu', 'nodal' if f * 2 < min(rows, cols) else 'random',
                      rows * 41 + cols)
            o = run_impl(ctx, case, want_file_checks=False)
            before = len(ctx.failures)
            judge(ctx, case, o, {})
            ctx.count('sweep')
            ctx.case(case, nontrivial_key=(rows, cols, f, case['kind'], 'hdu') if f >= 2 else None, sample_every=5003)
            if len(ctx.failures) > before and any(x['kind'] == 'spec' for x in ctx.failures[before:]):
                found = True
                break
        if found:
            break
    return found


def search(ctx):
    common.use_repo()
    warnings.simplefilter('ignore')
    if any(f['kind'] == 'spec' for f in ctx.failures):
        return
    saved = ctx.driver_ok
    ctx.driver_ok = False
    try:
        sparse_all_factors(ctx)
        file_names(ctx)
    finally:
        ctx.driver_ok = saved
    if any(f['kind'] == 'spec' for f in ctx.failures):
        return
    histories(ctx)
    if any(f['kind'] == 'spec' for f in ctx.failures):
        return
    if sweep(ctx, thorough=False):
        return
    # nothing in the small sweep: consumers and the file path on a spread of cases, Spec only
    saved = ctx.driver_ok
    ctx.driver_ok = False
    try:
        run_cases(ctx, [mk(*c) for c in CORPUS], use_driver=False)
    finally:
        ctx.driver_ok = saved


def replay(ctx, rec):
    common.use_repo()
    warnings.simplefilter('ignore')
    c = rec['case'] or {}
    if c.get('via') == 'SR6':
        if 'rows' in c:
            one = mk(c['rows'], c['cols'], c['f'], c['kind'], 'file', c['pattern'], c.get('imgseed', 0))
            one.update({k: c[k] for k in ('fname', 'relative') if k in c})
            sr6_cases(ctx, [one])
        else:
            sr6_cases(ctx, [])
    elif c.get('op') == 'compress-twice':
        repeated_ops(ctx)
    elif c.get('env'):
        env_slice(ctx)
    elif 'rows' in c and 'f' in c and 'kind' in c and c.get('history'):
        run_sequence(ctx, [mk(*h) for h in c['history']] +
                     [mk(c['rows'], c['cols'], c['f'], c['kind'], c.get('io', 'hdu'), c.get('pattern', 'random'),
                         c.get('imgseed', 0))])
    elif 'rows' in c and 'f' in c and 'kind' in c:
        one = mk(c['rows'], c['cols'], c['f'], c['kind'], c.get('io', 'hdu'), c.get('pattern', 'random'), c.get('imgseed', 0))
        one.update({k: c[k] for k in ('fname', 'relative', 'layout') if k in c})
        run_cases(ctx, [one])
    elif 'nan_at' in c:
        nan_witness(ctx)
    else:
        index_cases(ctx, 50)
        malformed(ctx)
