"""
C09 — correspondence, Spec evaluation and contract sampling for circle / polygon regions.

run(ctx)
  1. translator validation + conversion boundary tests: `Region.sky2vec`, `Region.vec2sky` against the
     Float instance of the regenerated / hand model (driver ops `s2v`, `v2s`), at generic positions and
     at the poles, ra = 0, ra just below 2π; round trip `vec2sky(sky2vec(p)) = p` on the real code on
     the domain the theorems state (dec always; ra for |dec| < π/2).
  2. circles: real `Region.add_circles` (scalar and list arguments) on a fresh Region, real
     `sky_within` (scalar and array arguments, degin False and True), real `get_area`.
       hand-off   every call the code makes into healpy (`query_disc`, `ang2pix`) is recorded by a spy
                  on `regions.hp` and compared with the Lean hand-off model (`circ`, `within`):
                  nside, unit vector, radius, inclusive, nest, fact (default), theta, phi;
       model      sky_within answer  ==  [ang2pix(2^m, θ_L, φ_L) >> 2(m−d)  ∈  query_disc(args_L)]
                  with every argument computed by the Lean model;  get_area == N · pixArea(d);
       Spec       the Lean Spec predicates (`cspec`, `aspec`) on the REAL answers, with an
                  independent great-circle distance (Vincenty, numpy), cross-checked against the
                  Float instance of the proven `sepHav`.
  3. polygons: the same with `add_poly` / `query_polygon`; vertices on a circle (so the circumscribed
     circle is known), 3–8 vertices, both orientations; Spec `pspec`.
  2c. history / argument forms: get_area is asked in BOTH units on every single-circle region, in alternating order
      (sr,deg | deg,sr | repr,sr,deg | deg,sr,deg,sr) across regions of different depths in one process, the area-between-caps
      clause judged in each unit; add_circles with list / ndarray (caller-owned, checked unmodified) / tuple / mixed arguments,
      one call per circle on the same long-lived region with a query in between, and REPEATED bit-identical centres with
      different radii in every order.
  2e. size thresholds: one circle just above 2^22 pixels (depth 11, r = 34 deg; thorough also depth 12 and a larger one) with a
      dense ring of 240k-480k positions at r + (3.0 .. 3.6) pixel sizes plus interior / just-inside / gap / far positions in ONE
      vector call; one vector sky_within call of 2^20 + 4321 positions (thorough also 2^21 + 12345, degin) compared with the same
      positions in pieces of 2^17 + 13 and as scalars.  Bulk answers are screened with the Spec inequalities in numpy; every
      screened failure and a regular sample are judged by the Lean Spec.
  2f. object protocol and scalar containers: after its queries every generated region goes through one of pickle (protocol 2 /
      default), copy.deepcopy, copy.copy, Region.save + Region.load; the ORIGINAL and the COPY are then queried again with the same
      positions and asked for their area, judged by the same Spec clauses (history build -> query -> pickle/copy -> query).
      Scalar positions / circle parameters are passed as Python floats, numpy scalars and 0-d ndarrays in turn.
  3a. polygons straddling RA = 0 (4-8 vertices, circumcentre exactly on RA 0 at several decs) and centred exactly on both poles,
      regular and irregular, both vertex orders; add_poly raising on a polygon that healpy accepts with the model's arguments
      is a Spec failure (no region containing the interior is built).
  3b. adversarial pixel geometry: per depth the most elongated pixels are found with hp.boundaries (corner-to-centre
     distance / nside2resol, up to 1.0446); sub-pixel discs are centred in the outer 0.05-4.5 % of their long diagonal, and
     larger discs are placed so that only that tip is inside; also around base-pixel corners and the |z| = 2/3 transition.
  4. malformed stream: fewer than three polygon positions, depth > maxdepth, depth None, NaN / inf
     query coordinates.
  5. the healpy CONTRACT assumed by the `…_partial` theorems is SAMPLED (never proved): at small nside,
     brute force over all pixel centres / a 16× finer grid.  A falsified contract is a broken check
     (exit 2), not a property violation: it says the assumption must be restated.
search(ctx)  denser Spec-only sweep (implementation vs Spec) with shrinking to a single circle/point.
replay(ctx, rec)  re-runs one recorded case.
"""
import inspect
import math

import numpy as np

import common
from common import f2h, h2f

LEVEL = 'proof'
LEANCHECKER = True
RULE = ("a case is one (region, query position, degin) triple evaluated through the real add_circles/add_poly + "
        "sky_within; non-trivial = the Spec constrains the answer (position within the radius / in the polygon "
        "interior, or farther than 3 pixel sizes beyond the circle / circumscribed circle) or the position is "
        "NaN/inf; distinct by (shape id, position bits, degin).  The bulk positions of the size-threshold cases (big disc ring, "
        "> 2^20-position query) are counted in evaluations only, not in distinct_nontrivial (histogram keys 'bulk ...')")
ASSUMPTIONS = [
    "HEALPix geometry inside healpy is ASSUMED (Lean structure Healpix: Grid / DiscQuery / PolyQuery / nest) and only "
    "SAMPLED here at small nside: inclusive query_disc returns every pixel meeting the disc and only pixels whose centre "
    "is within r + rho + rho(4*nside); inclusive query_polygon returns every pixel meeting the polygon and only pixels "
    "with a point within `slack` of it; ang2pix(q) contains q, within rho of its centre; nested ids: parent = id >> 2; "
    "2*rho + slack <= 3 pixel sizes (rho = healpy.max_pixrad, pixel size = healpy.nside2resol)",
    "pixels are an equal-area measurable partition of the sphere and cap area is 2*pi*(1-cos r) (hypotheses of the area theorems)",
    "theorems are over the reals; IEEE rounding of sin/cos/arccos (e.g. dec recovered near a pole only to ~1e-8) is not modelled",
    "the demoted set of a region holding D at depth d is {p : p >> 2(m-d) in D} (property C08), tied here by the model comparison",
]
TRUSTED = [
    "Gen.C09.sky2angTheta / vec2skyRa / vec2skyDec / skyWithinScale regenerated from regions.py by py2lean.py (real mode, "
    "with the np.pi and subscript-assignment extensions in translator/targets/C09.py)",
    "hand models of the sky2ang column swap, healpy.ang2vec, healpy.vec2ang and of the call sites into healpy "
    "(Model/C09.lean), tied by the spy-based hand-off comparison",
    "healpy 1.20 query_disc/query_polygon/ang2pix/pix2vec/max_pixrad/nside2resol (contract sampled, not proved)",
]
PARTIAL = [
    "circle_contains_partial: proved from the Healpix contract; the contract (query_disc completeness, ang2pix, nesting) is sampled",
    "circle_excludes_far_partial / circle_excludes_beyond_partial: proved from the contract (r + 2*rho + slack, then <= r + 3 pixel sizes "
    "by the numeric hypothesis); contract sampled",
    "circle_area_between_caps_partial / circle_area_closed_form_partial: proved for any measure with equal-measure disjoint pixels; "
    "that the sphere's surface measure is such a measure and gives caps 2*pi*(1-cos r) is assumed",
    "poly_contains_partial, poly_excludes_far_partial, poly_excludes_beyond_partial, poly_excludes_beyond_convex_partial: proved from the "
    "PolyQuery contract; contract sampled; that the polygon lies inside its circumscribed circle is proved (poly_in_circumcircle) for "
    "fan-convex polygons with circumradius <= pi/2",
]

TWO_PI = 2 * math.pi
HALF_PI = math.pi / 2


# ---------------------------------------------------------------------------------------------
# independent sphere geometry (numpy; NOT the formulas of the code or of the Lean model)
# ---------------------------------------------------------------------------------------------

def unit(ra, dec):
    return np.array([math.cos(dec) * math.cos(ra), math.cos(dec) * math.sin(ra), math.sin(dec)])


def vincenty(ra1, dec1, ra2, dec2):
    """great-circle distance, atan2 form (well conditioned everywhere)"""
    dl = ra2 - ra1
    s1, c1, s2, c2 = math.sin(dec1), math.cos(dec1), math.sin(dec2), math.cos(dec2)
    y = math.hypot(c2 * math.sin(dl), c1 * s2 - s1 * c2 * math.cos(dl))
    x = s1 * s2 + c1 * c2 * math.cos(dl)
    return math.atan2(y, x)


def vec_angle(a, b):
    c = np.cross(a, b)
    return np.arctan2(np.linalg.norm(c, axis=-1), np.sum(a * b, axis=-1))


def offset(ra, dec, dist, bearing):
    """the point at angular distance `dist` from (ra, dec) in direction `bearing` (from north through east)"""
    c = unit(ra, dec)
    north = np.array([-math.sin(dec) * math.cos(ra), -math.sin(dec) * math.sin(ra), math.cos(dec)])
    east = np.array([-math.sin(ra), math.cos(ra), 0.0])
    q = math.cos(dist) * c + math.sin(dist) * (math.cos(bearing) * north + math.sin(bearing) * east)
    return vec2radec(q)


def vec2radec(q):
    d = math.atan2(q[2], math.hypot(q[0], q[1]))
    a = math.atan2(q[1], q[0]) % TWO_PI
    if a >= TWO_PI:
        a = 0.0
    return a, max(-HALF_PI, min(HALF_PI, d))


def pix_size(depth):
    return math.sqrt(4 * math.pi / (12 * 4 ** depth))


def cap_area(r):
    return 2 * math.pi * (1 - math.cos(r))


# ---------------------------------------------------------------------------------------------
# spy on the healpy module used by regions.py
# ---------------------------------------------------------------------------------------------

class Spy:
    WATCH = ('query_disc', 'query_polygon', 'ang2pix')

    def __init__(self, real):
        self._real = real
        self.calls = []

    def __getattr__(self, name):
        f = getattr(self._real, name)
        if name in Spy.WATCH:
            def w(*a, **k):
                ba = inspect.signature(f).bind(*a, **k)
                ba.apply_defaults()
                self.calls.append((name, dict(ba.arguments)))
                return f(*a, **k)
            return w
        return f


class Spied:
    def __enter__(self):
        from AegeanTools import regions
        import healpy
        self.regions = regions
        self.spy = Spy(healpy)
        self.saved = regions.hp
        regions.hp = self.spy
        return self.spy

    def __exit__(self, *a):
        self.regions.hp = self.saved


# ---------------------------------------------------------------------------------------------
# generators
# ---------------------------------------------------------------------------------------------

CENTRE_CLASSES = ['generic', 'npole', 'spole', 'ra0', 'ra360', 'nearpole', 'generic', 'ra0wrap']


def gen_centre(rng, cls):
    ra = rng.uniform(0, TWO_PI)
    dec = math.asin(rng.uniform(-1, 1))
    if cls == 'npole':
        dec = HALF_PI
    elif cls == 'spole':
        dec = -HALF_PI
    elif cls == 'ra0':
        ra = 0.0
    elif cls == 'ra360':
        ra = math.nextafter(TWO_PI, 0.0) if rng.random() < 0.5 else math.radians(360 - 10 ** rng.uniform(-9, -1))
    elif cls == 'nearpole':
        dec = rng.choice([-1, 1]) * (HALF_PI - math.radians(10 ** rng.uniform(-3, 0.5)))
    elif cls == 'ra0wrap':
        ra = (rng.uniform(-1, 1) * math.radians(10 ** rng.uniform(-3, 0.3))) % TWO_PI
    return ra, dec


def r_max_for(depth, m, budget):
    """largest radius whose (demoted) pixel count stays within the budget"""
    pa = 4 * math.pi / (12 * 4 ** depth)
    n = budget / 4 ** (m - depth)
    a = n * pa
    if a >= 4 * math.pi * 0.6:
        return math.radians(60)
    r = math.acos(max(-1.0, 1 - a / (2 * math.pi))) - 2.5 * pix_size(depth)
    return min(math.radians(60), r)


def gen_shape_params(ctx, rng, k, budget):
    """(maxdepth, depth argument, effective depth, radius, centre class) — stratified over depth and radius"""
    for _ in range(100):
        depth = 3 + (k % 10)                       # 3..12, every depth in turn
        mode = rng.random()
        if mode < 0.6:
            m, darg = depth, depth
        elif mode < 0.75:
            m = min(12, depth + rng.choice([1, 2]))
            darg = depth
        elif mode < 0.87:
            m, darg = depth, depth + rng.choice([1, 2, 5])       # depth > maxdepth: clamped
        else:
            m, darg = depth, None                                  # depth None: maxdepth
        rmax = r_max_for(depth, m, budget)
        rmin = math.radians(0.01)
        if rmax <= rmin:
            m, darg = depth, depth
            rmax = r_max_for(depth, m, budget)
            if rmax <= rmin:
                k += 1
                continue
        sel = (k // 10) % 3
        if sel == 0:
            r = math.exp(rng.uniform(math.log(rmin), math.log(rmax)))
        elif sel == 1:
            r = rmax * rng.uniform(0.7, 1.0)        # as large as the budget allows (60 deg at low depth)
        else:
            r = min(rmax, rmin * 10 ** rng.uniform(0, 1.5))    # small: comparable with / below a pixel
        return m, darg, depth, r, CENTRE_CLASSES[(k // 3) % len(CENTRE_CLASSES)]
    raise RuntimeError('no admissible shape parameters')


def gen_points_circle(rng, ra, dec, r, pix, n_each):
    pts = [(ra, dec, 'centre')]
    for _ in range(n_each):
        pts.append(offset(ra, dec, r * math.sqrt(rng.random()), rng.uniform(0, TWO_PI)) + ('interior',))
    for _ in range(n_each):
        pts.append(offset(ra, dec, r * (1 - 10 ** rng.uniform(-7, -3)), rng.uniform(0, TWO_PI)) + ('in-eps',))
    for _ in range(n_each):
        pts.append(offset(ra, dec, r + 3 * pix * rng.random(), rng.uniform(0, TWO_PI)) + ('gap',))
    far0 = r + 3 * pix
    if far0 < math.pi * 0.999:
        for _ in range(n_each):
            pts.append(offset(ra, dec, min(math.pi, far0 * (1 + 10 ** rng.uniform(-7, -2)) + 1e-12), rng.uniform(0, TWO_PI)) + ('out-eps',))
        for _ in range(max(2, n_each // 2)):
            pts.append(offset(ra, dec, rng.uniform(far0, math.pi), rng.uniform(0, TWO_PI)) + ('far',))
        pts.append(offset(ra, dec, math.pi, 0.0) + ('antipode',))
    # positions expressed with ra outside [0, 2π): the same points of the sky
    a, d, _ = pts[1]
    pts.append((a - TWO_PI, d, 'ra-negative'))
    pts.append((a + TWO_PI, d, 'ra-above-2pi'))
    return pts


BAD_POINTS = [(float('nan'), 0.3, 'nan-ra'), (1.0, float('nan'), 'nan-dec'), (float('nan'), float('nan'), 'nan-both'),
              (float('inf'), 0.3, 'inf-ra'), (1.0, float('-inf'), 'inf-dec')]


# ---------------------------------------------------------------------------------------------
# one region: build with the real code, query with the real code, compare
# ---------------------------------------------------------------------------------------------

def hexes(*xs):
    return ' '.join(f2h(x) for x in xs)


def parse_floats(ws):
    return [h2f(w) for w in ws]


def args_close(a, b, tol=1e-13):
    return all(common.close(float(x), float(y), rel=tol, abs_=tol) for x, y in zip(np.ravel(a), np.ravel(b))) \
        and np.size(a) == np.size(b)


VECTOR_FORMS = ('vector', 'ndarray', 'tuple', 'sequential', 'mixed')


def build_circle_region(case):
    """real code: fresh Region, add_circles in the argument form of the case; returns (region, spy calls).
    forms: scalar | vector (lists) | ndarray (caller-owned float64 arrays, checked bit-identical afterwards) |
           tuple | mixed (list ra, ndarray dec, tuple radius) | sequential (one add_circles call per circle on the
           SAME region, with a sky_within query in between: the region is a long-lived object)"""
    from AegeanTools.regions import Region
    reg = Region(maxdepth=case['maxdepth'])
    record_add_pixels(reg)
    cs = case['circles']
    ras, decs, rs = [c[0] for c in cs], [c[1] for c in cs], [c[2] for c in cs]
    form = case['form']
    with Spied() as spy:
        if form == 'scalar':
            ra, dec, r = (as_scalar(x, case.get('scalar_type', 'float')) for x in cs[0])
            reg.add_circles(ra, dec, r, depth=case['depth'])
        elif form == 'sequential':
            for i, (ra, dec, r) in enumerate(cs):
                reg.add_circles(ra, dec, r, depth=case['depth'])
                if i + 1 < len(cs):
                    reg.sky_within(ra, dec)          # fills the demoted cache between two additions
        elif form == 'ndarray':
            a, d, r = np.array(ras), np.array(decs), np.array(rs)
            keep = (a.copy(), d.copy(), r.copy())
            reg.add_circles(a, d, r, depth=case['depth'])
            for x, y, nm in zip((a, d, r), keep, ('ra_cen', 'dec_cen', 'radius')):
                if x.tobytes() != y.tobytes():
                    raise ArgumentMutated(f'add_circles modified the caller-owned array {nm}')
        elif form == 'tuple':
            reg.add_circles(tuple(ras), tuple(decs), tuple(rs), depth=case['depth'])
        elif form == 'mixed':
            reg.add_circles(list(ras), np.array(decs), tuple(rs), depth=case['depth'])
        else:
            reg.add_circles(ras, decs, rs, depth=case['depth'])
        calls = [c for c in spy.calls if c[0] != 'ang2pix'] + [('add_pixels', dict(depth=d)) for d in reg._c09_insert_depths]
    unrecord_add_pixels(reg)
    return reg, calls


def unrecord_add_pixels(reg):
    """remove the instance-level wrapper again: the region must be an ordinary Region for pickle / copy"""
    reg.__dict__.pop('add_pixels', None)
    reg.__dict__.pop('_c09_insert_depths', None)


def record_add_pixels(reg):
    """record the depth argument of every add_pixels call on this region (instance-level wrapper)"""
    reg._c09_insert_depths = []
    orig = reg.add_pixels

    def add_pixels(pix, depth):
        reg._c09_insert_depths.append(depth)
        return orig(pix, depth)
    reg.add_pixels = add_pixels


class ArgumentMutated(Exception):
    pass


def build_poly_region(case):
    from AegeanTools.regions import Region
    reg = Region(maxdepth=case['maxdepth'])
    record_add_pixels(reg)
    with Spied() as spy:
        reg.add_poly([list(p) for p in case['positions']], depth=case['depth'])
        calls = list(spy.calls) + [('add_pixels', dict(depth=d)) for d in reg._c09_insert_depths]
    unrecord_add_pixels(reg)
    return reg, calls


def query_real(reg, pts, degin, form):
    """real sky_within; returns (list of bool, spy calls)"""
    with Spied() as spy:
        if form == 'array':
            ras = np.array([p[0] for p in pts])
            decs = np.array([p[1] for p in pts])
            if degin:
                ras, decs = np.degrees(ras), np.degrees(decs)
            out = [bool(x) for x in reg.sky_within(ras, decs, degin=degin)]
        else:
            out = []
            for i, p in enumerate(pts):
                a, d = (math.degrees(p[0]), math.degrees(p[1])) if degin else (p[0], p[1])
                # a scalar position as a Python float, a numpy scalar, or a 0-d ndarray (np.squeeze, np.asarray of a number)
                a, d = (as_scalar(x, SCALAR_TYPES[i % len(SCALAR_TYPES)]) for x in (a, d))
                res = reg.sky_within(a, d, degin=degin)
                out.append(bool(np.ravel(res)[0]))
        calls = list(spy.calls)
    return out, calls


SCALAR_TYPES = ('float', 'np.float64', '0d')


def as_scalar(x, kind):
    if kind == 'np.float64':
        return np.float64(x)
    if kind == '0d':
        return np.array(float(x))
    return float(x)


PROTOCOLS = ('pickle2', 'deepcopy', 'save-load', 'copy', 'pickle-default')


def apply_protocol(ctx, reg, proto):
    """object protocol applied to a QUERIED region; returns the copy"""
    import copy
    import os
    import pickle
    from AegeanTools.regions import Region
    if proto == 'pickle2':
        return pickle.loads(pickle.dumps(reg, protocol=2))
    if proto == 'pickle-default':
        return pickle.loads(pickle.dumps(reg))
    if proto == 'deepcopy':
        return copy.deepcopy(reg)
    if proto == 'copy':
        return copy.copy(reg)
    if proto == 'save-load':
        fn = os.path.join(ctx.tmpdir(), f'region-{id(reg)}.mim')
        reg.save(fn)
        out = Region.load(fn)
        os.unlink(fn)
        return out
    raise ValueError(proto)


def protocol_queries(ctx, reg, case, pts, queries, areas):
    """history: build -> query -> pickle / deepcopy / copy / save+load -> query.  Both the original and the copy are
    queried again with the same positions (and asked for their area): judged by the same Spec clauses"""
    proto = case.get('protocol')
    if not proto:
        return
    reg2 = apply_protocol(ctx, reg, proto)
    for who, rr in (('orig', reg), ('copy', reg2)):
        got, qcalls = query_real(rr, pts, False, 'array')
        queries.append((False, f'array:{who}-after-{proto}', pts, got, qcalls))
        if areas is not None:
            areas.append(('sr', float(rr.get_area(degrees=False))))
    ctx.count('object protocol after queries: ' + proto)


def depth_str(d):
    return 'none' if d is None else str(d)


def in_units(p, degin):
    return (math.degrees(p[0]), math.degrees(p[1])) if degin else (p[0], p[1])


def check_within_handoff(ctx, case, pts, degin, form, calls, lean_within, sig_base):
    """compare the ang2pix calls made by sky_within with the Lean `within` model; returns model (theta, phi) per point"""
    m = case['maxdepth']
    thetas, phis, nsides, nests = [], [], [], []
    for name, a in calls:
        if name != 'ang2pix':
            continue
        th, ph = np.ravel(a['theta']), np.ravel(a['phi'])
        thetas.extend(th.tolist())
        phis.extend(ph.tolist())
        nsides.extend([int(a['nside'])] * len(th))
        nests.extend([bool(a['nest'])] * len(th))
    if len(thetas) != len(pts):
        ctx.fail('corr', dict(case, degin=degin, form=form), f'sky_within made ang2pix calls for {len(thetas)} positions, expected {len(pts)}',
                 dict(sig_base, what='handoff-ang2pix-count'))
        return
    for i, (p, lw) in enumerate(zip(pts, lean_within)):
        if lw == 'masked':
            # the code zeroes masked rows before calling ang2pix
            ok = thetas[i] == 0 and phis[i] == 0
            exp = 'theta=phi=0 (masked row)'
        else:
            w = lw.split()
            th_l, ph_l = h2f(w[1]), h2f(w[2])
            ok = (nsides[i] == int(w[0]) and nests[i] == (w[3] == '1')
                  and common.close(thetas[i], th_l, rel=1e-14, abs_=1e-15) and common.close(phis[i], ph_l, rel=1e-14, abs_=1e-15))
            exp = f'nside={w[0]} theta={th_l!r} phi={ph_l!r} nest={w[3]}'
        if not ok:
            ctx.fail('corr', dict(case, degin=degin, form=form, point=list(in_units(p, degin)), tag=p[2]),
                     f'ang2pix received nside={nsides[i]} theta={thetas[i]!r} phi={phis[i]!r} nest={nests[i]}; model: {exp}',
                     dict(sig_base, what='handoff-ang2pix'))
            return


def model_inside(case, dsets, lean_within):
    """model answer per point: ancestor at depth d of ang2pix(2^m, θ_L, φ_L) is in the union of the returned sets"""
    import healpy as hp
    m, d = case['maxdepth'], case['deff']
    out = []
    th, ph, idx = [], [], []
    for i, lw in enumerate(lean_within):
        if lw == 'masked':
            out.append(False)
        else:
            w = lw.split()
            out.append(None)
            th.append(h2f(w[1]))
            ph.append(h2f(w[2]))
            idx.append(i)
    if idx:
        pix = hp.ang2pix(2 ** m, np.array(th), np.array(ph), nest=True) >> (2 * (m - d))
        allp = set()
        for s in dsets:
            allp |= s
        for i, p in zip(idx, pix.tolist()):
            out[i] = p in allp
    return out


def lean_disc_sets(ctx, case, lean_circ):
    """query_disc with the arguments the Lean hand-off model computes"""
    import healpy as hp
    sets, parsed = [], []
    for lc in lean_circ:
        w = lc.split()
        depth, nside = int(w[0]), int(w[1])
        vec = np.array(parse_floats(w[2:5]))
        r = h2f(w[5])
        incl, nest = w[6] == '1', w[7] == '1'
        fact = int(w[8])
        parsed.append(dict(depth=depth, nside=nside, vec=vec, radius=r, inclusive=incl, nest=nest, fact=fact))
        sets.append(set(hp.query_disc(nside, vec, r, inclusive=incl, fact=fact, nest=nest).tolist()))
    return sets, parsed


def drive(ctx, gens):
    """run case coroutines in lockstep so that all their driver requests share one `lake env lean --run`"""
    pending = []
    for g in gens:
        try:
            pending.append((g, next(g)))
        except StopIteration:
            pass
    while pending:
        lines = [l for _, req in pending for l in req]
        ans = ctx.driver.batch(lines) if lines else []
        nxt, k = [], 0
        for g, req in pending:
            part = ans[k:k + len(req)]
            k += len(req)
            try:
                nxt.append((g, g.send(part)))
            except StopIteration:
                pass
        pending = nxt


def run_one(ctx, gen):
    n0 = len(ctx.failures)
    drive(ctx, [gen])
    return ctx.failures[n0:]


COMBOS = [(False, 'array'), (True, 'array'), (False, 'scalar'), (True, 'scalar')]


def query_all(reg, pts, spec_only, bad_array, bad_scalar, stride_div):
    """the real sky_within for every (degin, form) combination; list of (degin, form, points, answers, calls)"""
    out = []
    for degin, form in COMBOS:
        if spec_only and form == 'scalar':
            continue
        sub = pts if form == 'array' else pts[:: max(1, len(pts) // stride_div)]
        allp = sub + (bad_array if form == 'array' else bad_scalar)
        got, qcalls = query_real(reg, allp, degin, form)
        out.append((degin, form, allp, got, qcalls))
    return out


def run_circle_case(ctx, case, pts, spec_only=False):
    """coroutine: yields lists of driver lines, receives the answers; reports through ctx"""
    m, d = case['maxdepth'], case['deff']
    pix = pix_size(d)
    sig_base = dict(shape='circle', centre=case.get('centre_class', '?'), form=case['form'])
    cs = case['circles']
    single = len(cs) == 1
    try:
        stage = 'add_circles'
        reg, calls = build_circle_region(case)
        stage = 'get_area'
        areas = []          # (unit, value) in the order the case asks for; 'repr' calls repr(region) (deg^2 inside)
        if single:
            for u in case.get('area_order', ['sr', 'deg']):
                if u == 'repr':
                    repr(reg)
                else:
                    areas.append((u, float(reg.get_area(degrees=(u == 'deg')))))
        stage = 'sky_within'
        queries = query_all(reg, pts, spec_only, BAD_POINTS, BAD_POINTS[:2], 6)
        stage = 'sky_within / get_area after ' + str(case.get('protocol'))
        protocol_queries(ctx, reg, case, pts + BAD_POINTS[:2], queries, areas if single else None)
    except ArgumentMutated as e:
        ctx.case(case_pub(case), ('mutated', case['id']))
        ctx.fail('spec', dict(case, observe='add_circles'), str(e), dict(sig_base, what='argument-mutated'))
        return
    except Exception as e:
        ctx.case(case_pub(case), ('raise', case['id']))
        ctx.fail('spec', dict(case, observe=stage), f'{stage} raised {type(e).__name__}: {e} on a valid circle / position list',
                 dict(sig_base, what='raises', stage=stage, error=type(e).__name__))
        return
    del reg
    # ---- round 1: hand-off model ----
    req = [f"circ {m} {depth_str(case['depth'])} {hexes(*c)}" for c in cs] + [f"pix {d}"]
    for degin, form, allp, got, qcalls in queries:
        req += [f"within {m} {1 if degin else 0} {hexes(*in_units(p, degin))}" for p in allp]
    ans = yield req
    lean_circ, la0 = ans[:len(cs)], ans[len(cs)]
    k = len(cs) + 1
    lws = []
    for degin, form, allp, got, qcalls in queries:
        lws.append(ans[k:k + len(allp)])
        k += len(allp)
    dsets, parsed = lean_disc_sets(ctx, case, lean_circ)
    if not spec_only:
        dcalls = [a for n, a in calls if n == 'query_disc']
        if len(dcalls) != len(cs):
            ctx.fail('corr', case, f'add_circles made {len(dcalls)} query_disc calls for {len(cs)} circles', dict(sig_base, what='handoff-disc-count'))
        ins = [a['depth'] for n, a in calls if n == 'add_pixels']
        # only what the theorems use: every insertion happens at the model's depth (how many add_pixels calls carry the
        # pixels — one per circle or one for all — is left free)
        if not ins or set(ins) != {pm['depth'] for pm in parsed}:
            ctx.fail('corr', case, f'add_pixels received depths {ins}; regenerated model: {sorted({pm["depth"] for pm in parsed})}',
                     dict(sig_base, what='handoff-add_pixels'))
        for a, pm in zip(dcalls, parsed):
            ok = (int(a['nside']) == pm['nside'] and bool(a['inclusive']) == pm['inclusive'] and bool(a['nest']) == pm['nest']
                  and int(a['fact']) == pm['fact'] and a.get('buff') is None
                  and args_close(a['vec'], pm['vec'], 1e-14) and common.close(float(a['radius']), pm['radius'], rel=1e-15))
            if not ok:
                ctx.fail('corr', case, f"query_disc received nside={a['nside']} vec={np.ravel(a['vec']).tolist()} radius={float(a['radius'])!r} "
                         f"inclusive={a['inclusive']} fact={a['fact']} nest={a['nest']}; model: nside={pm['nside']} vec={pm['vec'].tolist()} "
                         f"radius={pm['radius']!r} inclusive={pm['inclusive']} fact={pm['fact']} nest={pm['nest']}",
                         dict(sig_base, what='handoff-query_disc'))
                break
    # ---- round 2: Spec ----
    DEG2 = (180 / math.pi) ** 2
    req = [f"aspec {f2h(cs[0][2])} {d} {f2h(v if u == 'sr' else v / DEG2)}" for u, v in areas] if single else []
    plans = []
    for (degin, form, allp, got, qcalls), lw in zip(queries, lws):
        if not spec_only:
            check_within_handoff(ctx, case, allp, degin, form, qcalls, lw, sig_base)
        model = model_inside(case, dsets, lw)
        bests = []
        for p, g in zip(allp, got):
            if p[2].startswith(('nan', 'inf')):
                bests.append(None)
                continue
            best = None
            for c in cs:
                dist = vincenty(c[0], c[1], p[0], p[1])
                if best is None or dist - c[2] < best[0] - best[1]:
                    best = (dist, c[2], c)
            bests.append(best)
            req.append(f"cspec {f2h(best[1])} {f2h(pix)} {f2h(best[0])} {1 if g else 0}")
            req.append(f"sep {hexes(best[2][0], best[2][1], p[0], p[1])}")
        plans.append((degin, form, allp, got, model, bests))
    ans = iter((yield req))
    # ---- area (single circle only: the Spec speaks of one circle); judged in EACH unit, in the order asked ----
    if single:
        pa = h2f(la0.split()[1])
        ctx.count('area order ' + ','.join(case.get('area_order', ['sr', 'deg'])))
        for u, v in areas:
            ctx.case(dict(case_pub(case), kind='circle-area', unit=u), ('area', case['id'], u))
            ctx.count('area-cases ' + u)
            vsr = v if u == 'sr' else v / DEG2
            verdict = next(ans)
            if verdict != 'ok':
                k = 1 if u == 'sr' else DEG2
                ctx.fail('spec', dict(case, observe='get_area', unit=u, area=v),
                         f"get_area(degrees={u == 'deg'}) = {v!r} {'sr' if u == 'sr' else 'deg^2'} not between cap(r)={cap_area(cs[0][2]) * k!r} and "
                         f"cap(r+3pix)={cap_area(cs[0][2] + 3 * pix) * k!r} (get_area calls in order: {case.get('area_order', ['sr', 'deg'])}, then once more on the original and on the copy after "
                         f"the region was queried and went through {case.get('protocol')})",
                         dict(sig_base, what='area-between-caps', unit=u))
            elif not spec_only and not common.close(vsr, len(dsets[0]) * pa, rel=1e-9):
                ctx.fail('corr', case, f'get_area({u})={v!r}, model N*pixArea={len(dsets[0]) * pa * (1 if u == "sr" else DEG2)!r} (N={len(dsets[0])})',
                         dict(sig_base, what='area-model', unit=u))
    # ---- membership ----
    for degin, form, allp, got, model, bests in plans:
        for p, g, mo, b in zip(allp, got, model, bests):
            pc = dict(case_pub(case), point=list(in_units(p, degin)), tag=p[2], degin=degin, qform=form)
            if b is None:
                ctx.case(pc, ('c', case['id'], p[2], degin, form))
                ctx.count('nan-inf positions')
                if g:
                    ctx.fail('spec', dict(case, point=list(in_units(p, degin)), tag=p[2], degin=degin, qform=form),
                             f'non-finite position {p[:2]} reported inside', dict(sig_base, what='nan-inside'))
                continue
            dist, r = b[0], b[1]
            constrained = dist <= r or dist > r + 3 * pix
            ctx.case(pc, ('c', case['id'], f2h(p[0]), f2h(p[1]), degin, form) if constrained else None, sample_every=2500)
            ctx.count('circle:' + p[2] + (':degin' if degin else ''))
            ctx.count('circle-must-in' if dist <= r else ('circle-must-out' if dist > r + 3 * pix else 'circle-free-zone'))
            verdict = next(ans)
            ls = h2f(next(ans))
            tol = 1e-7 if dist > 2.5 else 1e-11
            if abs(ls - dist) > tol:
                ctx.fail('corr', pc, f'Lean sepHav={ls!r} vs independent great-circle distance {dist!r}', dict(sig_base, what='sep-crosscheck'))
            if verdict != 'ok':
                what = 'circle-contains' if dist <= r else 'circle-excludes'
                ctx.fail('spec', dict(case, point=list(in_units(p, degin)), tag=p[2], degin=degin, qform=form, inside=g,
                                      dist=dist, r=r, pix=pix),
                         f"position at distance {dist!r} rad from the centre (r={r!r}, r+3pix={r + 3 * pix!r}) reported "
                         f"{'inside' if g else 'outside'}", dict(sig_base, what=what, degin=degin))
            elif not spec_only and g != mo:
                ctx.fail('corr', dict(case, point=list(in_units(p, degin)), tag=p[2], degin=degin, qform=form),
                         f'sky_within={g}, model (ang2pix ancestor in query_disc set)={mo}', dict(sig_base, what='within-model', degin=degin))


def case_pub(case):
    return {k: v for k, v in case.items() if k not in ('deff',)}


# ---------------------------------------------------------------------------------------------
# polygons
# ---------------------------------------------------------------------------------------------

def tangent_frame(c):
    z = np.array([0, 0, 1.0]) if abs(c[2]) < 0.9 else np.array([1.0, 0, 0])
    e = np.cross(z, c)
    e /= np.linalg.norm(e)
    return e, np.cross(c, e)


def gen_polygon(rng, rac, decc, R, k):
    c = unit(rac, decc)
    e, n = tangent_frame(c)
    if rng.random() < 0.5:
        psi = [(i + rng.uniform(-0.3, 0.3)) * TWO_PI / k for i in range(k)]
    else:
        while True:
            psi = sorted(rng.uniform(0, TWO_PI) for _ in range(k))
            gaps = [(psi[(i + 1) % k] - psi[i]) % TWO_PI for i in range(k)]
            if min(gaps) > 0.3 and max(gaps) < math.pi - 0.2:
                break
    rot = rng.uniform(0, TWO_PI)
    psi = [(p + rot) % TWO_PI for p in psi]
    psi.sort()
    if rng.random() < 0.5:
        psi.reverse()
    vs = [math.cos(R) * c + math.sin(R) * (math.cos(p) * e + math.sin(p) * n) for p in psi]
    return [vec2radec(v) for v in vs]


def poly_margin(q, vs):
    """min over edges of the signed sine-distance to the edge plane, positive inside (independent half-space test)"""
    s = np.sign(np.dot(np.cross(vs[0], vs[1]), vs[2]))
    mrg = math.inf
    k = len(vs)
    for i in range(k):
        nrm = np.cross(vs[i], vs[(i + 1) % k])
        mrg = min(mrg, s * float(np.dot(q, nrm)) / float(np.linalg.norm(nrm)))
    return mrg


def gen_points_poly(rng, positions, rac, decc, R, pix, n_each):
    vs = [unit(*p) for p in positions]
    k = len(vs)
    pts = []
    cen = sum(vs) / np.linalg.norm(sum(vs))
    pts.append(vec2radec(cen) + ('centroid',))
    for _ in range(n_each):
        w = np.array([rng.gammavariate(1, 1) for _ in range(k)])
        q = sum(wi * v for wi, v in zip(w, vs))
        pts.append(vec2radec(q / np.linalg.norm(q)) + ('interior',))
    for _ in range(n_each):
        i = rng.randrange(k)
        t = 10 ** rng.uniform(-6, -2)
        if rng.random() < 0.5:
            q = (1 - t) * vs[i] + t * cen                       # just inside a vertex
            tag = 'in-vertex'
        else:
            mid = vs[i] + vs[(i + 1) % k]
            q = (1 - t) * mid / np.linalg.norm(mid) + t * cen   # just inside an edge
            tag = 'in-edge'
        pts.append(vec2radec(q / np.linalg.norm(q)) + (tag,))
    for _ in range(n_each):
        pts.append(offset(rac, decc, R + 3 * pix * rng.random(), rng.uniform(0, TWO_PI)) + ('gap',))
    far0 = R + 3 * pix
    for _ in range(n_each):
        pts.append(offset(rac, decc, min(math.pi, far0 * (1 + 10 ** rng.uniform(-7, -2)) + 1e-12), rng.uniform(0, TWO_PI)) + ('out-eps',))
    for _ in range(max(2, n_each // 2)):
        pts.append(offset(rac, decc, rng.uniform(far0, math.pi), rng.uniform(0, TWO_PI)) + ('far',))
    pts.append(offset(rac, decc, math.pi, 0.0) + ('antipode',))
    return pts


def run_poly_case(ctx, case, pts, spec_only=False):
    """coroutine, as run_circle_case"""
    import healpy as hp
    m, d = case['maxdepth'], case['deff']
    pix = pix_size(d)
    sig_base = dict(shape='polygon', centre=case.get('centre_class', '?'), nvert=len(case['positions']))
    flat = [x for p in case['positions'] for x in p]
    try:
        reg, calls = build_poly_region(case)
        err = None
    except AssertionError:
        err = 'assertion'
    except RuntimeError as e:   # healpy rejects (degenerate / not convex): judged after the model's arguments are known
        err = 'healpy:' + type(e).__name__
        err_text = f'{type(e).__name__}: {e}'
    except Exception as e:
        ctx.case(case_pub(case), ('raise', case['id']))
        ctx.fail('spec', dict(case, observe='add_poly'), f'add_poly raised {type(e).__name__}: {e} on a valid convex polygon',
                 dict(sig_base, what='raises', stage='add_poly', error=type(e).__name__))
        return
    try:
        queries = [] if err else query_all(reg, pts, spec_only, BAD_POINTS[:3], [], 5)
        if not err and pts:
            protocol_queries(ctx, reg, case, pts, queries, None)
    except Exception as e:
        ctx.case(case_pub(case), ('raise', case['id']))
        ctx.fail('spec', dict(case, observe='sky_within'), f'sky_within raised {type(e).__name__}: {e} on valid positions',
                 dict(sig_base, what='raises', stage='sky_within', error=type(e).__name__))
        return
    reg = None
    req = [f"poly {m} {depth_str(case['depth'])} {hexes(*flat)}"]
    for degin, form, allp, got, qcalls in queries:
        req += [f"within {m} {1 if degin else 0} {hexes(*in_units(p, degin))}" for p in allp]
    ans = yield req
    lp = ans[0]
    if lp == 'err assertion' or err == 'assertion':
        ctx.case(dict(case_pub(case), kind='poly-malformed'), ('pm', case['id']))
        ctx.count('poly-malformed')
        if (lp == 'err assertion') != (err == 'assertion'):
            ctx.fail('corr', case, f'add_poly outcome {err or "ok"}, model {lp[:30]}', dict(sig_base, what='poly-guard'))
        return
    if err:
        # add_poly raised inside healpy.  Is this exact input valid for healpy when handed over as the model says
        # (same vertices, same order)?  If yes, the code failed to build a region for a valid convex polygon: the
        # property ("contains every interior position") is violated.  If healpy rejects the model's arguments too,
        # the input is outside the property (degenerate / not convex for healpy) and is only counted.
        w = lp.split()
        verts0 = np.array(parse_floats(w[5:])).reshape(-1, 3)
        try:
            hp.query_polygon(int(w[1]), verts0, inclusive=(w[2] == '1'), fact=int(w[4]), nest=(w[3] == '1'))
            accepted = True
        except Exception:
            accepted = False
        if accepted:
            ctx.case(case_pub(case), ('raise', case['id']))
            ctx.fail('spec', dict(case, observe='add_poly'),
                     f'add_poly raised {err_text} on a convex polygon that healpy.query_polygon accepts with the vertices in the order given '
                     f'({len(case["positions"])} vertices, circumcentre ra={case["circum"][0]!r} dec={case["circum"][1]!r}, R={case["circum"][2]!r}): '
                     f'no region containing the interior is built',
                     dict(sig_base, what='raises', stage='add_poly', error='RuntimeError'))
        else:
            ctx.count('poly-rejected-by-' + err + ' (model arguments rejected too)')
        return
    k = 1
    lws = []
    for degin, form, allp, got, qcalls in queries:
        lws.append(ans[k:k + len(allp)])
        k += len(allp)
    w = lp.split()
    depth, nside, incl, nest, fact = int(w[0]), int(w[1]), w[2] == '1', w[3] == '1', int(w[4])
    verts = np.array(parse_floats(w[5:])).reshape(-1, 3)
    dset = set(hp.query_polygon(nside, verts, inclusive=incl, fact=fact, nest=nest).tolist())
    if not spec_only:
        pc = [a for n, a in calls if n == 'query_polygon']
        ok = len(pc) == 1
        if ok:
            a = pc[0]
            ok = (int(a['nside']) == nside and bool(a['inclusive']) == incl and bool(a['nest']) == nest and int(a['fact']) == fact
                  and a.get('buff') is None and np.shape(a['vertices']) == verts.shape and args_close(a['vertices'], verts, 1e-14))
        ins = [a['depth'] for n, a in calls if n == 'add_pixels']
        if not ins or set(ins) != {depth}:
            ctx.fail('corr', case, f'add_pixels received depths {ins}; regenerated model: {[depth]}', dict(sig_base, what='handoff-add_pixels'))
        if not ok:
            ctx.fail('corr', case, f'query_polygon calls {[(int(a["nside"]), bool(a["inclusive"]), bool(a["nest"]), int(a["fact"]), np.shape(a["vertices"])) for a in pc]}; '
                     f'model nside={nside} inclusive={incl} nest={nest} fact={fact} vertices={verts.tolist()}', dict(sig_base, what='handoff-query_polygon'))
    vs = [unit(*p) for p in case['positions']]
    rac, decc, R = case['circum']
    req, plans = [], []
    for (degin, form, allp, got, qcalls), lw in zip(queries, lws):
        if not spec_only:
            check_within_handoff(ctx, case, allp, degin, form, qcalls, lw, sig_base)
        model = model_inside(case, [dset], lw)
        recs = []
        for p, g in zip(allp, got):
            if p[2].startswith(('nan', 'inf')):
                recs.append(None)
                continue
            mrg = poly_margin(unit(p[0], p[1]), vs)
            interior = mrg > 1e-13
            dist = vincenty(rac, decc, p[0], p[1])
            recs.append((interior, dist, mrg))
            req.append(f"pspec {1 if interior else 0} {f2h(R)} {f2h(pix)} {f2h(dist)} {1 if g else 0}")
        plans.append((degin, form, allp, got, model, recs))
    verdicts = iter((yield req))
    for degin, form, allp, got, model, recs in plans:
        for p, g, mo, rc in zip(allp, got, model, recs):
            pcase = dict(case_pub(case), point=list(in_units(p, degin)), tag=p[2], degin=degin, qform=form)
            if rc is None:
                ctx.case(pcase, ('p', case['id'], p[2], degin, form))
                ctx.count('nan-inf positions')
                if g:
                    ctx.fail('spec', dict(case, point=list(in_units(p, degin)), tag=p[2], degin=degin, qform=form),
                             f'non-finite position {p[:2]} reported inside', dict(sig_base, what='nan-inside'))
                continue
            interior, dist, mrg = rc
            constrained = interior or dist > R + 3 * pix
            ctx.case(pcase, ('p', case['id'], f2h(p[0]), f2h(p[1]), degin, form) if constrained else None, sample_every=2500)
            ctx.count('poly:' + p[2] + (':degin' if degin else ''))
            ctx.count('poly-must-in' if interior else ('poly-must-out' if dist > R + 3 * pix else 'poly-free-zone'))
            if next(verdicts) != 'ok':
                what = 'poly-contains' if interior else 'poly-excludes'
                ctx.fail('spec', dict(case, point=list(in_units(p, degin)), tag=p[2], degin=degin, qform=form, inside=g,
                                      interior=bool(interior), edge_margin=mrg, dist_from_circumcentre=dist, R=R, pix=pix),
                         f"position ({'interior, edge margin %r' % mrg if interior else 'at %r rad from the circumcentre, R+3pix=%r' % (dist, R + 3 * pix)}) "
                         f"reported {'inside' if g else 'outside'}", dict(sig_base, what=what, degin=degin))
            elif not spec_only and g != mo:
                ctx.fail('corr', dict(case, point=list(in_units(p, degin)), tag=p[2], degin=degin, qform=form),
                         f'sky_within={g}, model (ang2pix ancestor in query_polygon set)={mo}', dict(sig_base, what='within-model', degin=degin))


# ---------------------------------------------------------------------------------------------
# conversions: translator validation, boundaries, round trip
# ---------------------------------------------------------------------------------------------

def conversion_checks(ctx, n):
    from AegeanTools.regions import Region
    rng = ctx.rng
    below = math.nextafter(TWO_PI, 0.0)
    ras = [0.0, below, math.pi, math.nextafter(math.pi, 4.0), 1e-300, math.radians(360 - 1e-9)]
    decs = [HALF_PI, -HALF_PI, HALF_PI - 1e-12, -(HALF_PI - 1e-12), 0.0, HALF_PI - 1e-6, -(HALF_PI - 1e-3)]
    pos = [(a, d) for a in ras for d in decs]
    pos += [(rng.uniform(0, TWO_PI), math.asin(rng.uniform(-1, 1))) for _ in range(n)]
    sky = np.array(pos)
    try:
        stage = 'sky2ang'
        ang = Region.sky2ang(sky)
        stage = 'sky2vec'
        vec = Region.sky2vec(sky)
        stage = 'vec2sky'
        Region.vec2sky(vec)
    except Exception as e:
        # find one concrete position on which the conversion raises
        bad = None
        for a, d in pos:
            try:
                Region.vec2sky(Region.sky2vec(np.array([[a, d]])))
            except Exception:
                bad = (a, d)
                break
        ctx.case(dict(kind='roundtrip', ra=bad and bad[0], dec=bad and bad[1]), ('raise', stage))
        ctx.fail('spec', dict(kind='roundtrip', ra=bad and bad[0], dec=bad and bad[1]),
                 f'{stage} raised {type(e).__name__}: {e} for a position with 0<=ra<2pi, |dec|<=pi/2',
                 dict(what='raises', stage=stage, error=type(e).__name__))
        return
    lv = ctx.driver.batch([f"s2v {hexes(a, d)}" for a, d in pos])
    la = ctx.driver.batch([f"s2a {hexes(a, d)}" for a, d in pos])
    for (a, d), tp, l in zip(pos, ang, la):
        mt, mp = parse_floats(l.split())
        if not (common.close(tp[0], mt, rel=1e-15, abs_=1e-16) and common.close(tp[1], mp, rel=1e-15, abs_=0.0)):
            ctx.fail('corr', dict(kind='sky2ang', ra=a, dec=d), f'Region.sky2ang={tp.tolist()} regenerated model={[mt, mp]}', dict(what='sky2ang-model'))
    notes = {}
    for (a, d), v, tp, l in zip(pos, vec, ang, lv):
        cls = 'pole' if abs(d) == HALF_PI else ('ra-boundary' if a in (0.0, below) else 'generic')
        ctx.case(dict(kind='sky2vec', ra=a, dec=d), ('s2v', f2h(a), f2h(d)))
        ctx.count('sky2vec:' + cls)
        lvv = parse_floats(l.split())
        if not args_close(v, lvv, 1e-14):
            ctx.fail('corr', dict(kind='sky2vec', ra=a, dec=d), f'Region.sky2vec={v.tolist()} model={lvv}', dict(what='sky2vec-model'))
        if not (tp[0] == math.pi / 2 - d and tp[1] == a):
            ctx.fail('spec', dict(kind='sky2ang', ra=a, dec=d), f'sky2ang gave (theta, phi)={tp.tolist()}, expected (pi/2-dec, ra)', dict(what='sky2ang-convention'))
        if abs(float(np.dot(v, v)) - 1) > 1e-14:
            ctx.fail('spec', dict(kind='sky2vec', ra=a, dec=d), f'|sky2vec|^2={float(np.dot(v, v))!r}', dict(what='sky2vec-unit'))
    for deg in (False, True):
        back = Region.vec2sky(vec, degrees=deg)
        lb = ctx.driver.batch([f"v2s {1 if deg else 0} {hexes(*v)}" for v in vec])
        sc = 180 / math.pi if deg else 1.0
        for (a, d), v, b, l in zip(pos, vec, back, lb):
            ctx.case(dict(kind='vec2sky', ra=a, dec=d, degrees=deg), ('v2s', f2h(a), f2h(d), deg))
            la, ld = parse_floats(l.split())
            if not (common.close(b[0], la, rel=1e-13, abs_=1e-12 * sc) and common.close(b[1], ld, rel=1e-13, abs_=1e-12 * sc)):
                ctx.fail('corr', dict(kind='vec2sky', vec=v.tolist(), degrees=deg), f'Region.vec2sky={b.tolist()} model={[la, ld]}', dict(what='vec2sky-model'))
            # the round trip the theorems state (over the reals); rounding of arccos near |z| = 1 costs ~1e-8 in dec
            if abs(b[1] / sc - d) > 3e-8:
                ctx.fail('spec', dict(kind='roundtrip', ra=a, dec=d, degrees=deg), f'vec2sky(sky2vec(p)) dec={b[1] / sc!r} for dec={d!r}', dict(what='roundtrip-dec'))
            if abs(d) < HALF_PI - 1e-7:
                da = abs(b[0] / sc - a)
                da = min(da, TWO_PI - da)
                if da > 1e-9 / math.cos(d):
                    ctx.fail('spec', dict(kind='roundtrip', ra=a, dec=d, degrees=deg), f'vec2sky(sky2vec(p)) ra={b[0] / sc!r} for ra={a!r}', dict(what='roundtrip-ra'))
                if not (0 <= b[0] / sc < TWO_PI + 1e-15):
                    ctx.fail('spec', dict(kind='roundtrip', ra=a, dec=d, degrees=deg), f'ra {b[0]!r} outside [0, 2pi)', dict(what='roundtrip-ra-range'))
            elif abs(d) == HALF_PI and not deg:
                notes.setdefault('pole', []).append((a, d, float(b[0])))
    if notes.get('pole'):
        npole = sorted({round(x[2], 12) for x in notes['pole'] if x[1] > 0})
        spole = [x for x in notes['pole'] if x[1] < 0]
        ctx.extra['pole_behaviour'] = dict(
            north="dec=+pi/2 (float): theta=0, sky2vec gives (+-0,+-0,1) and vec2sky answers ra in %s whatever ra went in (signed zeros give pi; "
                  "over the reals 0: theorem vec2sky_pole_ra) - ra is not recoverable at the pole" % npole,
            south="dec=-pi/2 (float): theta = float(pi), sin(theta) = 1.2e-16 != 0, so ra is recovered (%d/%d within 1e-9) — a rounding artefact, "
                  "outside the theorem's domain" % (sum(1 for a, d, r in spole if min(abs(r - a), TWO_PI - abs(r - a)) < 1e-9), len(spole)))


# ---------------------------------------------------------------------------------------------
# contract sampling (labelled as such; not a proof)
# ---------------------------------------------------------------------------------------------

def sample_contract(ctx, n_disc, n_poly, max_depth):
    """the contract is sampled AT THE OVERSAMPLING FACTORS THE CODE USES (regenerated from the source: Gen.C09.discFact /
    polyFact, healpy's default 4 when `fact=` is not passed).  The property leaves the factor free; the theorems hold for
    every factor whose slack satisfies 2*rho + slack <= 3 pixel sizes, and that numeric hypothesis is what is checked here:
    if the factor in use violates it (fact = 1: 3.13 pixel sizes) the exclusion clause is no longer a theorem about this
    code => 'corr' failure (what='contract-hypothesis'), not a broken check."""
    import healpy as hp
    rng = ctx.rng
    dfact, pfact = (int(x) for x in ctx.driver.batch(['facts'])[0].split())
    rep = dict(label='SAMPLED contract of healpy (assumption of the _partial theorems), not proved',
               fact_used=dict(query_disc=dfact, query_polygon=pfact))
    for nm, fct in (('query_disc', dfact), ('query_polygon', pfact)):
        if fct < 1 or fct & (fct - 1):
            ctx.note(f'{nm} is handed fact={fct}, not a power of two >= 1: healpy rejects it in the nested scheme; contract not sampled')
            ctx.extra['contract_sampled'] = rep
            return
    # numeric bound, every depth the property names (and beyond)
    worst = 0
    for d in range(0, 14):
        ns = 2 ** d
        v = (2 * hp.max_pixrad(ns) + hp.max_pixrad(min(dfact * ns, 2 ** 29))) / hp.nside2resol(ns)
        worst = max(worst, v)
        if not common.close(hp.nside2resol(ns), pix_size(d), rel=1e-12):
            raise RuntimeError(f'contract sample falsified: nside2resol({ns}) != sqrt(4pi/(12*4^d))')
        if not common.close(hp.nside2pixarea(ns), 4 * math.pi / (12 * 4 ** d), rel=1e-12):
            raise RuntimeError(f'contract sample falsified: nside2pixarea({ns})')
    rep[f'max (2*rho + rho_fine(fact={dfact}))/pixsize, depth 0..13'] = worst
    if worst > 3:
        ctx.fail('corr', dict(kind='contract-hypothesis', fact=dfact, bound_in_pixel_sizes=worst),
                 f'add_circles hands fact={dfact} to healpy.query_disc; for that oversampling factor the contract only gives '
                 f'r + 2*rho + rho_fine = r + {worst:.3f} pixel sizes, so the hypothesis 2*rho + slack <= 3 pixel sizes of '
                 f'circle_excludes_beyond_partial is false and the exclusion clause is not a theorem about this code',
                 dict(what='contract-hypothesis', shape='circle', fact=dfact))
    # ang2pix: contains q (its centre is the nearest-ish: within rho), nesting
    nq = 4000
    z = np.array([rng.uniform(-1, 1) for _ in range(nq)])
    z[:20] = 1.0
    z[20:40] = -1.0
    ph = np.array([rng.uniform(0, TWO_PI) for _ in range(nq)])
    ph[40:60] = 0.0
    ph[60:80] = math.nextafter(TWO_PI, 0)
    th = np.arccos(z)
    q = np.array([np.sin(th) * np.cos(ph), np.sin(th) * np.sin(ph), np.cos(th)]).T
    wr = 0
    for d in range(0, 13):
        ns = 2 ** d
        p = hp.ang2pix(ns, th, ph, nest=True)
        cen = np.array(hp.pix2vec(ns, p, nest=True)).T
        wr = max(wr, float(np.max(vec_angle(q, cen)) / hp.max_pixrad(ns)))
        if d < 12:
            p2 = hp.ang2pix(2 * ns, th, ph, nest=True)
            if not np.array_equal(p2 >> 2, p):
                raise RuntimeError(f'contract sample falsified: nesting at depth {d}')
    rep['max angle(q, centre(ang2pix q))/rho'] = wr
    if wr > 1 + 1e-9:
        raise RuntimeError(f'contract sample falsified: a point lies {wr} rho from its pixel centre')
    # query_disc
    ws, miss = 0.0, 0
    for t in range(n_disc):
        d = rng.randint(1, max_depth)
        ns = 2 ** d
        rho, rhof = hp.max_pixrad(ns), hp.max_pixrad(dfact * ns)
        ra, dec = gen_centre(rng, CENTRE_CLASSES[t % len(CENTRE_CLASSES)])
        v = unit(ra, dec)
        r = math.radians(10 ** rng.uniform(-2, math.log10(60)))
        D = hp.query_disc(ns, v, r, inclusive=True, fact=dfact, nest=True)
        allp = np.arange(12 * ns * ns)
        cen = np.array(hp.pix2vec(ns, allp, nest=True)).T
        dist = vec_angle(cen, v)
        ws = max(ws, float((dist[D].max() - r) / (rho + rhof)))
        inD = np.zeros(len(allp), bool)
        inD[D] = True
        miss += int(np.sum((dist <= r) & ~inD))
        f = 4
        fine = ns << f
        fp = hp.query_disc(fine, v, r + hp.max_pixrad(fine), inclusive=False, nest=True)
        if len(fp) < 400000:
            fv = np.array(hp.pix2vec(fine, fp, nest=True)).T
            okf = vec_angle(fv, v) <= r
            miss += int(np.sum(~inD[np.unique(fp[okf] >> (2 * f))]))
        ctx.count('contract-sample:query_disc')
    rep['query_disc: max (centre distance - r)/(rho + rho_fine) over returned pixels'] = ws
    rep['query_disc: pixels meeting the disc (16x finer grid) but not returned'] = miss
    if ws > 1 + 1e-9 or miss:
        raise RuntimeError(f'contract sample falsified: query_disc soundness ratio {ws}, missing {miss}')
    # query_polygon
    wp, missp, npoly = 0.0, 0, 0
    for t in range(n_poly):
        d = rng.randint(2, min(5, max_depth))
        ns = 2 ** d
        rho = hp.max_pixrad(ns)
        rac, decc = gen_centre(rng, CENTRE_CLASSES[t % len(CENTRE_CLASSES)])
        R = math.radians(10 ** rng.uniform(-0.5, math.log10(60)))
        k = rng.randint(3, 8)
        pos = gen_polygon(rng, rac, decc, R, k)
        vs = np.array([unit(*p) for p in pos])
        try:
            D = hp.query_polygon(ns, vs, inclusive=True, fact=pfact, nest=True)
        except Exception:
            ctx.count('contract-sample:polygon-rejected')
            continue
        npoly += 1
        f = 3
        sub = (D[:, None] << (2 * f)) + np.arange(4 ** f)[None, :]
        sv = np.array(hp.pix2vec(ns << f, sub.ravel(), nest=True)).T
        pd = poly_dist(sv, vs).reshape(sub.shape).min(axis=1)
        wp = max(wp, float(pd.max() / rho))
        allf = np.arange(12 * (ns << 2) ** 2)
        fv = np.array(hp.pix2vec(ns << 2, allf, nest=True)).T
        ins = poly_inside(fv, vs)
        inD = np.zeros(12 * ns * ns, bool)
        inD[D] = True
        missp += int(np.sum(~inD[np.unique(allf[ins] >> 4)]))
        ctx.count('contract-sample:query_polygon')
    rep['query_polygon: polygons sampled'] = npoly
    rep['query_polygon: max over returned pixels of (distance pixel->polygon)/rho (on an 8x finer grid) = slack/rho'] = wp
    rep['query_polygon: pixels meeting the polygon (4x finer grid) but not returned'] = missp
    rho_ratio = hp.max_pixrad(4096) / hp.nside2resol(4096)
    rep['2*rho + sampled slack, in pixel sizes'] = (2 + wp) * rho_ratio
    if missp:
        raise RuntimeError(f'contract sample falsified: query_polygon missing {missp}')
    if (2 + wp) * rho_ratio > 3:
        ctx.fail('corr', dict(kind='contract-hypothesis', fact=pfact, bound_in_pixel_sizes=(2 + wp) * rho_ratio),
                 f'add_poly hands fact={pfact} to healpy.query_polygon; the sampled slack {wp:.3f} rho gives 2*rho + slack = '
                 f'{(2 + wp) * rho_ratio:.3f} pixel sizes > 3, so the hypothesis of poly_excludes_beyond_partial is false for this code',
                 dict(what='contract-hypothesis', shape='polygon', fact=pfact))
    ctx.extra['contract_sampled'] = rep


def poly_inside(q, vs):
    s = np.sign(np.dot(np.cross(vs[0], vs[1]), vs[2]))
    ins = np.ones(len(q), bool)
    k = len(vs)
    for i in range(k):
        ins &= (s * (q @ np.cross(vs[i], vs[(i + 1) % k])) >= 0)
    return ins


def poly_dist(q, vs):
    """distance from points q (N,3) to the closed convex polygon (0 inside)"""
    k = len(vs)
    d = np.full(len(q), np.inf)
    for i in range(k):
        a, b = vs[i], vs[(i + 1) % k]
        n = np.cross(a, b)
        n = n / np.linalg.norm(n)
        qp = q - np.outer(q @ n, n)
        nn = np.linalg.norm(qp, axis=1, keepdims=True)
        qp = qp / np.where(nn == 0, 1, nn)
        on = (np.cross(a, qp) @ n >= 0) & (np.cross(qp, b) @ n >= 0)
        dd = np.where(on, np.abs(np.arcsin(np.clip(q @ n, -1, 1))), np.minimum(vec_angle(q, a), vec_angle(q, b)))
        d = np.minimum(d, dd)
    return np.where(poly_inside(q, vs), 0.0, d)


# ---------------------------------------------------------------------------------------------
# case construction / entry points
# ---------------------------------------------------------------------------------------------

AREA_ORDERS = [['sr', 'deg'], ['deg', 'sr'], ['repr', 'sr', 'deg'], ['deg', 'sr', 'deg', 'sr']]


def make_circle_case(ctx, k, budget):
    rng = ctx.rng
    m, darg, deff, r, cls = gen_shape_params(ctx, rng, k, budget)
    ra, dec = gen_centre(rng, cls)
    circles = [(ra, dec, r)]
    sel = k % 6
    if sel in (1, 2):
        form = 'scalar'
    elif sel == 0:
        form = VECTOR_FORMS[(k // 6) % len(VECTOR_FORMS)]           # one circle through every list-like form
        if form == 'sequential':
            form = 'vector'
    elif sel in (3, 5):
        # several circles in one call, distinct centres nearby, same depth (one query_disc call each)
        form = VECTOR_FORMS[(k // 6) % len(VECTOR_FORMS)]
        for _ in range(rng.choice([1, 2])):
            a2, d2 = offset(ra, dec, r * rng.uniform(0.5, 3) + pix_size(deff), rng.uniform(0, TWO_PI))
            circles.append((a2, d2, r * rng.uniform(0.3, 1.0)))
    else:
        # REPEATED centre (bit-identical ra, dec) with different radii, every ordering of small / large, optionally
        # interleaved with another centre: each listed circle must be covered
        form = VECTOR_FORMS[(k // 6) % len(VECTOR_FORMS)]
        small = max(math.radians(0.01), r * rng.uniform(0.2, 0.6))
        a2, d2 = offset(ra, dec, r * rng.uniform(1.5, 3) + pix_size(deff), rng.uniform(0, TWO_PI))
        other = (a2, d2, small)
        layouts = [[(ra, dec, small), (ra, dec, r)],
                   [(ra, dec, r), (ra, dec, small)],
                   [(ra, dec, small), other, (ra, dec, r)],
                   [other, (ra, dec, small), (ra, dec, r), (ra, dec, small)],
                   [(ra, dec, small), (ra, dec, r), other],
                   [(ra, dec, r), other, (ra, dec, small)]]
        circles = layouts[(k // 6) % len(layouts)]
        cls = cls + '+repeat'
    case = dict(kind='circle', id=f'c{k}', maxdepth=m, depth=darg, deff=deff, circles=circles, form=form, centre_class=cls)
    if len(circles) == 1:
        case['area_order'] = AREA_ORDERS[(k // 2) % len(AREA_ORDERS)]
    case['protocol'] = PROTOCOLS[k % len(PROTOCOLS)]
    case['scalar_type'] = SCALAR_TYPES[(k // 3) % len(SCALAR_TYPES)]
    return case


def make_poly_case(ctx, k, budget):
    rng = ctx.rng
    m, darg, deff, R, cls = gen_shape_params(ctx, rng, k, budget)
    R = max(R, math.radians(0.05))
    rac, decc = gen_centre(rng, cls)
    nv = 3 + k % 6
    pos = gen_polygon(rng, rac, decc, R, nv)
    return dict(kind='polygon', id=f'p{k}', maxdepth=m, depth=darg, deff=deff, positions=[list(p) for p in pos],
                circum=[rac, decc, R], centre_class=cls, protocol=PROTOCOLS[(k + 2) % len(PROTOCOLS)])


def malformed_cases():
    """fewer than three polygon positions"""
    out = []
    for k, pos in enumerate([[[0.1, 0.2]], [[0.1, 0.2], [0.3, 0.2]]]):
        out.append(dict(kind='polygon', id=f'pm{k}', maxdepth=6, depth=5, deff=5, positions=pos, circum=[0.2, 0.2, 0.2],
                        centre_class='malformed'))
    return out


CHUNK = 16


# ---------------------------------------------------------------------------------------------
# adversarial pixel geometry: the acute tips of the most elongated pixels, base-pixel corners,
# the polar-cap / equatorial-belt transition
# ---------------------------------------------------------------------------------------------

_TIPS = {}


def _normalise(v):
    return v / np.linalg.norm(v, axis=-1, keepdims=True)


def tip_pixels(depth, keep=16):
    """per depth, the pixels maximising (corner-to-centre distance) / nside2resol, found with hp.boundaries.
    Exhaustive up to depth 5; deeper, candidates are the pixels (and their neighbours) around the long
    diagonals of depth 5's extremes, around the base-pixel corners and on the |z| = 2/3 transition, where
    the elongated pixels sit at every depth.  Returns [(ratio, pixel, centre, corners(4,3), far corner index)]."""
    import healpy as hp
    if depth in _TIPS:
        return _TIPS[depth]
    ns = 2 ** depth
    if depth <= 5:
        cand = np.arange(12 * ns * ns)
    else:
        pts = []
        for ratio, p, c0, cs, k in tip_pixels(5, keep):
            for j in range(4):
                for f in (1e-4, 1e-3, 3e-3, 1e-2, 3e-2, 0.1):
                    pts.append((1 - f) * cs[j] + f * c0)
        base = hp.boundaries(1, np.arange(12), step=1, nest=True)          # (12, 3, 4)
        for b in range(12):
            c0 = np.array(hp.pix2vec(1, b, nest=True))
            for j in range(4):
                for f in (1e-4, 1e-3, 1e-2):
                    pts.append((1 - f) * base[b, :, j] + f * c0)
        for i in range(64):                                               # the transition ring |z| = 2/3
            ph = (i + 0.37) * TWO_PI / 64
            for z in (2 / 3, -2 / 3):
                for dz in (-1e-3, 1e-3):
                    zz = z + dz
                    pts.append(np.array([math.sqrt(1 - zz * zz) * math.cos(ph), math.sqrt(1 - zz * zz) * math.sin(ph), zz]))
        pts = _normalise(np.array(pts))
        th, ph = hp.vec2ang(pts)
        cand = np.unique(hp.ang2pix(ns, th, ph, nest=True))
        nb = hp.get_all_neighbours(ns, cand, nest=True).ravel()
        cand = np.unique(np.concatenate([cand, nb[nb >= 0]]))
    bnd = np.moveaxis(hp.boundaries(ns, cand, step=1, nest=True), 1, 2)   # (N, 4, 3)
    cen = np.array(hp.pix2vec(ns, cand, nest=True)).T                      # (N, 3)
    dist = vec_angle(bnd, cen[:, None, :])                                 # (N, 4)
    ratio = dist.max(axis=1) / hp.nside2resol(ns)
    order = np.argsort(-ratio, kind='stable')[:keep]
    out = [(float(ratio[i]), int(cand[i]), cen[i], bnd[i], int(np.argmax(dist[i]))) for i in order]
    _TIPS[depth] = out
    return out


def tip_cases(ctx, depths, npix, thorough):
    """circle cases placed in pixel tips.
    A: sub-pixel disc whose centre lies in the outer few % of the long diagonal of an elongated pixel;
    B: a larger disc whose edge reaches only the outer few % of that diagonal (centre outside the pixel)."""
    import healpy as hp
    rng = ctx.rng
    out = []
    for depth in depths:
        ns = 2 ** depth
        pix = pix_size(depth)
        tips = tip_pixels(depth)
        ctx.count(f'tip ratio depth {depth}: {tips[0][0]:.4f}')
        chosen = tips[:npix] + ([tips[rng.randrange(npix, len(tips))]] if len(tips) > npix else [])
        for ti, (ratio, p, c0, cs, k) in enumerate(chosen):
            far = cs[k]
            t_in = _normalise(c0 - float(np.dot(c0, far)) * far)        # unit tangent at the far corner, towards the centre
            diag = float(vec_angle(far, c0))
            fs = (0.002, 0.01, 0.03) if not thorough else (0.0005, 0.002, 0.005, 0.01, 0.02, 0.03, 0.045)
            for f in fs:
                v = math.cos(f * diag) * far + math.sin(f * diag) * t_in
                th, ph = hp.vec2ang(v)
                if int(hp.ang2pix(ns, th, ph, nest=True)[0]) != p:
                    continue
                room = ((1 - f) * ratio - 1) * pix
                radii = {math.radians(0.01)}
                if room > 0:
                    radii.add(max(math.radians(0.01), 0.5 * room))
                radii.add(max(math.radians(0.01), 0.02 * pix))
                for r in sorted(radii):
                    ra, dec = vec2radec(v)
                    case = dict(kind='circle', id=f'tipA-{depth}-{p}-{f}-{r:.3e}', maxdepth=depth, depth=depth, deff=depth,
                                circles=[(ra, dec, r)], form='scalar', centre_class='pixel-tip',
                                area_order=AREA_ORDERS[len(out) % len(AREA_ORDERS)],
                                protocol=(PROTOCOLS[len(out) % len(PROTOCOLS)] if len(out) % 4 == 0 else None),
                                scalar_type=SCALAR_TYPES[len(out) % len(SCALAR_TYPES)])
                    pts = gen_points_circle(rng, ra, dec, r, pix, 3)
                    out.append((case, pts))
            # B: disc edge in the tip
            gs = (0.01,) if not thorough else (0.003, 0.01, 0.02, 0.04)
            rs = (0.5 * pix, 2.5 * pix) if not thorough else (0.3 * pix, pix, 2.5 * pix, 6 * pix)
            for g in gs:
                delta = g * pix
                for r in rs:
                    if r - delta <= 0 or r > math.radians(60):
                        continue
                    vc = math.cos(r - delta) * far - math.sin(r - delta) * t_in     # outside the pixel, beyond the far corner
                    ra, dec = vec2radec(vc)
                    case = dict(kind='circle', id=f'tipB-{depth}-{p}-{g}-{r:.3e}', maxdepth=depth, depth=depth, deff=depth,
                                circles=[(ra, dec, r)], form='scalar', centre_class='pixel-tip-edge')
                    pts = gen_points_circle(rng, ra, dec, r, pix, 3)
                    for h in (0.25, 0.5, 0.75):
                        t = math.cos(h * delta) * far + math.sin(h * delta) * t_in    # in the tip, inside the disc by (1-h)·delta
                        pts.append(vec2radec(t) + ('tip',))
                    out.append((case, pts))
    return out


def run_tip_cases(ctx, depths, npix, thorough, spec_only=False):
    cases = tip_cases(ctx, depths, npix, thorough)
    for k0 in range(0, len(cases), 4 * CHUNK):
        gens = []
        for case, pts in cases[k0:k0 + 4 * CHUNK]:
            ctx.count('circle centre ' + case['centre_class'])
            gens.append(run_circle_case(ctx, case, pts, spec_only))
        drive(ctx, gens)
        if spec_only and any(f['kind'] == 'spec' for f in ctx.failures):
            return


# ---------------------------------------------------------------------------------------------
# size thresholds: a disc above 2^22 pixels with a dense ring just beyond r + 3 pixel sizes, and one vector query of
# more than 2^20 positions (not a multiple of 2^20) compared with the same positions in pieces and as scalars
# ---------------------------------------------------------------------------------------------

def offset_vec(ra, dec, dist, bearing):
    """vectorised `offset`: arrays of distances / bearings from one centre; returns (ra[], dec[])"""
    c = unit(ra, dec)
    north = np.array([-math.sin(dec) * math.cos(ra), -math.sin(dec) * math.sin(ra), math.cos(dec)])
    east = np.array([-math.sin(ra), math.cos(ra), 0.0])
    q = (np.cos(dist)[:, None] * c + np.sin(dist)[:, None] * (np.cos(bearing)[:, None] * north + np.sin(bearing)[:, None] * east))
    d = np.arctan2(q[:, 2], np.hypot(q[:, 0], q[:, 1]))
    a = np.mod(np.arctan2(q[:, 1], q[:, 0]), TWO_PI)
    a[a >= TWO_PI] = 0.0
    return a, np.clip(d, -HALF_PI, HALF_PI)


def vincenty_vec(ra1, dec1, ra2, dec2):
    dl = ra2 - ra1
    s1, c1, s2, c2 = math.sin(dec1), math.cos(dec1), np.sin(dec2), np.cos(dec2)
    y = np.hypot(c2 * np.sin(dl), c1 * s2 - s1 * c2 * np.cos(dl))
    x = s1 * s2 + c1 * c2 * np.cos(dl)
    return np.arctan2(y, x)


def np_rng(ctx, tag):
    return np.random.default_rng([ctx.seed, sum(map(ord, tag))])


def judge_bulk_circle(ctx, case, ras, decs, tags, got, model, r, pix, sig_base, what_prefix='', sample_every=200, degin=False):
    """Spec on a large vector of answers: every position is screened with the Spec's own inequalities in numpy; every
    screened failure (up to 40) and every `sample_every`-th position is judged by the Lean Spec (`cspec`) and cross-checked
    against Lean `sepHav`.  Returns number of Spec failures reported."""
    c = case['circles'][0]
    dist = vincenty_vec(c[0], c[1], ras, decs)
    must_in = dist <= r
    must_out = dist > r + 3 * pix
    bad = (must_in & ~got) | (must_out & got)
    idx = np.unique(np.concatenate([np.flatnonzero(bad)[:40], np.arange(0, len(ras), sample_every)]))
    lines = []
    for i in idx:
        lines.append(f"cspec {f2h(r)} {f2h(pix)} {f2h(dist[i])} {1 if got[i] else 0}")
        lines.append(f"sep {hexes(c[0], c[1], ras[i], decs[i])}")
    ans = ctx.driver.batch(lines)
    nfail = 0
    for k, i in enumerate(idx):
        verdict, ls = ans[2 * k], h2f(ans[2 * k + 1])
        if abs(ls - dist[i]) > (1e-7 if dist[i] > 2.5 else 1e-11):
            ctx.fail('corr', dict(case_pub(case), index=int(i)), f'Lean sepHav={ls!r} vs independent distance {dist[i]!r}', dict(sig_base, what='sep-crosscheck'))
        if (verdict != 'ok') != bool(bad[i]):
            ctx.fail('corr', dict(case_pub(case), index=int(i)), f'numpy screening and Lean Spec disagree at index {i}', dict(sig_base, what='screening'))
        if verdict != 'ok':
            nfail += 1
            pt = [float(ras[i]), float(decs[i])]
            ctx.fail('spec', dict(case_pub(case), point=[math.degrees(pt[0]), math.degrees(pt[1])] if degin else pt, tag=str(tags[i]), index=int(i),
                                  npos=int(len(ras)), degin=degin, qform='array', inside=bool(got[i]), dist=float(dist[i]), r=r, pix=pix),
                     f"position #{i} of {len(ras)} at distance {float(dist[i])!r} rad from the centre (r={r!r}, r+3pix={r + 3 * pix!r}, i.e. "
                     f"r + {(float(dist[i]) - r) / pix:.3f} pixel sizes) reported {'inside' if got[i] else 'outside'}",
                     dict(sig_base, what=what_prefix + ('circle-contains' if must_in[i] else 'circle-excludes'), degin=degin))
    ctx.evaluations += int(len(ras))
    ctx.count('bulk positions screened with the Spec inequalities in numpy', int(len(ras)))
    ctx.count('bulk positions judged by the Lean Spec (sample + every screened failure)', int(len(idx)))
    ctx.count('bulk must-in', int(must_in.sum()))
    ctx.count('bulk must-out', int(must_out.sum()))
    if model is not None:
        dm = np.flatnonzero(model != got)
        if len(dm) and not nfail:
            i = int(dm[0])
            ctx.fail('corr', dict(case_pub(case), point=[float(ras[i]), float(decs[i])], index=i),
                     f'sky_within={bool(got[i])}, model={bool(model[i])} at index {i} ({len(dm)} positions differ)', dict(sig_base, what='within-model'))
    return nfail


def big_disc_case(ctx, depth, r, ra, dec, nring, tag):
    """one circle above 2^22 pixels at `depth`; a dense ring of positions at r + (3.0 .. 3.6) pixel sizes, plus interior,
    just-inside, gap and far positions, all in ONE vector call (< 2^20 positions)"""
    import healpy as hp
    from AegeanTools.regions import Region
    pix = pix_size(depth)
    rng = np_rng(ctx, tag)
    case = dict(kind='big-disc', id=tag, maxdepth=depth, depth=depth, deff=depth, circles=[(ra, dec, r)], form='scalar',
                centre_class='big-disc', nring=nring, est_pixels=6 * 4 ** depth * (1 - math.cos(r)))
    sig_base = dict(shape='circle', centre='big-disc', form='scalar')
    n_in = nring // 4
    dist = np.concatenate([
        r + pix * rng.uniform(3.0 + 1e-6, 3.6, nring),                        # the thin shell just beyond r + 3 px
        r * np.sqrt(rng.uniform(0, 1, n_in)),                                 # interior
        r * (1 - 10 ** rng.uniform(-7, -3, n_in)),                            # inside by eps
        r + pix * rng.uniform(0, 3.0, n_in),                                  # free zone
        rng.uniform(r + 3.6 * pix, math.pi, n_in)])                           # far
    tags = np.array(['ring'] * nring + ['interior'] * n_in + ['in-eps'] * n_in + ['gap'] * n_in + ['far'] * n_in)
    ras, decs = offset_vec(ra, dec, dist, rng.uniform(0, TWO_PI, len(dist)))
    ctx.case(case_pub(case), ('big-disc', tag))
    try:
        stage = 'add_circles'
        reg = Region(maxdepth=depth)
        with Spied() as spy:
            reg.add_circles(ra, dec, r, depth=depth)
            calls = [a for n, a in spy.calls if n == 'query_disc']
        stage = 'get_area'
        areas = [('deg', float(reg.get_area(degrees=True))), ('sr', float(reg.get_area(degrees=False)))]
        stage = 'sky_within'
        got = np.asarray(reg.sky_within(ras, decs), dtype=bool)
    except Exception as e:
        ctx.fail('spec', dict(case_pub(case), observe=stage), f'{stage} raised {type(e).__name__}: {e} on a valid circle of {case["est_pixels"]:.3g} pixels',
                 dict(sig_base, what='raises', stage=stage, error=type(e).__name__))
        return
    del reg
    DEG2 = (180 / math.pi) ** 2
    la = ctx.driver.batch([f"circ {depth} {depth} {hexes(ra, dec, r)}", f"pix {depth}"] +
                          [f"aspec {f2h(r)} {depth} {f2h(v if u == 'sr' else v / DEG2)}" for u, v in areas])
    w = la[0].split()
    pm = dict(nside=int(w[1]), vec=np.array(parse_floats(w[2:5])), radius=h2f(w[5]), inclusive=w[6] == '1', nest=w[7] == '1', fact=int(w[8]))
    ok = len(calls) == 1 and int(calls[0]['nside']) == pm['nside'] and bool(calls[0]['inclusive']) == pm['inclusive'] \
        and bool(calls[0]['nest']) == pm['nest'] and int(calls[0]['fact']) == pm['fact'] \
        and args_close(calls[0]['vec'], pm['vec'], 1e-14) and common.close(float(calls[0]['radius']), pm['radius'], rel=1e-15)
    if not ok:
        ctx.fail('corr', case_pub(case), f"query_disc calls {[(int(a['nside']), float(a['radius']), bool(a['inclusive']), int(a['fact']), bool(a['nest'])) for a in calls]}; "
                 f"model: nside={pm['nside']} radius={pm['radius']!r} inclusive={pm['inclusive']} fact={pm['fact']} nest={pm['nest']}",
                 dict(sig_base, what='handoff-query_disc'))
    D = hp.query_disc(pm['nside'], pm['vec'], pm['radius'], inclusive=pm['inclusive'], fact=pm['fact'], nest=pm['nest'])
    pa = h2f(la[1].split()[1])
    for (u, v), verdict in zip(areas, la[2:]):
        ctx.case(dict(case_pub(case), kind='circle-area', unit=u), ('area', tag, u))
        if verdict != 'ok':
            ctx.fail('spec', dict(case_pub(case), observe='get_area', unit=u, area=v), f'get_area({u}) = {v!r} not between the caps of radius r and r + 3 pixel sizes',
                     dict(sig_base, what='area-between-caps', unit=u))
        elif not common.close(v if u == 'sr' else v / DEG2, len(D) * pa, rel=1e-9):
            ctx.fail('corr', case_pub(case), f'get_area({u})={v!r}, model N*pixArea (N={len(D)})', dict(sig_base, what='area-model', unit=u))
    model = np.isin(hp.ang2pix(2 ** depth, HALF_PI - decs, ras, nest=True), D)     # theta = pi/2 - dec, phi = ra (sky2ang_convention)
    del D
    judge_bulk_circle(ctx, case, ras, decs, tags, got, model, r, pix, sig_base)
    ctx.count(f'big disc depth {depth}, {case["est_pixels"] / 2 ** 22:.2f} x 2^22 pixels')


def big_query_case(ctx, n, tag, degin=False):
    """ONE vector sky_within call with n > 2^20 positions (n not a multiple of 2^20), most of them interior, compared with
    the same positions queried in pieces and (a sample, incl. the tail) as scalars; Spec on the full call's answers"""
    from AegeanTools.regions import Region
    depth = 8
    pix = pix_size(depth)
    rng = np_rng(ctx, tag)
    ra, dec, r = float(rng.uniform(0, TWO_PI)), float(np.arcsin(rng.uniform(-0.9, 0.9))), math.radians(2.0)
    case = dict(kind='big-query', id=tag, maxdepth=depth, depth=depth, deff=depth, circles=[(ra, dec, r)], form='scalar',
                centre_class='big-query', npos=n, degin=degin)
    sig_base = dict(shape='circle', centre='big-query', form='scalar')
    dist = r * np.sqrt(rng.uniform(0, 1, n)) * (1 - 1e-6)
    far = rng.uniform(0, 1, n) < 0.1
    dist[far] = rng.uniform(r + 3.0001 * pix, math.pi, int(far.sum()))
    ras, decs = offset_vec(ra, dec, dist, rng.uniform(0, TWO_PI, n))
    tags = np.where(far, 'far', 'interior')
    qa, qd = (np.degrees(ras), np.degrees(decs)) if degin else (ras, decs)
    ctx.case(case_pub(case), ('big-query', tag))
    try:
        reg = Region(maxdepth=depth)
        reg.add_circles(ra, dec, r, depth=depth)
        keep = (qa.copy(), qd.copy())
        got = np.asarray(reg.sky_within(qa, qd, degin=degin), dtype=bool)
        if qa.tobytes() != keep[0].tobytes() or qd.tobytes() != keep[1].tobytes():
            ctx.fail('spec', case_pub(case), 'sky_within modified the caller-owned position arrays', dict(sig_base, what='argument-mutated'))
        step = 2 ** 17 + 13
        pieces = np.concatenate([np.asarray(reg.sky_within(qa[i:i + step], qd[i:i + step], degin=degin), dtype=bool) for i in range(0, n, step)])
        sidx = np.unique(np.concatenate([np.arange(0, n, n // 40), np.arange(n - 25, n)]))
        scal = np.array([bool(np.ravel(reg.sky_within(float(qa[i]), float(qd[i]), degin=degin))[0]) for i in sidx])
    except Exception as e:
        ctx.fail('spec', dict(case_pub(case), observe='sky_within'), f'sky_within raised {type(e).__name__}: {e} on {n} valid positions',
                 dict(sig_base, what='raises', stage='sky_within', error=type(e).__name__))
        return
    if len(got) != n:
        ctx.fail('spec', case_pub(case), f'sky_within returned {len(got)} answers for {n} positions', dict(sig_base, what='answer-count'))
        return
    nfail = judge_bulk_circle(ctx, case, ras, decs, tags, got, None, r, pix, sig_base, sample_every=5000, degin=degin)
    d1 = np.flatnonzero(got != pieces)
    d2 = np.flatnonzero(got[sidx] != scal)
    if (len(d1) or len(d2)) and not nfail:
        i = int(d1[0]) if len(d1) else int(sidx[d2[0]])
        ctx.fail('spec', dict(case_pub(case), index=i, point=[float(qa[i]), float(qd[i])]),
                 f'the answer for position #{i} depends on how many positions are passed together: {bool(got[i])} in one call of {n}, '
                 f'{bool(pieces[i])} in pieces of {step}', dict(sig_base, what='history-dependence', site='sky_within'))
    ctx.count(f'big vector query: {n} positions in one call' + (' (degin)' if degin else ''))


def size_cases(ctx):
    quick = ctx.quick
    big_query_case(ctx, 2 ** 20 + 4321, 'bigq-0')
    if not quick:
        big_query_case(ctx, 2 ** 21 + 12345, 'bigq-1', degin=True)
    rng = ctx.rng
    # just above the 2^22-pixel mark:  6 * 4^depth * (1 - cos r) = f * 2^22
    def radius_for(depth, f):
        return math.acos(1 - f * 2 ** 22 / (6 * 4 ** depth))
    specs = [(11, 1.02)] if quick else [(11, 1.02), (12, 1.05), (11, 1.6)]
    for j, (depth, f) in enumerate(specs):
        ra, dec = gen_centre(rng, ['generic', 'nearpole', 'ra0wrap'][j % 3])
        big_disc_case(ctx, depth, radius_for(depth, f), ra, dec, 240000 if quick else 480000, f'bigdisc-{depth}-{f}')


def circle_gen(ctx, k, budget, n_each, spec_only=False):
    case = make_circle_case(ctx, k, budget)
    c0 = case['circles'][0]
    pts = gen_points_circle(ctx.rng, c0[0], c0[1], c0[2], pix_size(case['deff']), n_each)
    seen = {tuple(c0)}
    for c in case['circles'][1:]:
        if tuple(c) in seen:
            continue
        seen.add(tuple(c))
        pts += gen_points_circle(ctx.rng, c[0], c[1], c[2], pix_size(case['deff']), max(3, n_each // 2))
    ctx.count(f"circle depth {case['deff']}")
    ctx.count('circle radius decade 1e%d deg' % math.floor(math.log10(math.degrees(c0[2]))))
    ctx.count('circle centre ' + case['centre_class'])
    ctx.count('circle form ' + case['form'] + ('' if len(case['circles']) == 1 else (' (repeated centre)' if 'repeat' in case['centre_class'] else ' (several)')))
    ctx.count('depth argument ' + ('None' if case['depth'] is None else ('> maxdepth' if case['depth'] > case['maxdepth'] else
                                                                         ('< maxdepth' if case['depth'] < case['maxdepth'] else '= maxdepth'))))
    return case, run_circle_case(ctx, case, pts, spec_only)


def wrap_poly_cases(ctx, thorough):
    """regular and irregular convex 4..8-gons whose circumcentre is exactly on RA = 0 (vertices on both sides of the wrap,
    RA given in [0, 2pi)) at several declinations, and exactly on dec = +-90, in both vertex orders"""
    rng = ctx.rng
    out = []
    decs = [0.0, math.radians(-43.4), math.radians(60), math.radians(-80)] + ([math.radians(20), math.radians(85)] if thorough else [])
    centres = [(0.0, d) for d in decs] + [(0.0, HALF_PI), (0.0, -HALF_PI), (rng.uniform(0, TWO_PI), HALF_PI), (rng.uniform(0, TWO_PI), -HALF_PI)]
    k = 0
    for rac, decc in centres:
        for nv in ((4, 5, 7) if not thorough else (4, 5, 6, 7, 8)):
            for regular in (True, False):
                for rev in (False, True):
                    depth = 4 + k % 5
                    R = math.radians([0.6, 3.0, 12.0][k % 3])
                    if regular:
                        psi = [(i + 0.13) * TWO_PI / nv for i in range(nv)]
                    else:
                        while True:
                            psi = sorted(rng.uniform(0, TWO_PI) for _ in range(nv))
                            gaps = [(psi[(i + 1) % nv] - psi[i]) % TWO_PI for i in range(nv)]
                            if min(gaps) > 0.3 and max(gaps) < math.pi - 0.2:
                                break
                    if rev:
                        psi = psi[::-1]
                    c = unit(rac, decc)
                    e, n = tangent_frame(c)
                    pos = [vec2radec(math.cos(R) * c + math.sin(R) * (math.cos(p) * e + math.sin(p) * n)) for p in psi]
                    case = dict(kind='polygon', id=f'pw{k}', maxdepth=depth, depth=depth, deff=depth, positions=[list(p) for p in pos],
                                circum=[rac, decc, R], centre_class='ra0-straddle' if abs(decc) < HALF_PI else 'pole-centred')
                    pts = gen_points_poly(rng, [tuple(p) for p in case['positions']], rac, decc, R, pix_size(depth), 3)
                    out.append((case, pts))
                    k += 1
    return out


def poly_gen(ctx, k, budget, n_each, spec_only=False):
    case = make_poly_case(ctx, k, budget)
    pts = gen_points_poly(ctx.rng, [tuple(p) for p in case['positions']], *case['circum'], pix_size(case['deff']), n_each)
    ctx.count(f"polygon depth {case['deff']}")
    ctx.count(f"polygon vertices {len(case['positions'])}")
    ctx.count('polygon centre ' + case['centre_class'])
    # the hypotheses of poly_in_circumcircle on this input: Rc <= pi/2 and every fan triangle has the polygon's orientation
    vs = [unit(*p) for p in case['positions']]
    s0 = float(np.dot(vs[0], np.cross(vs[1], vs[2])))
    fan = all(s0 * float(np.dot(vs[0], np.cross(vs[i], vs[i + 1]))) > 0 for i in range(1, len(vs) - 1))
    ctx.count('polygon fan-convex, Rc <= 90 deg (hypotheses of poly_in_circumcircle)' if fan and case['circum'][2] <= HALF_PI
              else 'polygon outside the hypotheses of poly_in_circumcircle')
    return case, run_poly_case(ctx, case, pts, spec_only)


def run(ctx):
    quick = ctx.quick
    budget = 40000 if quick else 400000
    conversion_checks(ctx, 300 if quick else 3000)
    sample_contract(ctx, 12 if quick else 120, 5 if quick else 40, 5 if quick else 6)
    ncirc, npoly, n_each = (60, 36, 8) if quick else (400, 240, 16)
    for k0 in range(0, ncirc, CHUNK):
        drive(ctx, [circle_gen(ctx, k + 10 * ctx.seed, budget, n_each)[1] for k in range(k0, min(ncirc, k0 + CHUNK))])
    for k0 in range(0, npoly, CHUNK):
        drive(ctx, [poly_gen(ctx, k + 10 * ctx.seed, budget, n_each)[1] for k in range(k0, min(npoly, k0 + CHUNK))])
    run_tip_cases(ctx, range(3, 9) if quick else range(3, 13), 2 if quick else 5, thorough=not quick)
    size_cases(ctx)
    wp = wrap_poly_cases(ctx, thorough=not quick)
    for k0 in range(0, len(wp), 4 * CHUNK):
        gens = []
        for case, pts in wp[k0:k0 + 4 * CHUNK]:
            ctx.count('polygon centre ' + case['centre_class'])
            ctx.count(f"polygon vertices {len(case['positions'])}")
            gens.append(run_poly_case(ctx, case, pts))
        drive(ctx, gens)
    drive(ctx, [run_poly_case(ctx, c, []) for c in malformed_cases()])
    # a Spec failure found on a composite case: put its minimised form (one circle, scalar call, one position) first
    for f in list(ctx.failures):
        if f['kind'] == 'spec' and f['case'].get('kind') == 'circle' and 'point' in f['case'] and 'circles' in f['case']:
            c = f['case']
            if len(c['circles']) > 1 or c['form'] != 'scalar' or c['maxdepth'] != c['deff']:
                shrink_circle(ctx, {k: v for k, v in c.items() if k in ('kind', 'id', 'maxdepth', 'depth', 'deff', 'circles', 'form', 'centre_class')}, f)
            break


def shrink_circle(ctx, case, fail):
    """try the simplest equivalent case: one circle, scalar add, maxdepth = depth, the failing point only"""
    fc = fail['case']
    if 'point' not in fc:
        return
    p = fc['point']
    pr = (math.radians(p[0]), math.radians(p[1])) if fc.get('degin') else (p[0], p[1])
    cs = case['circles']
    best = min(cs, key=lambda c: vincenty(c[0], c[1], pr[0], pr[1]) - c[2])
    small = dict(case, id=case['id'] + '-min', circles=[best], form='scalar', maxdepth=case['deff'], depth=case['deff'])
    n0 = len(ctx.failures)
    run_one(ctx, run_circle_case(ctx, small, [(pr[0], pr[1], 'shrunk')], spec_only=True))
    if len(ctx.failures) > n0:
        # keep the minimal one first
        ctx.failures.insert(0, ctx.failures.pop(n0))


def search(ctx):
    """implementation vs Spec only, denser, with shrinking"""
    budget = 40000 if ctx.quick else 150000
    n0 = len(ctx.failures)
    run_tip_cases(ctx, range(3, 11), 6, thorough=True, spec_only=True)
    if any(f['kind'] == 'spec' for f in ctx.failures[n0:]):
        return
    n = 32 if ctx.quick else 144
    for k0 in range(0, n, CHUNK):
        n0 = len(ctx.failures)
        pairs = [circle_gen(ctx, 1000 + k, budget, 10, spec_only=True) for k in range(k0, k0 + CHUNK)]
        drive(ctx, [g for _, g in pairs])
        fails = [f for f in ctx.failures[n0:] if f['kind'] == 'spec']
        if fails:
            for case, _ in pairs:
                if case['id'] == fails[0]['case'].get('id'):
                    shrink_circle(ctx, case, fails[0])
            return
    n = 16 if ctx.quick else 96
    for k0 in range(0, n, CHUNK):
        n0 = len(ctx.failures)
        drive(ctx, [poly_gen(ctx, 1000 + k, budget, 10, spec_only=True)[1] for k in range(k0, k0 + CHUNK)])
        if any(f['kind'] == 'spec' for f in ctx.failures[n0:]):
            return
    conversion_checks(ctx, 500)


def replay(ctx, rec):
    case = rec['case']
    if case is None:
        ctx.note('replay: the record names a proof obligation, not an input; re-running the search')
        return search(ctx)
    kind = case.get('kind')
    if kind == 'contract-hypothesis':
        return sample_contract(ctx, 4, 2, 4)
    if kind in ('sky2vec', 'sky2ang', 'vec2sky', 'roundtrip'):
        return conversion_checks(ctx, 50)
    if kind == 'big-query':
        return big_query_case(ctx, case['npos'], case['id'], degin=bool(case.get('degin')))
    if kind == 'big-disc' or (kind == 'circle-area' and case.get('centre_class') == 'big-disc'):
        c = case['circles'][0]
        return big_disc_case(ctx, case['maxdepth'], c[2], c[0], c[1], case.get('nring', 240000), case['id'])
    pts = []
    if 'point' in case:
        p = case['point']
        pr = (math.radians(p[0]), math.radians(p[1])) if case.get('degin') else (p[0], p[1])
        pts = [(pr[0], pr[1], case.get('tag', 'replay'))]
    base = {k: v for k, v in case.items() if k not in ('point', 'tag', 'degin', 'qform', 'inside', 'dist', 'r', 'pix', 'observe',
                                                       'interior', 'edge_margin', 'dist_from_circumcentre', 'R', 'unit', 'area')}
    if 'deff' not in base:
        d = base.get('depth')
        base['deff'] = base['maxdepth'] if d is None or d > base['maxdepth'] else d
    if kind == 'circle':
        base['circles'] = [tuple(c) for c in base['circles']]
        run_one(ctx, run_circle_case(ctx, base, pts or [(base['circles'][0][0], base['circles'][0][1], 'centre')]))
    elif kind == 'polygon':
        run_one(ctx, run_poly_case(ctx, base, pts))
    else:
        ctx.note(f'replay: unknown case kind {kind!r}')
