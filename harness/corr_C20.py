"""
C20 — correspondence + search for `fits_tools.load_image_band`.

run(ctx):    the real function is called on real FITS files for every band i of n, for a set of
             (rows, n, variant); what it returns (row range inferred from header and pixel
             values, NAXIS2, CRPIX2, the pixel values, the sky position of band corners) is
             compared with the Lean model (`load` op of the driver: regenerated bounds + hand
             model), and the observed ranges are also judged by the Lean Spec (`spec` op).
search(ctx): wider sweep of (rows, n), implementation vs Spec only.
"""
import os
import warnings

import numpy as np

import common

LEVEL = 'proof'
LEANCHECKER = True
RULE = ("cases are (rows, n, variant) with every band i=0..n-1 loaded through the real load_image_band from a real "
        "FITS file (two working file names rewritten for every case); variant in {2d, 3d, 4d, bscale, compressed, and *-ext = image in HDU 1 behind an empty or decoy primary}; non-trivial = n >= 2 and rows not a multiple of n "
        "(so the cut points need rounding) or an invalid band specification; distinct by (rows, n, variant)")
ASSUMPTIONS = [
    "astropy.io.fits reads back what it wrote; astropy.wcs implements the FITS WCS papers (used only to compare sky "
    "positions of band pixels with the full image)",
    "the hand model of load_image_band (guards, slicing, NAXIS2/CRPIX2 update) is tied to the code only by this "
    "sampled correspondence; the two row-bound expressions are regenerated from source on every run",
]
TRUSTED = ["Gen.C20.rowMin/rowMax regenerated from fits_tools.load_image_band by py2lean.py (int mode)",
           "Gen.C20.guard / hdr…P / hdr…C / sec… / cmp… : the validation prologue, the header adjustments of both return sites, the "
           "NAXIS dispatch with its .section subscripts and the compressed-branch subscript, sliced out of the AST by "
           "translator/targets/C20.py and translated by py2lean.py; Model.C20.loadFull (the glue between the pieces, and the "
           "reading of numpy/astropy subscripts as list slices) is hand-written and tied by the `full` correspondence"]
PARTIAL = []

COLS = 3
HEADER = dict(CTYPE1='RA---SIN', CTYPE2='DEC--SIN', CRVAL1=30.0, CRVAL2=-20.0, CDELT1=-1e-4, CDELT2=1e-4,
              CRPIX1=2.0, CRPIX2=5.0)


PREV = {}         # case -> the two cases run just before it (the same working file name was last used two cases ago)
EXT_VARIANTS = ('2d-ext', '3d-ext', '4d-ext', '4d-extdecoy', 'bscale-ext')
_file_counter = [0]


def base_variant(variant):
    return variant.split('-')[0]


def make_file(ctx, rows, variant, n=1):
    """Write the test image.  File NAMES are re-used (two working names, rewritten for every case) so
    that anything the implementation remembers about a file name from an earlier call in this process
    (a cached header, shape, …) is stale for the next case: the result must depend on the file's
    current content only.  `*-ext` variants put the image in HDU 1 (hdu_index=1) behind a primary HDU
    that is empty, or (`4d-extdecoy`) holds a decoy image of the same dimensionality."""
    from astropy.io import fits
    img = (np.arange(rows * COLS, dtype=np.float32).reshape(rows, COLS))
    base = base_variant(variant)
    if variant.endswith('-nan'):
        # blanked rows / pixels (NaN and inf): blocks of whole rows (so that some bands hold no finite pixel) and single pixels
        # the block starts just after the last row of the first band whose last row is a decimation node (even row), so that
        # for compressed inputs the band ends ON a finite node whose upper neighbour node is blank (the interpolator's
        # 0*NaN then decides that row, and a band expanded on its own must agree with the full expansion)
        ends = [rows * (i + 1) // n - 1 for i in range(max(1, n) - 1)]
        even = [e for e in ends if e >= 0 and e % 2 == 0 and e + 2 < rows]
        r0 = (even[0] + 1) if even else (rows * 3) // 7
        r1 = min(rows, r0 + max(2, rows // 5))
        img[r0:r1, :] = np.nan
        img[rows - 1, 0] = np.inf
        if rows > 6:
            img[1, COLS - 1] = np.nan
    data = img
    if base == '3d':
        data = np.stack([img + 1000000, img])          # cube_index=1 is the plane under test
    elif base == '4d':
        data = np.stack([img + 1000000, img])[None]
    ext = variant in EXT_VARIANTS
    if variant in ('bscale-i16', 'bscale-i32'):
        # the standard use of BSCALE: integer raw values (BITPIX 16 / 32) scaled to physical units
        data = (img % 30000).astype(np.int16 if variant == 'bscale-i16' else np.int32)
        img = data.astype(np.float64)
    hdu = (fits.ImageHDU if ext else fits.PrimaryHDU)(data)
    for k, v in HEADER.items():
        hdu.header[k] = v
    if base == 'bscale':
        hdu.header['BSCALE'] = 2.5 if variant in ('bscale-i16', 'bscale-i32') else 2.0     # written raw; load_image_band multiplies
    _file_counter[0] += 1
    path = os.path.join(ctx.tmpdir(), f'work{_file_counter[0] % 2}.fits')
    if ext:
        if variant == '4d-extdecoy':
            prim = fits.PrimaryHDU((data + 5000000).astype(np.float32))
            for k, v in HEADER.items():
                prim.header[k] = v
            prim.header['CRPIX2'] = 77.0
        else:
            prim = fits.PrimaryHDU()
        hdul = fits.HDUList([prim, hdu])
    else:
        hdul = fits.HDUList([hdu])
    if base == 'compressed':
        from AegeanTools import fits_tools
        hdul = fits_tools.compress(hdul, 2, None)
    hdul.writeto(path, overwrite=True, output_verify='silentfix')
    return path, img


def full_reference(path, variant, img):
    """the full image as the band loader should see it (built from what was written, not read back
    through the code under test), and its header (read with astropy)"""
    from astropy.io import fits
    from AegeanTools import fits_tools
    if base_variant(variant) == 'compressed':
        h = fits_tools.expand(path)
        return np.array(h[0].data), h[0].header
    hdr = fits.getheader(path, ext=1 if variant in EXT_VARIANTS else 0)
    if base_variant(variant) == 'bscale':
        return img * (2.5 if variant in ('bscale-i16', 'bscale-i32') else 2.0), hdr
    return img, hdr


def _quiet_expand_warnings():
    import warnings as _w
    _w.filterwarnings('ignore', message='invalid value encountered in multiply', category=RuntimeWarning, module='scipy')


def load_all(ctx, rows, n, variant, cache):
    """call the implementation for every band; return list of per-band observations"""
    from AegeanTools import fits_tools
    path, img = make_file(ctx, rows, variant, n)
    full, fhdr = full_reference(path, variant, img)
    obs = []
    for i in range(n):
        kw = dict(cube_index=1) if base_variant(variant) in ('3d', '4d') else {}
        if variant in EXT_VARIANTS:
            kw['hdu_index'] = 1
        data, hdr = fits_tools.load_image_band(path, band=(i, n), **kw)
        data = np.array(data)
        lo_hdr = fhdr['CRPIX2'] - hdr['CRPIX2']
        bad_shape = data.ndim != 2 or (data.ndim == 2 and data.shape[1] != COLS)
        obs.append(dict(i=i, nrows=int(data.shape[0]) if data.ndim >= 1 else 0, naxis2=int(hdr['NAXIS2']),
                        lo_hdr=float(lo_hdr), data=data, hdr=hdr, bad_shape=bad_shape, shape=tuple(data.shape)))
    # returned objects must be the caller's own: writing into a returned band (as Aegean itself does with
    # rms/bkg maps) or header must not change what a later load of the unchanged file returns
    for i in sorted({0, n - 1}):
        kw = dict(cube_index=1) if base_variant(variant) in ('3d', '4d') else {}
        if variant in EXT_VARIANTS:
            kw['hdu_index'] = 1
        d1, h1 = fits_tools.load_image_band(path, band=(i, n), **kw)
        keep = np.array(d1, copy=True)
        crpix = h1['CRPIX2']
        try:
            d1[...] = -12345.0
        except (ValueError, TypeError):
            pass        # read-only result: cannot be aliased through writes
        h1['CRPIX2'] = 99999.0
        d2, h2 = fits_tools.load_image_band(path, band=(i, n), **kw)
        if not (np.array_equal(np.array(d2), keep, equal_nan=True) and h2['CRPIX2'] == crpix):
            obs[i]['aliased'] = (f"after writing into the array/header returned for band {i}/{n}, loading the same band of "
                                 f"the unchanged file again returns the edited values (first pixel {np.array(d2).ravel()[:1].tolist()}, "
                                 f"CRPIX2 {h2['CRPIX2']})")
    return obs, full, fhdr


def judge(ctx, rows, n, variant, obs, full, fhdr, model_lines, spec_line, check_wcs):
    """compare one (rows, n, variant) with the model and the Spec; returns True if all fine"""
    case = dict(rows=rows, n=n, variant=variant, history=[list(h) for h in PREV.get((rows, n, variant), [])])
    ok = True
    ranges = []
    for o, ml in zip(obs, model_lines):
        i = o['i']
        lo = int(round(o['lo_hdr']))
        hi = lo + o['nrows']
        ranges.append((lo, hi))
        w = ml.split()
        if w[0] != 'ok':
            ctx.fail('corr', dict(case, i=i), f"model rejects a band the implementation accepted: {ml}",
                     dict(site='load_image_band', what='guard'))
            ok = False
            continue
        m_naxis2, m_shift, m_rows = int(w[1]), int(w[2]), [int(x) for x in w[3:]]
        m_lo = -m_shift
        # --- Spec-level facts about the implementation's own output ---
        spec_bad = None
        if o.get('aliased'):
            spec_bad = o['aliased']
        elif o.get('bad_shape'):
            spec_bad = f"band has shape {o['shape']}, expected (rows, {COLS})"
        elif abs(o['lo_hdr'] - lo) > 1e-9:
            spec_bad = f"CRPIX2 shift {o['lo_hdr']} is not an integer row offset"
        elif o['naxis2'] != o['nrows']:
            spec_bad = f"header NAXIS2={o['naxis2']} but the band has {o['nrows']} rows"
        elif not (0 <= lo <= hi <= rows):
            spec_bad = f"row range [{lo},{hi}) outside the image"
        elif o['nrows'] and not np.array_equal(o['data'], full[lo:hi, :], equal_nan=True):
            # values differ from the rows the header claims: look for where the data really come from
            spec_bad = f"band values are not rows [{lo},{hi}) of the full image (header/data disagree)"
        if spec_bad:
            ctx.fail('spec', dict(case, i=i), spec_bad + f"; model expects rows [{m_lo},{m_lo + m_naxis2})",
                     dict(site='load_image_band', what=('result-aliased' if o.get('aliased') else 'band-values-or-header'), variant=variant))
            ok = False
            continue
        # --- correspondence with the model ---
        if (lo, hi) != (m_lo, m_lo + m_naxis2) or list(range(lo, hi)) != m_rows:
            ctx.fail('corr', dict(case, i=i), f"implementation rows [{lo},{hi}) but model rows [{m_lo},{m_lo + m_naxis2})",
                     dict(site='load_image_band', what='bounds'))
            ok = False
        if check_wcs and o['nrows']:
            from astropy.wcs import WCS
            with warnings.catch_warnings():
                warnings.simplefilter('ignore')
                wb, wf = WCS(o['hdr'], naxis=2), WCS(fhdr, naxis=2)
            pts_b = np.array([[1, 1], [COLS, o['nrows']]], dtype=float)
            pts_f = pts_b + np.array([0, lo])
            sb, sf = wb.wcs_pix2world(pts_b, 1), wf.wcs_pix2world(pts_f, 1)
            if not np.allclose(sb, sf, rtol=0, atol=1e-9, equal_nan=True):
                ctx.fail('spec', dict(case, i=i), f"band pixel sky positions {sb.tolist()} != full image {sf.tolist()}",
                         dict(site='load_image_band', what='band-wcs', variant=variant))
                ok = False
    if spec_line != 'ok':
        ctx.fail('spec', case, f"row ranges {ranges} do not tile [0,{rows}) (Lean Spec isTiling: {spec_line})",
                 dict(site='load_image_band', what='tiling',
                      lost_last_row=bool(ranges and ranges[-1][1] < rows)))
        ok = False
    return ok


HISTORY = []      # the (rows, n, variant) cases run so far in this process, oldest first


def run_cases(ctx, cases, check_wcs_every=7):
    cache = {}
    lines, meta = [], []
    for k, (rows, n, variant) in enumerate(cases):
        HISTORY.append((rows, n, variant))
        PREV[(rows, n, variant)] = list(HISTORY[-3:-1])
        try:
            obs, full, fhdr = load_all(ctx, rows, n, variant, cache)
        except Exception as e:  # the implementation raised on a valid band
            ctx.fail('spec', dict(rows=rows, n=n, variant=variant, history=[list(h) for h in PREV.get((rows, n, variant), [])]),
                     f"load_image_band raised {type(e).__name__}: {e}",
                     dict(site='load_image_band', what='raises-on-valid-band', variant=variant))
            ctx.case(dict(rows=rows, n=n, variant=variant))
            continue
        start = len(lines)
        for i in range(n):
            lines.append(f"load {rows} {i} {n}")
        flat = " ".join(f"{int(round(o['lo_hdr']))} {int(round(o['lo_hdr'])) + o['nrows']}" for o in obs)
        lines.append(f"spec {rows} {flat}")
        meta.append((rows, n, variant, obs, full, fhdr, start, k % check_wcs_every == 0))
    outs = ctx.driver.batch(lines) if ctx.driver_ok else None
    for rows, n, variant, obs, full, fhdr, start, cw in meta:
        if outs is None:
            ml = ['ok 0 0'] * n
            sl = spec_py(rows, obs)
        else:
            ml, sl = outs[start:start + n], outs[start + n]
        judge(ctx, rows, n, variant, obs, full, fhdr, ml, sl, cw) if outs is not None else \
            judge_spec_only(ctx, rows, n, variant, obs, full, fhdr, sl)
        nt = (rows, n, variant) if (n >= 2 and rows % n != 0) else None
        ctx.count(variant)
        ctx.case(dict(rows=rows, n=n, variant=variant,
                      ranges=[[int(round(o['lo_hdr'])), int(round(o['lo_hdr'])) + o['nrows']] for o in obs][:8]),
                 nontrivial_key=nt, sample_every=97)


def spec_py(rows, obs):
    cur = 0
    for o in obs:
        lo = int(round(o['lo_hdr']))
        if lo != cur or o['nrows'] < 0:
            return 'violated'
        cur = lo + o['nrows']
    return 'ok' if obs and cur == rows else 'violated'


def judge_spec_only(ctx, rows, n, variant, obs, full, fhdr, sl):
    fake = [f"ok {o['nrows']} {-int(round(o['lo_hdr']))} " + " ".join(map(str, range(int(round(o['lo_hdr'])), int(round(o['lo_hdr'])) + o['nrows']))) for o in obs]
    judge(ctx, rows, n, variant, obs, full, fhdr, fake, sl, True)


def invalid_cases(ctx):
    """invalid band specifications must be rejected (AegeanError), valid ones accepted"""
    from AegeanTools import fits_tools
    from AegeanTools.exceptions import AegeanError
    path, _ = make_file(ctx, 6, '2d')
    specs = [(-1, 3), (3, 3), (4, 3), (0, 0), (0, -1), (-2, -1), (5, 2), (0, 1), (2, 3), (-1, 0)]
    # numpy scalar / array forms of invalid (fractional or negative) specifications must be rejected too
    np_specs = [(np.float64(0.5), 2), (np.float64(-0.5), 2), (np.float32(2.25), 4), tuple(np.arange(1, 3) / 2.0),
                np.array([1.5, 3.0]), (np.float64(1.5), np.int64(3)), (np.int64(-1), np.int64(3)), (np.int16(3), np.int16(3))]
    for b in np_specs:
        try:
            fits_tools.load_image_band(path, band=b)
            got = 'ok'
        except Exception:
            got = 'err'
        case = dict(rows=6, band=[float(x) for x in b], numpy_types=[type(x).__name__ for x in b])
        if got != 'err':
            ctx.fail('spec', case, f"invalid band specification {b!r} (numpy scalars) was accepted",
                     dict(site='load_image_band', what='validation', numpy_spec=True))
        ctx.count('invalid-spec-numpy')
        ctx.case(case, nontrivial_key=('npband', str(b)))
    lines = [f"load 6 {i} {n}" for i, n in specs]
    outs = ctx.driver.batch(lines) if ctx.driver_ok else [None] * len(specs)
    for (i, n), ml in zip(specs, outs):
        try:
            fits_tools.load_image_band(path, band=(i, n))
            got = 'ok'
        except AegeanError:
            got = 'err'
        except Exception as e:
            got = 'other:' + type(e).__name__
        want_spec = 'ok' if (n > 0 and 0 <= i < n) else 'err'
        case = dict(rows=6, band=[i, n])
        if got != want_spec:
            ctx.fail('spec', case, f"band {(i, n)}: implementation {got}, the property requires {want_spec}",
                     dict(site='load_image_band', what='validation'))
        elif ml is not None and ml.split()[0] != got:
            ctx.fail('corr', case, f"band {(i, n)}: implementation {got}, model {ml}",
                     dict(site='load_image_band', what='validation'))
        ctx.count('invalid-spec' if want_spec == 'err' else 'valid-spec')
        ctx.case(case, nontrivial_key=('band', i, n) if want_spec == 'err' else None)


def full_cases(ctx, count, seed=None):
    """Correspondence of the WHOLE function with `Model.C20.loadFull genPieces` (driver op `full`): random small images of
    every dimensionality with index-valued pixels and an integer CRPIX2, every band of n, valid and invalid band
    specifications, existing and missing planes, 5-D files, compressed files.  The implementation's own output is also
    judged against the property directly (bands concatenated = the requested plane, NAXIS2 = rows held, CRPIX2 lowered by
    the rows before the band)."""
    from astropy.io import fits
    from AegeanTools import fits_tools
    from AegeanTools.exceptions import AegeanError
    import random
    seed = ctx.seed if seed is None else seed
    rng = random.Random(seed * 7919 + 11)       # own stream: a replay regenerates exactly these cases
    jobs = []
    for k in range(count):
        naxis = rng.choice([2, 2, 3, 3, 4, 4, 4, 5]) if k % 9 else 5
        comp = (naxis == 2 and rng.random() < 0.3)
        n3 = rng.randint(1, 3) if naxis >= 3 else 1
        n4 = rng.randint(1, 2) if naxis >= 4 else 1
        rows, cols = rng.randint(1, 12), rng.randint(1, 5)
        if comp:
            rows, cols = rng.randint(6, 14), rng.randint(4, 6)
        crpix2 = rng.choice([1, 5, -3, 40, 7])
        n = rng.randint(1, 6)
        cube = rng.randint(0, n3 - 1) if rng.random() < 0.85 else n3 + rng.randint(0, 1)
        if naxis == 2 and rng.random() < 0.5:
            cube = rng.randint(0, 2)          # ignored for a 2-D image
        bands = [(i, n) for i in range(n)]
        if rng.random() < 0.3:
            bands += [(n, n), (-1, n), (0, 0), (1, -2)][:rng.randint(1, 4)]
        jobs.append(dict(naxis=naxis, comp=comp, n4=n4, n3=n3, rows=rows, cols=cols, crpix2=crpix2, n=n, cube=cube, bands=bands))
    lines, meta = [], []
    for jb in jobs:
        naxis, n4, n3, rows, cols = jb['naxis'], jb['n4'], jb['n3'], jb['rows'], jb['cols']
        arr = np.arange(n4 * n3 * rows * cols, dtype=np.float64).reshape(n4, n3, rows, cols)
        data = {2: arr[0, 0], 3: arr[0], 4: arr, 5: arr[None]}[naxis]
        hdu = fits.PrimaryHDU(data.astype(np.float64))
        for kk, v in HEADER.items():
            hdu.header[kk] = v
        hdu.header['CRPIX2'] = float(jb['crpix2'])
        _file_counter[0] += 1
        path = os.path.join(ctx.tmpdir(), f'work{_file_counter[0] % 2}.fits')
        hdul = fits.HDUList([hdu])
        ref_plane = None
        m_rows, m_cols, m_crpix2 = rows, cols, jb['crpix2']
        if jb['comp']:
            hdul = fits_tools.compress(hdul, 2, None)
        hdul.writeto(path, overwrite=True, output_verify='silentfix')
        if jb['comp']:
            ex = fits_tools.expand(path)
            ref_plane = np.array(ex[0].data, dtype=float)
            m_rows, m_cols = ref_plane.shape
            c2 = float(ex[0].header['CRPIX2'])
            if abs(c2 - round(c2)) > 1e-9:
                ctx.count('full:skipped-noninteger-crpix2')
                continue
            m_crpix2 = int(round(c2))
        elif naxis in (2, 3, 4):
            if naxis == 2:
                ref_plane = arr[0, 0]
            elif jb['cube'] < n3:
                ref_plane = arr[0, jb['cube']]
        got = []
        for (i, n) in jb['bands']:
            try:
                d, h = fits_tools.load_image_band(path, band=(i, n), cube_index=jb['cube'])
                d = np.array(d, dtype=float)
                got.append(('ok', d, int(h['NAXIS2']), float(h['CRPIX2'])))
            except AegeanError:
                got.append(('guard',))
            except IndexError:
                got.append(('index',))
            except Exception as e:
                got.append(('tooManyAxes',) if 'NAXIS' in str(e) else ('other:' + type(e).__name__ + ':' + str(e)[:80],))
            lines.append(f"full {int(jb['comp'])} {naxis} {n4} {n3} {m_rows} {m_cols} {m_crpix2} {jb['cube']} {i} {n}")
        meta.append((jb, got, ref_plane, m_rows, m_cols, m_crpix2))
    outs = ctx.driver.batch(lines) if ctx.driver_ok else None
    pos = 0
    for jb, got, ref_plane, m_rows, m_cols, m_crpix2 in meta:
        case = {k: jb[k] for k in ('naxis', 'comp', 'n4', 'n3', 'rows', 'cols', 'crpix2', 'n', 'cube')}
        case['full'] = True
        case['seed'] = seed
        sig_base = dict(site='load_image_band', what='full')
        # ---- the property, on the implementation's own output (valid bands of an existing plane)
        if ref_plane is not None:
            oks = [g for (b, g) in zip(jb['bands'], got) if 0 <= b[0] < b[1]]
            bad = None
            if any(g[0] != 'ok' for g in oks):
                bad = f"a valid band was rejected: {[g[0] for g in oks]}"
            else:
                cur = 0
                for g in oks:
                    _, d, nax2, c2 = g
                    if d.ndim != 2 or d.shape[1] != ref_plane.shape[1]:
                        bad = f"band shape {d.shape}"
                        break
                    if nax2 != d.shape[0] or abs((m_crpix2 - c2) - cur) > 1e-9 or \
                            not np.array_equal(d, ref_plane[cur:cur + d.shape[0]], equal_nan=True):
                        bad = (f"band starting at row {cur}: NAXIS2 {nax2}, rows held {d.shape[0]}, CRPIX2 {c2} (image {m_crpix2}), "
                               f"values equal rows [{cur},{cur + d.shape[0]}): {np.array_equal(d, ref_plane[cur:cur + d.shape[0]], equal_nan=True)}")
                        break
                    cur += d.shape[0]
                if bad is None and cur != ref_plane.shape[0]:
                    bad = f"the bands hold {cur} rows, the image has {ref_plane.shape[0]}"
            if bad:
                ctx.fail('spec', case, "whole-function case: " + bad, dict(sig_base, variant=('compressed' if jb['comp'] else f"{jb['naxis']}d")))
        # ---- correspondence with the assembled model
        for b, g in zip(jb['bands'], got):
            ml = outs[pos] if outs is not None else None
            pos += 1
            if ml is None:
                continue
            w = ml.split()
            if g[0] != 'ok':
                want = {'guard': 'err guard', 'index': 'err index', 'tooManyAxes': 'err tooManyAxes'}.get(g[0])
                if want is None or not ml.startswith(want):
                    # numpy truncates silently where the model says `shape` / astropy raises other errors: judged only as "both fail"
                    if not (ml.startswith('err') and g[0].startswith('other')):
                        ctx.fail('corr', dict(case, band=list(b)), f"implementation {g[0]}, assembled model {ml[:60]}", sig_base)
                continue
            if w[0] != 'ok':
                ctx.fail('corr', dict(case, band=list(b)), f"implementation returned a band, assembled model says {ml[:60]}", sig_base)
                continue
            _, d, nax2, c2 = g
            body = ml.split(' ', 3)[3] if len(w) > 3 else ''
            mrows = [[int(x) for x in r.split()] for r in body.split(';')] if body else []
            ref = ref_plane if ref_plane is not None else None
            okk = (int(w[1]) == nax2 and int(w[2]) == int(round(c2)) and abs(c2 - round(c2)) < 1e-9 and len(mrows) == d.shape[0])
            if okk and ref is not None and d.ndim == 2:
                # model pixels are (plane, row, col) indices; translate them to values of the reference plane
                for mr, dr in zip(mrows, d):
                    vals = [ref[(v // m_cols) % m_rows, v % m_cols] for v in mr]
                    if len(vals) != len(dr) or not np.array_equal(np.array(vals, dtype=float), dr, equal_nan=True):
                        okk = False
                        break
                    if not jb['comp'] and [float(v) for v in mr] != [float(x) for x in dr]:
                        okk = False      # uncompressed: the stored values ARE the indices, plane included
                        break
            if not okk:
                ctx.fail('corr', dict(case, band=list(b)),
                         f"implementation NAXIS2 {nax2} CRPIX2 {c2} shape {d.shape}, assembled model {ml[:80]}", sig_base)
        ctx.count('full:' + ('compressed' if jb['comp'] else f"{jb['naxis']}d"))
        ctx.case(case, nontrivial_key=('full', jb['naxis'], jb['comp'], jb['rows'], jb['n'], jb['cube'] < jb['n3']) if jb['n'] >= 2 else None,
                 sample_every=41)


def fullfile_cases(ctx, count, seed=None):
    """File-level correspondence with `Model.C20.loadFullFile genPieces genFilePieces` (driver op `fullfile`): files of two
    image HDUs of different dimensionality / size / CRPIX2 / BSCALE, either of them requested; the real output is judged
    against the property directly (rows of the requested plane of the REQUESTED HDU in physical units) and compared with
    the assembled model."""
    from astropy.io import fits
    from AegeanTools import fits_tools
    import random
    seed = ctx.seed if seed is None else seed
    rng = random.Random(seed * 104729 + 13)     # own stream: a replay regenerates exactly these cases
    lines, meta = [], []
    for k in range(count):
        descr, arrays = [], []
        for h in range(2):
            naxis = rng.choice([2, 3, 4])
            n3 = rng.randint(1, 3) if naxis >= 3 else 1
            n4 = rng.randint(1, 2) if naxis >= 4 else 1
            rows, cols = rng.randint(1, 9), rng.randint(1, 4)
            crpix2 = rng.choice([1, 4, -2, 30])
            bs = rng.choice([0, 0, 2, 3])
            arr = h * 1000000 + np.arange(n4 * n3 * rows * cols, dtype=np.float64).reshape(n4, n3, rows, cols)
            descr.append((naxis, n4, n3, rows, cols, crpix2, bs))
            arrays.append(arr)
        hdu_index = rng.randint(0, 1)
        naxis, n4, n3, rows, cols, crpix2, bs = descr[hdu_index]
        cube = rng.randint(0, n3 - 1)
        n = rng.randint(1, 5)
        hl = []
        for h, (d, arr) in enumerate(zip(descr, arrays)):
            data = {2: arr[0, 0], 3: arr[0], 4: arr}[d[0]]
            hd = (fits.PrimaryHDU if h == 0 else fits.ImageHDU)(data.copy())
            for kk, v in HEADER.items():
                hd.header[kk] = v
            hd.header['CRPIX2'] = float(d[5])
            if d[6]:
                hd.header['BSCALE'] = float(d[6])
            hl.append(hd)
        _file_counter[0] += 1
        path = os.path.join(ctx.tmpdir(), f'work{_file_counter[0] % 2}.fits')
        fits.HDUList(hl).writeto(path, overwrite=True, output_verify='silentfix')
        ref = arrays[hdu_index][0, cube if naxis >= 3 else 0] * (bs if bs else 1)
        got = []
        for i in range(n):
            try:
                d, h = fits_tools.load_image_band(path, band=(i, n), hdu_index=hdu_index, cube_index=cube)
                got.append(('ok', np.array(d, dtype=float), int(h['NAXIS2']), float(h['CRPIX2'])))
            except Exception as e:
                got.append(('err:' + type(e).__name__ + ':' + str(e)[:60],))
            flat = " ".join(" ".join(str(x) for x in dd) for dd in descr)
            lines.append(f"fullfile {hdu_index} {cube} {i} {n} {flat}")
        meta.append((dict(fullfile=True, seed=seed, hdus=[list(d) for d in descr], hdu_index=hdu_index, cube=cube, n=n), got, ref, crpix2))
    outs = ctx.driver.batch(lines) if ctx.driver_ok else None
    pos = 0
    for case, got, ref, crpix2 in meta:
        sig = dict(site='load_image_band', what='fullfile')
        bad, cur = None, 0
        for g in got:
            if g[0] != 'ok':
                bad = f"a valid band was rejected: {g[0]}"
                break
            _, d, nax2, c2 = g
            if d.ndim != 2 or d.shape[1] != ref.shape[1] or nax2 != d.shape[0] or abs((crpix2 - c2) - cur) > 1e-9 \
                    or not np.array_equal(d, ref[cur:cur + d.shape[0]]):
                bad = (f"band starting at row {cur}: shape {d.shape}, NAXIS2 {nax2}, CRPIX2 {c2} (image {crpix2}); values are the "
                       f"requested HDU's rows in physical units: {d.ndim == 2 and np.array_equal(d, ref[cur:cur + d.shape[0]])}")
                break
            cur += d.shape[0]
        if bad is None and cur != ref.shape[0]:
            bad = f"the bands hold {cur} rows, the image has {ref.shape[0]}"
        if bad:
            ctx.fail('spec', case, "file-level case: " + bad, dict(sig, variant='multi-hdu'))
        for i, g in enumerate(got):
            ml = outs[pos] if outs is not None else None
            pos += 1
            if ml is None or g[0] != 'ok':
                if ml is not None and g[0] != 'ok' and ml.startswith('ok'):
                    ctx.fail('corr', dict(case, i=i), f"implementation {g[0]}, assembled file model {ml[:60]}", sig)
                continue
            w = ml.split()
            if w[0] != 'ok':
                ctx.fail('corr', dict(case, i=i), f"implementation returned a band, assembled file model says {ml[:60]}", sig)
                continue
            _, d, nax2, c2 = g
            body = ml.split(' ', 3)[3] if len(w) > 3 else ''
            mrows = [[float(x) for x in r.split()] for r in body.split(';')] if body else []
            if not (int(w[1]) == nax2 and int(w[2]) == int(round(c2)) and d.ndim == 2 and mrows == [list(map(float, r)) for r in d]):
                ctx.fail('corr', dict(case, i=i), f"implementation NAXIS2 {nax2} CRPIX2 {c2} first row {d[:1].tolist()}, assembled file model {ml[:80]}", sig)
        ctx.count('fullfile:hdu%d' % case['hdu_index'])
        ctx.case(case, nontrivial_key=('fullfile', tuple(map(tuple, case['hdus'])), case['hdu_index'], case['n']) if case['n'] >= 2 else None,
                 sample_every=37)


CORPUS = [(9, 4, 'bscale-i16'), (7, 3, 'bscale-i32'), (18, 2, 'compressed-nan'), (18, 6, 'compressed-nan'), (12, 6, '2d-nan'), (3, 5, '2d-nan'), (1, 49, '2d'), (5, 64, '2d'), (47, 3, 'compressed'), (7, 7, '2d'), (9, 4, 'bscale'), (100, 49, '2d'),
          (12, 3, '2d'), (9, 3, '2d'), (12, 5, '2d'), (9, 2, '4d-ext'), (9, 2, '4d-extdecoy'), (7, 5, '3d-ext'),
          (6, 4, '2d-ext'), (8, 3, 'bscale-ext'), (7, 5, '3d'), (7, 9, '4d')]


def case_set(ctx, wide):
    rng = ctx.rng
    cases = list(CORPUS)
    if not wide:
        cases += [(rows, n, '2d') for rows in range(1, 25) for n in range(1, 25) if (rows + n) % 3 == ctx.seed % 3 or rows < 6]
        for _ in range(60):
            cases.append((rng.randint(1, 400), rng.randint(1, 64), rng.choice(['2d', '3d', '4d', 'bscale', 'compressed', 'compressed-nan', '2d-nan', 'bscale-i16', 'bscale-i32', '2d-ext', '3d-ext', '4d-ext', '4d-extdecoy', 'bscale-ext'])))
        for v in ['3d', '4d', 'bscale', 'compressed', '2d-ext', '3d-ext', '4d-ext', '4d-extdecoy']:
            cases += [(rows, n, v) for rows, n in [(2, 2), (5, 3), (13, 5), (31, 7)]]
    else:
        cases += [(rows, n, '2d') for rows in range(1, 65) for n in range(1, 65)]
        for _ in range(600):
            cases.append((rng.randint(1, 20000), rng.randint(1, 64), rng.choice(['2d', '2d', '3d', '4d', 'bscale', 'compressed', 'compressed-nan', '2d-nan', 'bscale-i16', 'bscale-i32', '2d-ext', '3d-ext', '4d-ext', '4d-extdecoy', 'bscale-ext'])))
    # compressed needs >= 2 rows (compress() itself requires a 2-D image with >= 1 cell)
    return [(r, n, v) if not (v.startswith('compressed') and r < 4) else (r + 4, n, v) for r, n, v in cases]


def run(ctx):
    common.use_repo()
    _quiet_expand_warnings()
    cases = case_set(ctx, wide=not ctx.quick)
    run_cases(ctx, cases)
    invalid_cases(ctx)
    full_cases(ctx, 120 if ctx.quick else 1500)
    fullfile_cases(ctx, 60 if ctx.quick else 600)
    # strict slice: a caller that promotes RuntimeWarnings to errors (pytest -W error) must still get every band — including
    # bands without rows or without a finite pixel.  (Not np.seterr(all='raise'), and no NaN-bearing compressed maps here:
    # scipy's interpolator inside expand() itself computes 0*NaN and warns on the clean tree — C15's territory.)
    import warnings as _w
    n0 = len(ctx.failures)
    with _w.catch_warnings():
        _w.simplefilter('error', RuntimeWarning)
        run_cases(ctx, [(12, 6, '2d-nan'), (3, 5, '2d-nan'), (3, 5, '2d'), (7, 9, '3d'), (9, 4, 'bscale'),
                        (47, 3, 'compressed'), (6, 4, '2d-ext'), (5, 8, '4d')], check_wcs_every=3)
    for f in ctx.failures[n0:]:
        f['signature'] = dict(f.get('signature') or {}, strict_warnings=True)
        if isinstance(f.get('case'), dict):
            f['case']['strict_warnings'] = True
    ctx.count('strict-warnings-slice', 8)
    # debug slice: the same corpus with the root and 'Aegean' loggers at DEBUG must behave identically
    import logging
    root, aeg = logging.getLogger(), logging.getLogger('Aegean')
    saved = (root.level, aeg.level, list(root.handlers))
    try:
        root.handlers = [logging.NullHandler()]
        root.setLevel(logging.DEBUG)
        aeg.setLevel(logging.DEBUG)
        n0 = len(ctx.failures)
        run_cases(ctx, list(CORPUS), check_wcs_every=3)
        for f in ctx.failures[n0:]:
            f['signature'] = dict(f.get('signature') or {}, logging='DEBUG')
            if isinstance(f.get('case'), dict):
                f['case']['logging'] = 'DEBUG'
        ctx.count('debug-slice', len(CORPUS))
    finally:
        root.setLevel(saved[0])
        aeg.setLevel(saved[1])
        root.handlers = saved[2]


def search(ctx):
    """impl vs Spec over a wider (rows, n) range; first failing pairs are the replay"""
    common.use_repo()
    if any(f['kind'] == 'spec' for f in ctx.failures):
        return
    pairs = [(rows, n, '2d') for n in range(1, 65) for rows in range(1, 130)]
    pairs += [(r, n, 'compressed') for r, n in [(47, 3), (20, 4), (9, 2)]]
    saved = ctx.driver_ok
    for chunk in range(0, len(pairs), 800):
        run_cases(ctx, pairs[chunk:chunk + 800])
        if any(f['kind'] == 'spec' for f in ctx.failures):
            break
    ctx.driver_ok = saved


def replay(ctx, rec):
    common.use_repo()
    c = rec['case']
    if c.get('fullfile'):
        fullfile_cases(ctx, 600, seed=c.get('seed'))      # the recorded seed's own stream: the failing case recurs
    elif c.get('full'):
        full_cases(ctx, 1500, seed=c.get('seed'))
    elif 'band' in c:
        invalid_cases(ctx)
    else:
        # re-create the state of the two working files: the cases that ran just before the failing one
        hist = [tuple(h) for h in c.get('history', [])]
        if c.get('strict_warnings'):
            import warnings as _w
            with _w.catch_warnings():
                _w.simplefilter('error', RuntimeWarning)
                run_cases(ctx, hist + [(c['rows'], c['n'], c.get('variant', '2d'))], check_wcs_every=1)
        else:
            run_cases(ctx, hist + [(c['rows'], c['n'], c.get('variant', '2d'))], check_wcs_every=1)
