"""
C06 — BANE background/noise maps obey the estimator contract: correspondence + Spec checks.

run(ctx)
  * corpus: the witnesses of the ledger defects (DESIGN §6 items 8 and 22) and a clipping tie;
  * sigmaclip correspondence: BANE.sigmaclip vs the Lean `sigmaclip` at Float on lattice lists;
  * pipeline correspondence: real BANE.filter_image (real FITS files, real multiprocessing, realised
    stripes read back from BANE's own debug log) vs the Lean model `Aegean.Model.C06.run` at Float,
    float32 tolerance class;  sigma-clipping decisions closer than TIE_EPS to a threshold are detected
    with the driver's `margin` op and skipped (counted);
  * Spec checks on the implementation alone ('spec' failures): shape, constant image, range, mask
    rules, far-from-blanks finiteness, and the metamorphic relations shift / scale between runs;
    files written by filter_image (plain and compressed) and by the CLI agree with the returned maps;
  * exploration (not a theorem): stationary Gaussian noise gives m and s within sampling error.
search(ctx): more of the Spec checks only (no model), biased to >= 2 stripes, offsets and thin images.

BANE is only run with realised stripes <= cores (C07 owns the deadlock when that is violated) and
always in a child process under a watchdog.
"""
import json
import math
import os
import subprocess
import sys
import time

import numpy as np

import common

LEVEL = 'proof'
LEANCHECKER = True
EDGE = 0        # Geom.e of the model: 0 = repaired box clamp (fixes/C06-02), 1 = pinned
MODE = 'all'    # Mode of the model: 'all' = background subtracted from every loaded row (fixes/C06-01)
TIE_EPS = 1e-7
RULE = ("a case is (image, dimensionality 2d/3d/4d with cube index, BSCALE absent/1/!=1, dtype, grid, box, requested stripes, mask, "
        "output path: out_base None|given x compressed off|on, or the CLI — sampled as a product and enumerated in full by "
        "option_matrix; both observation points are judged: the returned maps and the files read back) run through the real BANE.filter_image; non-trivial = the image is not "
        "constant, has >= 2 grid intervals in each direction, and at least one of: >= 2 realised stripes, a blank "
        "block, a DC offset >= 100 sigma, a gradient, bright sources, a tiny/huge unit (x 2**-50..2**40), a cube index > 0, "
        "BSCALE != 1; distinct by the full "
        "configuration and the image hash")
ASSUMPTIONS = [
    "IEEE rounding is not modelled: theorems are over the reals; the Float run of the same definitions agrees with "
    "BANE's float64 pipeline to the float32 class (2e-6 relative + 1e-9 of the input scale)",
    "clipping decisions within 1e-7 (relative) of a 3-sigma threshold are treated as ties and skipped (counted in "
    "the histogram as 'tie-skipped')",
    "scipy.interpolate.RegularGridInterpolator(method='linear') is bilinear interpolation with NaN corners "
    "propagating whatever their weight (modelled; tied by this correspondence)",
    "astropy.io.fits reads back what it wrote; multiprocessing/SharedMemory behave (C07 owns termination); the "
    "stripe layout is taken from BANE's own debug log (C07 proves it tiles the rows)",
    "non-finite pixels are modelled as Option.none; float overflow is out of scope",
]
TRUSTED = ["hand model Aegean.Model.C06 (sigmaclip, bilinear interpolation, two passes, mask, stripe ownership) tied to BANE.py by "
           "differential correspondence; the numpy/scipy kernels are outside the translator's whitelist",
           "Gen.C06 (box() bounds, data_row_min/max, the arguments of the two grid lists, the slices of the background "
           "subtraction) regenerated from sigma_filter by py2lean.py + the slicer in translator/targets/C06.py on every run and "
           "proved equal to the model's expressions (gen_* theorems); box/data_row pieces are also self-validated against "
           "Python by gen_cases",
           "Aegean.Proofs.C06Pipe.run_eq: the tabulated functions the driver runs equal the plain definitions the "
           "theorems are about"]
PARTIAL = [
    "rms_shift_invariant_own_partial: for the pinned subtraction (own rows only) zero-point invariance of the noise "
    "map is proved for a single stripe only; with two stripes it is false (d2Fn_own_leaks_offset + the evaluated "
    "#guard witness in Properties/C06.lean: noise 0 -> 0.25 on a 4x2 toy). The full theorem rms_shift_invariant is "
    "about the repaired subtraction (fixes/C06-01); rms_in_range and const_image are likewise stated for it",
    "statistical clause (stationary Gaussian noise of mean m and rms s gives maps equal to m and s within sampling "
    "error): NOT a theorem; sampled by the harness on Gaussian images (exploration): |bkg-m| <= 6 s/sqrt(n) and "
    "|rms/s - 0.986| <= 0.05 + 6/sqrt(2n), n = smallest box population",
    "finite_far_from_blanks is proved (metric form, both modes, mask on or off) for the repaired box clamp e = 0 only; "
    "with the pinned clamp (e = 1) the last row/column is in no box and the statement needs rows/cols >= 2 and a pixel "
    "not on the last row/column: not proved for e = 1 (the code under test has e = 0)",
    "rms_in_range_own_partial, const_image_own_partial: pinned own-rows subtraction, one stripe only (rmsFn_own_single)",
    "file plumbing (filterImage_returned, file_times_bscale_is_returned, compressed_file_is_returned_at_nodes, "
    "filterImage_plane_only, filterImage_bscale_is_scale): a model of which array is scaled / returned / written; the "
    "float32 cast, FITS headers other than BSCALE/NAXIS/NAXIS3 and fits_tools.expand are not modelled; tied to the code "
    "by the option-matrix correspondence (files vs returned maps, with the model's decIdx for compressed files)",
    "masked_iff_nonfinite is an iff with the interpolants' own NaNs as a disjunct; 'NaN iff input non-finite' "
    "follows only where the interpolants are finite (no_blanks_no_nans)",
    "float rounding / float32 cast: sampled (tolerance class F32), not proved",
]

HERE = os.path.abspath(__file__)


# ------------------------------------------------------------------------------------------------
# child process: runs the real code
# ------------------------------------------------------------------------------------------------

def _make_fits(job, img, path):
    from astropy.io import fits
    dt = DTYPES[job['dtype']]
    bscale = job.get('bscale', 1.0)
    if job['dtype'] in INT_DTYPES:
        raw = np.round(img / bscale).astype(dt)      # mkjob made img an exact multiple of bscale within the dtype's range
    else:
        raw = (img / bscale).astype(dt)
    v = job['variant']
    ci = job.get('cube_index', 0)
    if v in ('3d', '4d'):
        n3 = job.get('n3', 3)
        planes = [(raw * 0 + 1e6 + 7 * k).astype(dt) for k in range(n3)]
        planes[ci] = raw
        data = np.stack(planes)
        if v == '4d':
            data = data[None]
    else:
        data = raw
    hdu = fits.PrimaryHDU(data)
    for k, val in dict(CTYPE1='RA---SIN', CTYPE2='DEC--SIN', CRVAL1=30.0, CRVAL2=-20.0, CDELT1=-0.01,
                       CDELT2=0.01, CRPIX1=3.0, CRPIX2=5.0).items():
        hdu.header[k] = val
    if bscale != 1.0 or job.get('bscale_key'):
        hdu.header['BSCALE'] = bscale       # 'present and 1', 'present and != 1', or absent
    hdu.writeto(path, overwrite=True, output_verify='silentfix')


DTYPES = dict(f4=np.float32, f8=np.float64, i2=np.int16, i4=np.int32, u1=np.uint8)
INT_DTYPES = ('i2', 'i4', 'u1')


def quantize(img, dtype, bscale):
    """the physical image an integer FITS file (BITPIX 8/16/32) with this BSCALE can hold: raw integers x BSCALE
    (integers have no blanks: non-finite pixels become raw 0)"""
    info = np.iinfo(DTYPES[dtype])
    raw = np.clip(np.round(np.nan_to_num(img / bscale, nan=0.0, posinf=0.0, neginf=0.0)), info.min, info.max)
    return raw * bscale


def worker_main(jobfile):
    spec = json.load(open(jobfile))
    sys.path.insert(0, spec['repo'])
    import logging
    import warnings
    warnings.simplefilter('ignore')

    class Grab(logging.Handler):
        def __init__(self):
            super().__init__(level=logging.DEBUG)
            self.got = {}

        def emit(self, record):
            try:
                m = record.getMessage()
            except Exception:
                return
            if m.startswith('ymins ') or m.startswith('ymaxs '):
                self.got[m[:5]] = json.loads(m[6:])
    grab = Grab()
    root = logging.getLogger()
    root.handlers[:] = [grab]
    root.setLevel(logging.DEBUG)
    from AegeanTools import BANE
    from astropy.io import fits
    d = spec['dir']
    for job in spec['jobs']:
        jid = job['id']
        res = dict(id=jid, status='ok')
        print(f"START {jid}", flush=True)
        try:
            img = np.load(os.path.join(d, job['img']))
            # the start method "the application" has chosen (BANE itself decides what its pool uses)
            import multiprocessing as _mp
            _mp.set_start_method(job.get('start_method') or 'fork', force=True)
            # a history job re-uses one file name (rewritten with new content) and one output base
            fn = os.path.join(d, job.get('fname') or f"in_{jid}.fits")
            _make_fits(job, img, fn)
            grab.got = {}
            base = os.path.join(d, job.get('oname') or f"out_{jid}") if job['via'] in ('files', 'compressed', 'cli') else None
            gy, gx = job['grid']
            bY, bX = job['box']
            if job['via'] == 'cli':
                from AegeanTools.CLI import BANE as cli
                argv = [fn, '--out', base, '--grid', str(gy), str(gx), '--box', str(bY), str(bX),
                        '--cores', str(job['cores']), '--stripes', str(job['nslice']),
                        '--slice', str(job.get('cube_index', 0))]
                if not job['mask']:
                    argv.append('--nomask')
                rc = cli.main(argv)
                root.handlers[:] = [grab]
                root.setLevel(logging.DEBUG)
                res['rc'] = rc
                out = None
            else:
                # caller-owned argument objects (lists for odd ids, tuples otherwise) must come back unchanged
                ss = [gy, gx] if jid % 2 else (gy, gx)
                bs = [bY, bX] if jid % 2 else (bY, bX)
                out = BANE.filter_image(fn, base, step_size=ss, box_size=bs, cores=job['cores'],
                                        nslice=job['nslice'], mask=job['mask'],
                                        compressed=(job['via'] in ('compressed', 'memcomp')),
                                        cube_index=job.get('cube_index', 0))
                if list(ss) != [gy, gx] or list(bs) != [bY, bX]:
                    res['mutated_args'] = f"step_size {ss}, box_size {bs} after the call; passed {[gy, gx]}, {[bY, bX]}"
                if out is None:
                    res['status'] = 'returned-none'
            if out is not None:
                np.save(os.path.join(d, f"bkg_{jid}.npy"), np.asarray(out[0]))
                np.save(os.path.join(d, f"rms_{jid}.npy"), np.asarray(out[1]))
            if base is not None and res['status'] == 'ok':
                for w in ('bkg', 'rms'):
                    with fits.open(f"{base}_{w}.fits") as h:
                        np.save(os.path.join(d, f"file_{w}_{jid}.npy"), np.array(h[0].data, dtype=np.float64))
                        if job['via'] == 'compressed':
                            from AegeanTools import fits_tools
                            try:
                                ex = fits_tools.expand(f"{base}_{w}.fits")
                                np.save(os.path.join(d, f"exp_{w}_{jid}.npy"), np.array(ex[0].data, dtype=np.float64))
                            except Exception as e:  # noqa
                                res['expand_error'] = f"{type(e).__name__}: {e}"[:300]
                        if w == 'bkg':
                            res['file_hdr'] = {k: h[0].header[k] for k in ('BN_CFAC', 'BN_NPX1', 'BN_NPX2', 'BN_RPX1',
                                                                          'BN_RPX2', 'BSCALE') if k in h[0].header}
            if 'ymins' in grab.got and 'ymaxs' in grab.got:
                res['stripes'] = list(zip(grab.got['ymins'], grab.got['ymaxs']))
        except BaseException as e:  # noqa
            import traceback
            res['status'] = 'exception'
            res['error'] = f"{type(e).__name__}: {e}"[:400]
            res['trace'] = traceback.format_exc()[-1200:]
        json.dump(res, open(os.path.join(d, f"res_{jid}.json"), 'w'))
        print(f"DONE {jid}", flush=True)


# ------------------------------------------------------------------------------------------------
# parent side
# ------------------------------------------------------------------------------------------------

_counter = [0]


def predict_layout(R, nslice, step1):
    """filter_mc_sharemem's stripe layout (used only to choose safe configurations and as a fallback
    when BANE's debug log is unavailable)"""
    if nslice > 1:
        w = int(max(R / nslice / step1, 1) * step1)
        ymins = list(range(0, R, w))
        ymaxs = list(range(w, R, w)) + [R]
        return list(zip(ymins, ymaxs))
    return [(0, R)]


def mkjob(ctx, img, grid, box, nslice=1, mask=True, variant='2d', dtype='f4', via='mem', cube_index=0, n3=3,
          bscale=1.0, tag='', bscale_key=False, fname=None, oname=None, start_method=None):
    """job dict for the real code; cores chosen so that realised stripes <= cores"""
    _counter[0] += 1
    jid = _counter[0]
    if dtype in INT_DTYPES:
        img = quantize(img, dtype, bscale)
    R = img.shape[0]
    lay = predict_layout(R, nslice, grid[1])
    cores = max(nslice, len(lay))
    if cores == 1:
        nslice = 1
    name = f"img_{jid}.npy"
    np.save(os.path.join(ctx.tmpdir(), name), img)
    return dict(id=jid, img=name, grid=list(grid), box=list(box), nslice=nslice, cores=cores, mask=bool(mask),
                variant=variant, dtype=dtype, via=via, cube_index=cube_index, n3=n3, bscale=bscale, tag=tag,
                bscale_key=bool(bscale_key), fname=fname, oname=oname, start_method=start_method, predicted=lay, _img=img)


class Hang(Exception):
    pass


JOB_TIMEOUT = 10.0   # seconds without progress before the child is killed (a BANE run takes ~0.1 s)
MAX_HANG_FRACTION = 0.15


def _run_chunk(d, chunk, job_timeout=None):
    """run one chunk in a child; returns (started ids, done ids, stderr tail, timed_out)"""
    import signal
    spec = dict(repo=common.repo_path(), dir=d,
                jobs=[{k: v for k, v in j.items() if not k.startswith('_')} for j in chunk])
    jf = os.path.join(d, f"jobs_{chunk[0]['id']}.json")
    json.dump(spec, open(jf, 'w'))
    env = dict(os.environ)
    env['PYTHONPATH'] = common.repo_path() + os.pathsep + env.get('PYTHONPATH', '')
    errf = open(os.path.join(d, 'worker.err'), 'w+')
    p = subprocess.Popen([sys.executable, HERE, '--worker', jf], stdout=subprocess.PIPE, stderr=errf,
                         text=True, start_new_session=True, cwd=d, env=env, bufsize=1)
    import queue
    import threading
    q = queue.Queue()

    def pump():
        for line in p.stdout:
            q.put(line)
        q.put(None)
    threading.Thread(target=pump, daemon=True).start()
    started, done, timed_out = [], set(), False
    last = time.time()
    jt = job_timeout or JOB_TIMEOUT
    limit = jt + 35.0      # imports of astropy/scipy in the child
    while True:
        try:
            line = q.get(timeout=1.0)
        except queue.Empty:
            if time.time() - last > limit:
                timed_out = True
                break
            continue
        if line is None:
            break
        last = time.time()
        limit = jt
        w = line.split()
        if len(w) == 2 and w[0] == 'START':
            started.append(int(w[1]))
        elif len(w) == 2 and w[0] == 'DONE':
            done.add(int(w[1]))
    if timed_out:
        try:
            os.killpg(p.pid, signal.SIGKILL)
        except ProcessLookupError:
            pass
    p.wait()
    errf.seek(0)
    err = errf.read()[-600:]
    errf.close()
    return started, done, err, timed_out, p.returncode


def run_jobs(ctx, jobs, job_timeout=None):
    """run the jobs in a child process under a watchdog; returns {id: result dict with arrays}.
    A run that does not return is C07's subject (termination): it is recorded as status 'hang', counted,
    and not judged here; too many of them make the check unusable (Hang -> exit 2)."""
    if not jobs:
        return {}
    d = ctx.tmpdir()
    out = {}
    pending = list(jobs)
    while pending:
        chunk, pending = pending[:80], pending[80:]
        started, done, err, timed_out, rc = _run_chunk(d, chunk, job_timeout)
        hung = [s for s in started if s not in done]
        if timed_out:
            for h in hung:
                out[h] = dict(id=h, status='hang')
                ctx.count('hang-skipped(C07)')
                cfg = [dict((k, v) for k, v in j.items() if k in ('grid', 'box', 'nslice', 'cores', 'variant', 'mask'))
                       for j in chunk if j['id'] == h]
                ctx.note(f"watchdog: BANE did not return within {JOB_TIMEOUT:.0f} s for {cfg} (termination is C07's property; skipped here)")
            pending = [j for j in chunk if j['id'] not in started] + pending
        elif rc != 0:
            for h in hung:
                out[h] = dict(id=h, status='crash', error=err)
            rest = [j for j in chunk if j['id'] not in started]
            if rest and started:
                pending = rest + pending
            elif rest:
                raise Hang(f"the BANE worker process could not start: {err}")
        ctx.extra['bane_runs'] = ctx.extra.get('bane_runs', 0) + len(started)
        ctx.extra['bane_hangs'] = ctx.extra.get('bane_hangs', 0) + (len(hung) if timed_out else 0)
        if ctx.extra['bane_hangs'] > 3 and ctx.extra['bane_hangs'] > MAX_HANG_FRACTION * ctx.extra['bane_runs']:
            raise Hang(f"BANE hung in {ctx.extra['bane_hangs']} of {ctx.extra['bane_runs']} runs with realised stripes <= cores")
        for j in chunk:
            rf = os.path.join(d, f"res_{j['id']}.json")
            if not os.path.exists(rf):
                continue
            r = json.load(open(rf))
            os.unlink(rf)
            for w in ('bkg', 'rms', 'file_bkg', 'file_rms', 'exp_bkg', 'exp_rms'):
                f = os.path.join(d, f"{w}_{j['id']}.npy")
                if os.path.exists(f):
                    r[w] = np.load(f)
                    os.unlink(f)
            for f in (f"in_{j['id']}.fits", f"out_{j['id']}_bkg.fits", f"out_{j['id']}_rms.fits", j['img'],
                      j.get('fname') or '', (j.get('oname') or 'none') + '_bkg.fits', (j.get('oname') or 'none') + '_rms.fits'):
                try:
                    os.unlink(os.path.join(d, f))
                except OSError:
                    pass
            out[j['id']] = r
    return out


# ---------- images ------------------------------------------------------------------------------

LAT = 16.0   # dyadic lattice 1/16


def np_rng(ctx):
    return np.random.default_rng(ctx.rng.getrandbits(63))


def lattice_noise(g, R, C, sigma=1.0):
    return np.round(g.normal(0, sigma, (R, C)) * LAT) / LAT


def gen_image(ctx, R, C):
    """returns (img float64 with NaN/inf blanks, feature dict)"""
    rng = ctx.rng
    g = np_rng(ctx)
    feat = {}
    kind = rng.choice(['noise', 'noise', 'noise', 'offset', 'offset', 'gradient', 'blanks', 'blanks', 'mixed', 'mixed',
                       'const', 'sparse', 'graded', 'graded'])
    img = lattice_noise(g, R, C)
    if kind in ('offset', 'mixed') or (kind == 'blanks' and rng.random() < 0.3):
        off = rng.choice([1000.0, -250.5, 4096.0, 100.0, -8000.25])
        img = img + off
        feat['offset'] = off
    if kind in ('gradient', 'mixed'):
        a = rng.choice([0.25, -0.5, 1.0, 0.125])
        b = rng.choice([0.25, -0.5, 0.0, 2.0])
        yy, xx = np.mgrid[0:R, 0:C]
        img = img + a * yy + b * xx
        feat['gradient'] = [a, b]
    if kind == 'const':
        img = np.full((R, C), rng.choice([0.0, 1.0, -3.5, 1000.0, 12345.0625]))
        feat['const'] = True
    if kind == 'sparse':
        # a few bright pixels on a flat floor: exercises several clipping rounds
        img = np.round(g.normal(0, 0.25, (R, C)) * LAT) / LAT
        for _ in range(rng.randint(1, 6)):
            img[rng.randrange(R), rng.randrange(C)] = rng.choice([50.0, 200.0, -75.0])
        feat['sources'] = True
    if kind == 'graded':
        img = graded_sources(ctx, g, R, C)
        feat['sources'] = True
    if kind in ('blanks', 'mixed') or rng.random() < 0.15:
        nb = 0
        for _ in range(rng.randint(1, 3)):
            h, w = rng.randint(1, max(1, R // 2)), rng.randint(1, max(1, C // 2))
            y0, x0 = rng.randrange(R), rng.randrange(C)
            img[y0:y0 + h, x0:x0 + w] = np.nan
            nb += 1
        if rng.random() < 0.3:
            img[rng.randrange(R), rng.randrange(C)] = np.inf
        if rng.random() < 0.2:
            img[rng.randrange(R), :] = np.nan
        feat['blanks'] = int(np.sum(~np.isfinite(img)))
    if kind != 'const' and rng.random() < (0.5 if kind == 'graded' else 0.08):
        # the same image in a very small / very large unit (exact: power of two)
        f = rng.choice([2.0 ** -40, 2.0 ** -50, 2.0 ** -30, 2.0 ** 30, 2.0 ** 40])
        if scale_of(img) < 2.0 ** 17:
            img = img * f
            feat['dynamic'] = f
    return img, feat


def graded_sources(ctx, g, R, C, density=10):
    """unit lattice noise + sources of graded brightness (200 … 5 sigma), about one per `density` pixels: every
    box holds several, so sigma clipping needs several rounds (each round uncovers the next fainter ones)"""
    rng = ctx.rng
    img = lattice_noise(g, R, C)
    for _ in range(max(3, R * C // density)):
        img[rng.randrange(R), rng.randrange(C)] += rng.choice([200.0, 60.0, 20.0, 8.0, 5.0, -40.0, 1000.0])
    return img


def gen_config(ctx, small=False):
    rng = ctx.rng
    while True:
        if small or rng.random() < 0.15:
            R, C = rng.randint(2, 12), rng.randint(2, 12)
        else:
            R, C = rng.randint(8, 80 if not ctx.quick else 56), rng.randint(8, 40)
        gy, gx = rng.randint(1, 8), rng.randint(1, 8)
        if rng.random() < 0.5:
            gx = gy
        bY = rng.randint(max(4, gy), 24)
        bX = rng.randint(max(4, gx), 24)
        nslice = rng.choice([1, 1, 2, 2, 3, 4])
        lay = predict_layout(R, nslice, gx)
        if len(lay) > 5:
            continue
        nn = sum(((b - a + gy - 1) // gy + 1) for a, b in lay) * ((C + gx - 1) // gx + 1)
        cost = nn * min(bY, R) * min(bX, C)
        if cost > (60000 if ctx.quick else 150000):
            continue
        return R, C, (gy, gx), (bY, bX), nslice


# ---------- model --------------------------------------------------------------------------------

def pix_tokens(img):
    return " ".join(common.f2h(v) if math.isfinite(v) else 'n' for v in img.ravel().tolist())


def model_line(op, img, grid, box, stripes, mask, mode=None, edge=None):
    R, C = img.shape
    st = " ".join(f"{a} {b}" for a, b in stripes)
    return (f"{op} {mode or MODE} {1 if mask else 0} {R} {C} {grid[0]} {grid[1]} {box[0]} {box[1]} "
            f"{EDGE if edge is None else edge} {len(stripes)} {st} {pix_tokens(img)}")


def parse_model(line, R, C):
    w = line.split()
    if w[0] != 'ok' or len(w) != 1 + 2 * R * C:
        return None
    vals = np.array([np.nan if t == 'n' else common.h2f(t) for t in w[1:]])
    return vals[:R * C].reshape(R, C), vals[R * C:].reshape(R, C)


def f32_close(a, b, scale, rel=2e-6, absrel=1e-9):
    """elementwise comparison in the float32 class: |a-b| <= rel*max(|a|,|b|) + absrel*scale (scale = largest
    |finite input pixel| of the image the maps belong to, so tiny- and huge-valued images are judged relative to
    their own unit); NaN patterns must agree; returns (ok, index, detail)"""
    a = np.asarray(a, dtype=np.float64)
    b = np.asarray(b, dtype=np.float64)
    if a.shape != b.shape:
        return False, None, f"shape {a.shape} vs {b.shape}"
    na, nb = ~np.isfinite(a), ~np.isfinite(b)
    if not np.array_equal(na, nb):
        idx = tuple(int(i) for i in np.argwhere(na != nb)[0])
        return False, idx, f"blank pattern differs at {idx}: {a[idx]} vs {b[idx]}"
    ok = np.abs(a - b) <= rel * np.maximum(np.abs(a), np.abs(b)) + absrel * scale
    ok |= na
    if ok.all():
        return True, None, ''
    idx = tuple(int(i) for i in np.argwhere(~ok)[0])
    return False, idx, f"value differs at {idx}: {a[idx]!r} vs {b[idx]!r} ({int((~ok).sum())} pixels differ)"


def scale_of(img):
    f = img[np.isfinite(img)]
    m = float(np.max(np.abs(f))) if f.size else 0.0
    return m if m > 0 else 1.0


def case_of(job, extra=None):
    if job.get('_history'):          # a step of a history is only reproducible with the steps before it
        return dict(job['_history'], tag=job['tag'])
    return raw_case_of(job, extra)


def raw_case_of(job, extra=None):
    img = job['_img']
    c = dict(shape=list(img.shape), grid=job['grid'], box=job['box'], nslice=job['nslice'], cores=job['cores'],
             mask=job['mask'], variant=job['variant'], dtype=job['dtype'], via=job['via'],
             cube_index=job['cube_index'], n3=job['n3'], bscale=job['bscale'], bscale_key=job.get('bscale_key', False),
             start_method=job.get('start_method'), tag=job['tag'],
             image=[common.f2h(v) if math.isfinite(v) else ('n' if v != v else ('pinf' if v > 0 else 'ninf'))
                    for v in img.ravel().tolist()])
    if extra:
        c.update(extra)
    return c


def img_from_case(c):
    def tok(t):
        return np.nan if t == 'n' else np.inf if t == 'pinf' else -np.inf if t == 'ninf' else common.h2f(t)
    return np.array([tok(t) for t in c['image']]).reshape(c['shape'])


def job_from_case(ctx, c, img=None):
    return mkjob(ctx, img_from_case(c) if img is None else img, c['grid'], c['box'], nslice=c['nslice'],
                 mask=c['mask'], variant=c['variant'], dtype=c['dtype'], via=c['via'], cube_index=c['cube_index'],
                 n3=c.get('n3', 3), bscale=c.get('bscale', 1.0), tag=c.get('tag', ''), bscale_key=c.get('bscale_key', False),
                 start_method=c.get('start_method'))


# ---------- Spec checks on one run ----------------------------------------------------------------

def maps_of(job, res):
    """the (bkg, rms) maps in image units, from memory or from the files"""
    if 'bkg' in res:
        return np.asarray(res['bkg'], dtype=np.float64), np.asarray(res['rms'], dtype=np.float64)
    if job['via'] == 'cli' and 'file_bkg' in res:
        return res['file_bkg'], res['file_rms']   # astropy applies the file's BSCALE on read
    return None, None


def sig(what, job, **kw):
    img = job['_img']
    s = dict(what=what, one_row_or_col=bool(min(img.shape) == 1), multi_stripe=bool(len(job.get('_stripes', job['predicted'])) > 1))
    s.update(kw)
    return s


def spec_single(ctx, job, res):
    """clauses of the property that concern one run.  Returns True if all hold."""
    img = job['_img']
    R, C = img.shape
    ok = True
    if res.get('status') == 'hang':
        return False
    if res.get('status') != 'ok':
        ctx.fail('spec', case_of(job), f"BANE did not produce maps: {res.get('status')} {res.get('error', '')}",
                 sig('no-maps', job, status=res.get('status'), integer_raw=bool(job['dtype'] in INT_DTYPES),
                     bscale_card=bool(job['bscale'] != 1.0 or job.get('bscale_key'))))
        return False
    bkg, rms = maps_of(job, res)
    if bkg is None:
        ctx.fail('spec', case_of(job), "no maps returned", sig('no-maps', job))
        return False
    stripes = res.get('stripes') or job['predicted']
    job['_stripes'] = stripes
    if res.get('mutated_args'):
        ctx.fail('spec', case_of(job), f"filter_image modified its caller's arguments: {res['mutated_args']}", sig('argument-mutated', job))
        ok = False
    # shape
    if bkg.shape != (R, C) or rms.shape != (R, C):
        ctx.fail('spec', case_of(job), f"map shapes {bkg.shape}/{rms.shape} for an image of shape {(R, C)}", sig('shape', job))
        return False
    fin = np.isfinite(img)
    scale = scale_of(img)
    nb, nr = ~np.isfinite(bkg), ~np.isfinite(rms)
    # mask rules
    if job['mask'] and (np.any(~nb & ~fin) or np.any(~nr & ~fin)):
        idx = tuple(int(i) for i in np.argwhere((~nb | ~nr) & ~fin)[0])
        ctx.fail('spec', case_of(job), f"non-finite input pixel {idx} is not NaN in both maps (bkg {bkg[idx]}, rms {rms[idx]})",
                 sig('mask-missing', job))
        ok = False
    if fin.all() and (nb.any() or nr.any()):
        allnan = bool(nb.all() and nr.all())
        idx = tuple(int(i) for i in np.argwhere(nb | nr)[0])
        ctx.fail('spec', case_of(job), f"image without blank pixels gives blank map pixels (first at {idx}; "
                 f"{int(nb.sum())}/{nb.size} bkg, {int(nr.sum())}/{nr.size} rms)",
                 sig('all-nan-maps' if allnan else 'nan-in-maps', job))
        ok = False
    elif not fin.all() and min(R, C) >= 2:
        # far from every blank => finite
        by, bx = np.nonzero(~fin)
        yy, xx = np.mgrid[0:R, 0:C]
        far = np.ones((R, C), bool)
        dy_lim, dx_lim = job['box'][0] // 2 + job['grid'][0], job['box'][1] // 2 + job['grid'][1]
        for y0, x0 in zip(by.tolist(), bx.tolist()):
            far &= (np.abs(yy - y0) > dy_lim) | (np.abs(xx - x0) > dx_lim)
            if not far.any():
                break
        bad = far & (nb | nr)
        if bad.any():
            idx = tuple(int(i) for i in np.argwhere(bad)[0])
            ctx.fail('spec', case_of(job), f"pixel {idx} is farther than box/2+grid from every blank pixel but is NaN in a map",
                     sig('far-from-blanks', job))
            ok = False
        ctx.count('far-pixels-checked', int(far.sum()))
    # range
    if fin.any():
        lo, hi = float(img[fin].min()), float(img[fin].max())
        slack = 2e-6 * max(abs(lo), abs(hi)) + 1e-9 * scale
        fb = bkg[~nb]
        if fb.size and (fb.min() < lo - slack or fb.max() > hi + slack):
            ctx.fail('spec', case_of(job), f"background [{fb.min()}, {fb.max()}] leaves the range of the finite input pixels [{lo}, {hi}]",
                     sig('bkg-range', job))
            ok = False
        fr = rms[~nr]
        if fr.size and (fr.min() < 0 or fr.max() > (hi - lo) + slack):
            idx = tuple(int(i) for i in np.argwhere(np.nan_to_num(rms) == fr.max())[0])
            ctx.fail('spec', case_of(job), f"noise map reaches {fr.max()} at {idx} but the finite input pixels span only {hi - lo} "
                     f"(min {lo}, max {hi}); must be 0 <= noise <= range", sig('rms-range', job))
            ok = False
        if lo == hi:   # constant image
            if fb.size and np.max(np.abs(fb - lo)) > slack:
                ctx.fail('spec', case_of(job), f"constant image {lo}: background {fb.min()}..{fb.max()}", sig('const-bkg', job))
                ok = False
            if fr.size and np.max(np.abs(fr)) > slack:
                ctx.fail('spec', case_of(job), f"constant image {lo}: noise {fr.max()} != 0", sig('const-rms', job))
                ok = False
    # files agree with the returned maps
    if 'file_bkg' in res and 'bkg' in res:
        for w, m in (('bkg', bkg), ('rms', rms)):
            fdat = res['file_' + w]   # astropy applies the file's BSCALE on read: image units
            if job['via'] == 'compressed':
                f = job['grid'][0] if job['grid'][0] == job['grid'][1] else min(job['grid'])
                ri, ci = dec_indices(ctx, R, f), dec_indices(ctx, C, f)
                nx, ny = len(ri) - 1, len(ci) - 1
                good = fdat.shape == (nx + 1, ny + 1)
                if good:
                    good, idx, det = f32_close(fdat, m[np.ix_(ri, ci)], scale)
                else:
                    det = f"compressed shape {fdat.shape}, expected {(nx + 1, ny + 1)}"
                if not good:
                    ctx.fail('spec', case_of(job), f"compressed {w} file disagrees with the uncompressed map at the decimation nodes: {det}",
                             sig('compressed-file', job))
                    ok = False
            else:
                okc, idx, det = f32_close(fdat, m, scale)
                if not okc:
                    ctx.fail('spec', case_of(job), f"{w} file differs from the returned map: {det}", sig('file', job))
                    ok = False
    # the second observation point on its own: the *_bkg.fits / *_rms.fits files (decimated nodes when compressed,
    # and the maps expanded back by fits_tools.expand) must obey the range / constant clauses themselves
    if fin.any():
        lo, hi = float(img[fin].min()), float(img[fin].max())
        for where, kb, kr in (('file', 'file_bkg', 'file_rms'), ('expanded file', 'exp_bkg', 'exp_rms')):
            if kb in res and kr in res:
                ctx.count('observed-' + where.replace(' ', '-'))
                if where == 'expanded file' and (res[kb].shape != (R, C) or res[kr].shape != (R, C)):
                    ctx.fail('spec', case_of(job), f"expanded maps have shape {res[kb].shape}/{res[kr].shape}, image {(R, C)}",
                             sig('expanded-shape', job))
                    ok = False
                    continue
                ok = range_const(ctx, job, lo, hi, scale, res[kb], res[kr], where) and ok
    if res.get('expand_error'):
        ctx.fail('spec', case_of(job), f"the compressed output cannot be expanded: {res['expand_error']}", sig('expand-raises', job))
        ok = False
    return ok


_DEC = {}


def dec_indices(ctx, n, f):
    """file index -> map index of a compressed output: the Lean model's `decIdx` (driver op `dec`), so that the
    theorem compressed_file_is_returned_at_nodes is what the files are compared with; Python formula as fallback"""
    if not _DEC and ctx.driver_ok:
        keys = [(a, b) for a in range(1, 121) for b in range(1, 9)]
        try:
            outs = ctx.driver.batch([f"dec {a} {b}" for a, b in keys])
            for k, o in zip(keys, outs):
                _DEC[k] = [int(t) for t in o.split()]
        except Exception:
            _DEC[(0, 0)] = []
    if (n, f) in _DEC:
        ctx.count('dec-indices-from-model')
        return _DEC[(n, f)]
    return list(range(0, n, f)) + [n - 1]


def range_const(ctx, job, lo, hi, scale, bmap, rmap, where):
    """background within [lo, hi], 0 <= noise <= hi - lo, and for a constant image background = constant, noise = 0,
    judged on the maps observed at `where` (image units)"""
    slack = 2e-6 * max(abs(lo), abs(hi)) + 1e-9 * scale
    fb = bmap[np.isfinite(bmap)]
    fr = rmap[np.isfinite(rmap)]
    good = True
    if fb.size and (fb.min() < lo - slack or fb.max() > hi + slack):
        ctx.fail('spec', case_of(job), f"{where}: background [{fb.min()}, {fb.max()}] leaves the range of the finite input pixels "
                 f"[{lo}, {hi}]" + (" (constant image)" if lo == hi else ""), sig('bkg-range', job, where=where))
        good = False
    if fr.size and (fr.min() < 0 or fr.max() > (hi - lo) + slack):
        ctx.fail('spec', case_of(job), f"{where}: noise reaches {fr.max()} but the finite input pixels span only {hi - lo}"
                 + (" (constant image: must be 0)" if lo == hi else ""), sig('rms-range', job, where=where))
        good = False
    return good


def nontrivial_key(job, feat):
    img = job['_img']
    R, C = img.shape
    fin = img[np.isfinite(img)]
    if fin.size == 0 or fin.min() == fin.max():
        return None
    if R <= job['grid'][0] or C <= job['grid'][1]:
        return None
    interesting = (len(job.get('_stripes', job['predicted'])) >= 2 or feat.get('blanks') or abs(feat.get('offset', 0)) >= 100
                   or feat.get('gradient') or job['cube_index'] > 0 or job['bscale'] != 1.0 or feat.get('dynamic')
                   or feat.get('sources'))
    if not interesting:
        return None
    import hashlib
    h = hashlib.sha1(np.ascontiguousarray(img).tobytes()).hexdigest()[:12]
    return (h, tuple(job['grid']), tuple(job['box']), job['nslice'], job['mask'], job['variant'], job['dtype'], job['via'])


# ---------- correspondence -------------------------------------------------------------------------

def correspond(ctx, jobs, results, feats):
    """compare each run's maps with the Lean model on the realised stripes"""
    if not ctx.driver_ok:
        return
    lines, meta = [], []
    for job in jobs:
        res = results.get(job['id'])
        if not res or res.get('status') != 'ok':
            continue
        bkg, rms = maps_of(job, res)
        if bkg is None or bkg.shape != job['_img'].shape:
            continue
        stripes = res.get('stripes') or job['predicted']
        if 'stripes' not in res:
            ctx.count('layout-from-formula')
        lines.append(model_line('bane', job['_img'], job['grid'], job['box'], stripes, job['mask']))
        meta.append((job, bkg, rms, stripes))
    outs = ctx.driver.batch(lines)
    recheck = []
    for (job, bkg, rms, stripes), line, out in zip(meta, lines, outs):
        R, C = job['_img'].shape
        pm = parse_model(out, R, C)
        if pm is None:
            ctx.fail('corr', case_of(job), f"model rejected the case: {out[:80]}", dict(what='model-reject'))
            continue
        scale = scale_of(job['_img'])
        okb, ib, db = f32_close(bkg, pm[0], scale)
        okr, ir, dr = f32_close(rms, pm[1], scale)
        if okb and okr:
            ctx.count('corr-agree')
            continue
        recheck.append((job, 'bkg: ' + db if not okb else 'rms: ' + dr, 'margin' + line[4:], stripes))
    if recheck:
        ms = ctx.driver.batch([r[2] for r in recheck])
        for (job, det, _, stripes), m in zip(recheck, ms):
            try:
                margin = common.h2f(m)
            except Exception:
                margin = 1.0
            if margin < TIE_EPS:
                ctx.count('tie-skipped')
                continue
            ctx.fail('corr', case_of(job, dict(stripes=[list(s) for s in stripes])),
                     f"implementation (a) and model (b) differ, {det}; smallest clip margin {margin:.3g}",
                     sig('model-vs-impl', job))


# ---------- metamorphic relations on the real code --------------------------------------------------

def judge_relation(ctx, kind, par, img1, img2, b1, r1, b2, rr2):
    """does (b2, rr2), observed for the transformed image, relate to (b1, r1) as the property demands?"""
    exact = False
    if kind == 'shift':
        scale = max(scale_of(img1), scale_of(img2))
        wb, wr = b1 + par, r1
        law = f"adding {par} must add {par} to the background and leave the noise unchanged"
        okb, ib, db = f32_close(b2, wb, scale)
        okr, ir, dr = f32_close(rr2, wr, scale)
    else:
        scale = scale_of(img2)          # judged in the units of the transformed image
        wb, wr = b1 * par, r1 * abs(par)
        law = f"multiplying by {par} must scale the background by {par} and the noise by {abs(par)}"
        exact = is_pow2(par)
        if exact:
            ctx.count('metamorphic-scale-pow2-exact')
            okb, ib, db = f32_close(b2, wb, scale, rel=1.2e-7, absrel=0.0)
            okr, ir, dr = f32_close(rr2, wr, scale, rel=1.2e-7, absrel=0.0)
        else:
            okb, ib, db = f32_close(b2, wb, scale)
            okr, ir, dr = f32_close(rr2, wr, scale)
    return (okb and okr), law, (('bkg: ' + db) if not okb else ('noise: ' + dr) if not okr else ''), exact


SHIFTS = [1000.0, -250.5, 16384.0, 64.0]
BIG_SHIFTS = [2.0 ** 20, -2.0 ** 24, 3.0 * 2.0 ** 18]       # used with float64 files only
SCALES = [2.0, -1.0, -0.75, 3.0, 0.5, -4.0]
# exact powers of two over a wide dynamic range: scaling by 2**n commutes with every rounding of the float64
# pipeline (sums, means, squares, sqrt of an even power, comparisons, interpolation weights) and with the float32
# cast (no under/overflow: lattice 2**-4, |values| < 2**17, so 2**-60 .. 2**40 stays normal), hence the maps of k*I
# must equal k*bkg(I), |k|*rms(I) BIT-EXACTLY.  Tolerance used: 1 float32 ulp (1.2e-7 relative), no absolute term,
# and no tie excuse (a tie is resolved identically in both runs).
POW2_SCALES = [2.0 ** -40, 2.0 ** -20, 2.0 ** 20, -2.0 ** -30, 2.0 ** 40, -2.0 ** -60, 2.0 ** -50, -2.0 ** 30]


def is_pow2(k):
    m, _ = math.frexp(abs(k))
    return m == 0.5


def metamorphic(ctx, base_jobs, results):
    """for each base job run the image shifted and scaled and compare the maps (Spec, 'spec' failures)"""
    rng = ctx.rng
    derived = []
    for job in base_jobs:
        res = results.get(job['id'])
        if not res or res.get('status') != 'ok' or 'bkg' not in res:
            continue
        img = job['_img']
        sc0 = scale_of(img)
        todo = []
        if 2.0 ** -10 < sc0 <= 40000:
            c = rng.choice(SHIFTS + (BIG_SHIFTS if job['dtype'] == 'f8' else []))
            todo.append(('shift', c, img + c))
            k = rng.choice(SCALES)
            todo.append(('scale', k, img * k))
        if 2.0 ** -10 < sc0 < 2.0 ** 17:
            k2 = rng.choice(POW2_SCALES)
            todo.append(('scale', k2, img * k2))
        elif sc0 <= 2.0 ** -10 or sc0 >= 2.0 ** 17:
            # an already tiny / huge image: bring it back to ordinary units
            e = round(math.log2(sc0)) - 6
            todo.append(('scale', 2.0 ** -e, img * 2.0 ** -e))
        for kind, par, im2 in todo:
            isint = job['dtype'] in INT_DTYPES
            j2 = mkjob(ctx, im2, job['grid'], job['box'], nslice=job['nslice'], mask=job['mask'], variant=job['variant'],
                       dtype=('f8' if isint else job['dtype']), via=(job['via'] if job['via'] != 'cli' else 'mem'),
                       cube_index=job['cube_index'], n3=job['n3'], bscale=(1.0 if isint else job['bscale']),
                       bscale_key=(False if isint else job.get('bscale_key', False)), tag=f"{kind}:{par}")
            derived.append((job, kind, par, j2))
    res2 = run_jobs(ctx, [d[3] for d in derived])
    bad = []
    for job, kind, par, j2 in derived:
        r2 = res2.get(j2['id'])
        ctx.case(dict(shape=list(job['_img'].shape), grid=job['grid'], box=job['box'], nslice=job['nslice'], relation=kind, par=par))
        ctx.count('metamorphic-' + kind)
        if r2 and r2.get('status') == 'hang':
            continue
        if not r2 or r2.get('status') != 'ok' or 'bkg' not in r2:
            ctx.fail('spec', case_of(j2), f"BANE failed on the {kind} image: {r2 and r2.get('error')}", sig('no-maps', j2))
            continue
        spec_single(ctx, j2, r2)          # the transformed run is a run too: both observation points are judged
        r1res = results[job['id']]
        points = [('returned maps',) + maps_of(job, r1res) + maps_of(j2, r2)]
        if 'file_bkg' in r1res and 'file_bkg' in r2 and 'bkg' in r1res:
            points.append(('files', r1res['file_bkg'], r1res['file_rms'], r2['file_bkg'], r2['file_rms']))
        for where, b1, r1, b2, rr2 in points:
            if b1 is None or b2 is None or b1.shape != b2.shape:
                continue
            okk, law, det, exact = judge_relation(ctx, kind, par, job['_img'], j2['_img'], b1, r1, b2, rr2)
            if not okk:
                bad.append((job, kind, par, j2, f"[{where}] " + law, det, exact))
                break
    if bad:
        # rounding ties in the clipping of the base image excuse a difference
        margins = [1.0] * len(bad)
        if ctx.driver_ok:
            lines = [model_line('margin', b[0]['_img'], b[0]['grid'], b[0]['box'], b[0].get('_stripes', b[0]['predicted']),
                                b[0]['mask']) for b in bad]
            lines += [model_line('margin', b[3]['_img'], b[3]['grid'], b[3]['box'], b[0].get('_stripes', b[0]['predicted']),
                                 b[3]['mask']) for b in bad]
            try:
                ms = [common.h2f(m) for m in ctx.driver.batch(lines)]
                margins = [min(a, b) for a, b in zip(ms[:len(bad)], ms[len(bad):])]
            except Exception:
                pass
        for (job, kind, par, j2, law, det, exact), mg in zip(bad, margins):
            if mg < TIE_EPS and not exact:
                ctx.count('tie-skipped')
                continue
            ctx.fail('spec', case_of(job, dict(relation=kind, par=par)),
                     f"{law}; observed (transformed run vs expectation from the base run) {det}",
                     sig(kind + '-law', job, relation=kind))


# ---------- sigmaclip alone ---------------------------------------------------------------------------

def rel_close(a, b, rel, abs_):
    """like common.close but without its floor of 1.0 on the magnitude (tiny-valued lists)"""
    if a != a and b != b:
        return True
    if a != a or b != b:
        return False
    return abs(a - b) <= max(abs_, rel * max(abs(a), abs(b)))


def clip_cases(ctx, n):
    from AegeanTools import BANE
    rng = ctx.rng
    g = np_rng(ctx)
    lists = [[], [float('nan')], [1.0], [2.0, 2.0, 2.0], [0.0] * 9 + [1.0], [0.0] * 30 + [100.0], [1.0, float('inf'), 3.0]]
    for _ in range(n):
        m = rng.choice([1, 2, 3, 5, 8, 16, 40, 100, 400])
        a = np.round(g.normal(0, 1, m) * LAT) / LAT + rng.choice([0.0, 1000.0, -37.5])
        for _ in range(rng.choice([0, 0, 1, 3])):
            a[rng.randrange(m)] = rng.choice([50.0, -80.0, float('nan'), float('inf')])
        lists.append(a.tolist())
    for _ in range(max(12, n // 4)):
        m = rng.choice([16, 40, 100, 400])
        a = np.round(g.normal(0, 1, m) * LAT) / LAT
        for _ in range(max(2, m // 8)):
            a[rng.randrange(m)] += rng.choice([200.0, 60.0, 20.0, 8.0, 5.0, -40.0, 1000.0])
        # Spec on the implementation alone: power-of-two rescaling is exact, so the result must scale bit-exactly
        import warnings
        with warnings.catch_warnings():
            warnings.simplefilter('ignore')
            m0, s0 = BANE.sigmaclip(a, 3, 3)
            for k in (2.0 ** -40, -2.0 ** -30, 2.0 ** 30):
                mk, sk = BANE.sigmaclip(a * k, 3, 3)
                ctx.count('sigmaclip-pow2-scale')
                if not (mk == m0 * k and sk == s0 * abs(k)):
                    ctx.fail('spec', dict(op='sigmaclip', arr=[repr(v) for v in a.tolist()], par=k),
                             f"sigmaclip(k*x) = {(mk, sk)} but k*mean, |k|*std of sigmaclip(x) = {(m0 * k, s0 * abs(k))} for k = {k} "
                             "(an exact power of two: must agree bit for bit)", dict(what='sigmaclip-scale-law'))
                    break
        lists.append((a * rng.choice([1.0, 2.0 ** -40, 2.0 ** -50, 2.0 ** -20, 2.0 ** 30, -2.0 ** -30])).tolist())
    lines = ["clip 10 " + " ".join(common.f2h(v) if math.isfinite(v) else 'n' for v in l) for l in lists]
    outs = ctx.driver.batch(lines)
    for l, o in zip(lists, outs):
        import warnings
        with warnings.catch_warnings():
            warnings.simplefilter('ignore')
            m, s = BANE.sigmaclip(np.array(l, dtype=np.float64), 3, 3)
        ctx.count('sigmaclip-list')
        fin = [v for v in l if math.isfinite(v)]
        ctx.case(dict(op='sigmaclip', n=len(l), finite=len(fin)),
                 nontrivial_key=('clip', len(l), round(sum(fin), 4)) if len(set(fin)) > 2 else None, sample_every=400)
        if o == 'none':
            if not (m != m and s != s):
                ctx.fail('corr', dict(op='sigmaclip', arr=[repr(v) for v in l]), f"model none, implementation {(m, s)}", dict(what='sigmaclip'))
            continue
        mm, ms = [common.h2f(t) for t in o.split()]
        sc = max([abs(v) for v in fin] + [1e-300])
        if not (rel_close(m, mm, 1e-12, 1e-12 * sc) and rel_close(s, ms, 1e-9, 1e-12 * sc)):
            # tie?
            if len(fin) <= 12:
                ctx.count('tie-skipped')
                continue
            ctx.fail('corr', dict(op='sigmaclip', arr=[repr(v) for v in l]), f"implementation {(m, s)} vs model {(mm, ms)}", dict(what='sigmaclip'))
        # Spec on the implementation
        if fin and not (min(fin) - 1e-9 * sc <= m <= max(fin) + 1e-9 * sc and 0 <= s <= (max(fin) - min(fin)) + 1e-9 * sc):
            ctx.fail('spec', dict(op='sigmaclip', arr=[repr(v) for v in l]), f"sigmaclip returned {(m, s)} outside the range of its finite inputs",
                     dict(what='sigmaclip-range'))


# ---------- statistics (exploration) -------------------------------------------------------------------

def statistics(ctx, n):
    rng = ctx.rng
    g = np_rng(ctx)
    jobs = []
    for _ in range(n):
        R, C = rng.randint(48, 96), rng.randint(48, 96)
        m = rng.choice([0.0, 5.0, 1000.0, -300.0])
        s = rng.choice([1.0, 0.1, 25.0])
        img = g.normal(m, s, (R, C)).astype(np.float32).astype(np.float64)
        gy = rng.choice([4, 8])
        b = rng.choice([24, 32, 40])
        j = mkjob(ctx, img, (gy, gy), (b, b), nslice=rng.choice([1, 2, 3]), dtype='f4', tag=f"gauss:{m}:{s}")
        j['_ms'] = (m, s)
        jobs.append(j)
    res = run_jobs(ctx, jobs)
    for j in jobs:
        r = res.get(j['id'])
        ctx.case(dict(op='statistics', shape=list(j['_img'].shape), m=j['_ms'][0], s=j['_ms'][1], nslice=j['nslice']))
        ctx.count('statistics-image')
        if not r or r.get('status') != 'ok':
            continue
        j['_stripes'] = r.get('stripes') or j['predicted']
        m, s = j['_ms']
        bkg, rms = maps_of(j, r)
        nmin = (j['box'][0] // 2 - 1) * (j['box'][1] // 2 - 1)
        eb = float(np.nanmax(np.abs(bkg - m))) / (s / math.sqrt(nmin))
        er = float(np.nanmax(np.abs(rms / s - 0.986)))
        lim = 0.05 + 6 / math.sqrt(2 * nmin)
        ctx.extra.setdefault('statistics_exploration', []).append(
            dict(m=m, s=s, stripes=len(j['_stripes']), worst_bkg_in_standard_errors=round(eb, 2), worst_rms_rel=round(er, 4), rms_limit=round(lim, 4)))
        if eb > 6 or er > lim:
            ctx.fail('spec', case_of(j), f"Gaussian noise m={m}, s={s}: background off by {eb:.1f} standard errors (limit 6), "
                     f"noise/s-0.986 = {er:.3f} (limit {lim:.3f})", sig('statistics', j))


# ---------- corpus --------------------------------------------------------------------------------------

def corpus_jobs(ctx):
    """witnesses of the ledger defects: always run, compared with the model and the Spec"""
    g = np.random.default_rng(20260930)
    jobs, feats = [], []
    # item 8: +1000 DC offset, two stripes
    img = lattice_noise(g, 32, 12) + 1000.0
    jobs.append(mkjob(ctx, img, (4, 4), (8, 8), nslice=2, tag='ledger-8 DC offset, 2 stripes')); feats.append(dict(offset=1000.0))
    jobs.append(mkjob(ctx, img, (4, 4), (8, 8), nslice=1, tag='ledger-8 control, 1 stripe')); feats.append(dict(offset=1000.0))
    img = lattice_noise(g, 40, 10) - 8000.25
    jobs.append(mkjob(ctx, img, (2, 2), (6, 6), nslice=4, mask=False, tag='DC offset, 4 stripes, no mask')); feats.append(dict(offset=-8000.25))
    # item 22: one row / one column
    jobs.append(mkjob(ctx, lattice_noise(g, 1, 40), (4, 4), (16, 16), tag='ledger-22 1xN')); feats.append({})
    jobs.append(mkjob(ctx, lattice_noise(g, 40, 1), (4, 4), (16, 16), tag='ledger-22 Nx1')); feats.append({})
    jobs.append(mkjob(ctx, lattice_noise(g, 2, 40), (4, 4), (16, 16), tag='2xN')); feats.append({})
    # last row / column carry signal only there
    img = lattice_noise(g, 12, 12)
    img[-1, :] += 64.0
    img[:, -1] -= 32.0
    jobs.append(mkjob(ctx, img, (3, 3), (6, 6), tag='bright last row/col')); feats.append(dict(offset=64.0))
    # exact clipping tie: nine 0 and a 1 (x = m + 3 s exactly over the reals)
    img = np.zeros((5, 5)); img[1, 1] = 1.0
    jobs.append(mkjob(ctx, img, (4, 4), (4, 4), tag='tie')); feats.append({})
    # graded sources (clipping needs several rounds), in ordinary, tiny and huge units, 1 and 2 stripes;
    # the metamorphic pass (meta_fraction=1 for the corpus) adds power-of-two rescalings of each
    class _C:      # fixed-seed stand-in for ctx in graded_sources
        import random as _r
        rng = _r.Random(606)
    src = graded_sources(_C, g, 24, 20, density=8)
    for f, tag in ((1.0, 'sources'), (2.0 ** -40, 'sources x 2**-40 (tiny unit)'), (2.0 ** 40, 'sources x 2**40 (huge unit)'),
                   (-2.0 ** -30, 'sources x -2**-30')):
        for ns in (1, 2):
            jobs.append(mkjob(ctx, src * f, (4, 4), (8, 10), nslice=ns, dtype='f4' if ns == 1 else 'f8', tag=tag))
            feats.append(dict(sources=True, dynamic=f))
    cdir = os.path.join(common.VERIF, 'corpus', 'C06')
    if os.path.isdir(cdir):
        for fn in sorted(os.listdir(cdir)):
            if fn.endswith('.json'):
                c = json.load(open(os.path.join(cdir, fn)))
                c = c.get('case', c)
                jobs.append(job_from_case(ctx, c)); feats.append(dict(corpus=fn))
    return jobs, feats


def option_matrix(ctx):
    """the full product {BSCALE absent, 1, != 1} x {compressed on/off} x {out_base given/None} x {2-D, 3-D/4-D with a cube
    index}, every quick run, on a constant image and on a noisy image with an offset (alternating 1 and 2 stripes); every job is
    judged at both observation points (returned maps; files read back, and expanded when compressed), against the model, and
    by the shift / scale relations (meta_fraction = 1)"""
    g = np.random.default_rng(60603 + ctx.seed)
    jobs, feats = [], []
    n = 0
    for bmode in ('absent', 'one', 'other'):
        for via in ('mem', 'memcomp', 'files', 'compressed'):      # (out_base None | given) x (compressed off | on)
            for variant in ('2d', ('3d', '4d')[n % 2]):
                n += 1
                kw = dict(bscale_key=(bmode == 'one'), bscale=(ctx.rng.choice([4.0, 0.5, 2.0]) if bmode == 'other' else 1.0))
                if variant != '2d':
                    kw.update(n3=2, cube_index=1)
                const = (n % 3 == 0)
                img = np.full((14, 12), 6.0) if const else lattice_noise(g, 14, 12) + ctx.rng.choice([6.0, 100.0, -37.5])
                dtype = ('f4', 'f8', 'i2', 'f4', 'i4', 'u1')[n % 6]      # float and integer (BITPIX 8/16/32) raw data
                if dtype in INT_DTYPES and bmode == 'other':
                    kw['bscale'] = (2.5, 0.5, 4.0)[n % 3]
                jobs.append(mkjob(ctx, img, (4, 4), (8, 6), nslice=1 + n % 2, mask=True, variant=variant,
                                  dtype=dtype, via=via, tag=f"matrix {bmode}/{via}/{variant}/{dtype}", **kw))
                feats.append(dict(const=True) if const else dict(offset=100.0))
    return jobs, feats


# ---------- environment: the multiprocessing start method chosen by the calling application ---------------------

def start_method_cases(ctx):
    """the caller has done multiprocessing.set_start_method('spawn' | 'forkserver') before calling BANE (applications that
    mix threads and processes do): the maps must obey the Spec and be bit-identical to the run under the default"""
    g = np_rng(ctx)
    rng = ctx.rng
    protos = [
        dict(img=np.full((12, 10), 3.0), nslice=2, bscale=2.5, via='mem', variant='2d', kw={}),
        dict(img=lattice_noise(g, 14, 12) + rng.choice([100.0, -37.5]), nslice=rng.choice([1, 2]), bscale=rng.choice([0.5, 4.0]),
             via='files', variant='2d', kw={}),
        dict(img=lattice_noise(g, 12, 12) + 6.0, nslice=2, bscale=1.0, via='compressed', variant='3d', kw=dict(n3=2, cube_index=1)),
    ]
    for sm in ('spawn', 'forkserver'):
        jobs, twins = [], []
        for pr in protos:
            kw = dict(nslice=pr['nslice'], mask=True, variant=pr['variant'], dtype='f4', via=pr['via'], bscale=pr['bscale'], **pr['kw'])
            jobs.append(mkjob(ctx, pr['img'], (4, 4), (8, 6), tag=f"start method {sm}", start_method=sm, **kw))
            twins.append(mkjob(ctx, pr['img'], (4, 4), (8, 6), tag="start method default (twin)", **kw))
        # on a tree that honours the chosen method the workers are spawned (seconds each): own chunk, longer watchdog
        res = run_jobs(ctx, jobs, job_timeout=90.0)
        rt = run_jobs(ctx, twins)
        ok = []
        for j, t in zip(jobs, twins):
            r1, r2 = res.get(j['id']), rt.get(t['id'])
            ctx.count('start-method-' + sm)
            ctx.case(dict(op='start-method', method=sm, shape=list(j['_img'].shape), bscale=j['bscale'], via=j['via'], nslice=j['nslice']),
                     nontrivial_key=('start-method', sm, j['bscale'], j['via'], ctx.seed))
            if not r1 or not r2 or 'hang' in (r1.get('status'), r2.get('status')):
                continue
            spec_single(ctx, j, r1)
            if r1.get('status') == 'ok':
                ok.append(j)
            for w in ('bkg', 'rms', 'file_bkg', 'file_rms'):
                if (w in r1) != (w in r2) or (w in r1 and not np.array_equal(r1[w], r2[w], equal_nan=True)):
                    a, b = r1.get(w), r2.get(w)
                    det = ''
                    if a is not None and b is not None and a.shape == b.shape:
                        idx = tuple(int(i) for i in np.argwhere(~((a == b) | (np.isnan(a) & np.isnan(b))))[0])
                        det = f": at {idx} {a[idx]!r} under {sm} vs {b[idx]!r} under the default"
                    ctx.fail('spec', case_of(j), f"{w} depends on the multiprocessing start method chosen by the caller ({sm})" + det,
                             dict(what='start-method-dependence', method=sm, site='AegeanTools/BANE.py:filter_mc_sharemem'))
                    break
        correspond(ctx, ok, res, [{}] * len(ok))


# ---------- regenerated arithmetic (Gen.C06) vs the Python it was translated from ----------------------------

def gen_cases(ctx, n):
    """box(r, c), data_row_min and data_row_max of the tree under test, evaluated by Python on the statements cut out of
    sigma_filter, against the regenerated Lean definitions (driver op `genbox`).  A difference on a *translated* piece
    means the translator is wrong (broken check, exit 2); on a piece that fell back to the hand model it is an ordinary
    correspondence failure."""
    import ast
    try:
        tree = ast.parse(open(os.path.join(common.repo_path(), 'AegeanTools', 'BANE.py')).read())
        fn = [x for x in ast.walk(tree) if isinstance(x, ast.FunctionDef) and x.name == 'sigma_filter'][0]
        boxdef = [x for x in fn.body if isinstance(x, ast.FunctionDef) and x.name == 'box'][0]
        assigns = {}
        for st in fn.body:
            if isinstance(st, ast.Assign) and len(st.targets) == 1 and isinstance(st.targets[0], ast.Name) \
                    and st.targets[0].id in ('data_row_min', 'data_row_max') and st.targets[0].id not in assigns:
                assigns[st.targets[0].id] = st
        code_box = compile(ast.fix_missing_locations(ast.Module([boxdef], [])), 'box', 'exec')
        code_rows = compile(ast.fix_missing_locations(ast.Module([assigns['data_row_min'], assigns['data_row_max']], [])), 'rows', 'exec')
    except Exception as e:
        ctx.note(f"gen_cases: box()/data_row_* not found in sigma_filter in the expected shape ({type(e).__name__}); skipped")
        return
    rng = ctx.rng
    args = []
    for _ in range(n):
        dn, nc = rng.randint(0, 40), rng.randint(0, 40)
        bY, bX = rng.randint(0, 30), rng.randint(0, 30)
        r, c = rng.randint(0, dn + 3), rng.randint(0, nc + 3)
        nr = rng.randint(0, 60)
        ymin = rng.randint(0, nr)
        ymax = rng.randint(ymin, nr)
        args.append((r, c, bY, bX, dn, nc, ymin, ymax, nr))
    outs = ctx.driver.batch(["genbox " + " ".join(map(str, a)) for a in args])
    status = ctx.extra.get('translator', {})
    for a, o in zip(args, outs):
        r, c, bY, bX, dn, nc, ymin, ymax, nr = a
        ns = dict(box_size=(bY, bX), data=np.empty((dn, nc)))
        exec(code_box, ns)
        want = [int(v) for v in ns['box'](r, c)]
        ns2 = dict(box_size=(bY, bX), shape=(nr, nc), ymin=ymin, ymax=ymax)
        exec(code_rows, ns2)
        want += [int(ns2['data_row_min']), int(ns2['data_row_max'])]
        got = [int(t) for t in o.split()]
        ctx.count('gen-arith-case')
        ctx.case(dict(op='genbox', args=list(a)), nontrivial_key=('genbox',) + a if (r > bY // 2 or c > bX // 2) else None,
                 sample_every=500)
        if got != want:
            names = ['boxRMin', 'boxRMax', 'boxCMin', 'boxCMax', 'dataRowMin', 'dataRowMax']
            bad = [nm for nm, g, w in zip(names, got, want) if g != w]
            if all(status.get(nm, 'translated') == 'translated' for nm in bad):
                raise common.LeanError(f"translator self-validation: Gen.C06 {bad} = {got} but the Python source gives {want} for "
                                       f"(r, c, bY, bX, dn, nc, ymin, ymax, nr) = {a}")
            ctx.fail('corr', dict(op='genbox', args=list(a)),
                     f"hand fallback of {bad} gives {got}, the source's box()/data_row_* give {want}", dict(what='box-arithmetic'))
            return


# ---------- histories: one long-lived process, one file name rewritten between calls --------------------------

def history_steps(ctx):
    """two histories (through filter_image and through CLI.BANE.main), each on ONE reused input name and ONE reused
    output base: plain 2-D -> BSCALE=0.5 constant -> BSCALE=-4 -> 3-D without BSCALE -> 2-D BSCALE=2 other shape ->
    4-D BSCALE=1 -> plain 2-D again; shapes, stripes and output paths change along the way"""
    g = np_rng(ctx)
    rng = ctx.rng
    plan = [
        dict(shape=(16, 12), variant='2d', bscale=1.0, key=False, const=False),
        dict(shape=(16, 12), variant='2d', bscale=0.5, key=False, const=True),
        dict(shape=(16, 12), variant='2d', bscale=-4.0, key=False, const=False),
        dict(shape=(20, 10), variant='3d', bscale=1.0, key=False, const=False),
        dict(shape=(12, 18), variant='2d', bscale=2.0, key=False, const=False),
        dict(shape=(12, 18), variant='4d', bscale=1.0, key=True, const=False),
        dict(shape=(14, 14), variant='2d', bscale=1.0, key=False, const=False),
        dict(shape=(14, 14), variant='2d', bscale=rng.choice([4.0, 0.25, -2.0]), key=False, const=False),
    ]
    out = []
    for api in ('filter_image', 'cli'):
        steps = []
        for k, st in enumerate(plan):
            R, C = st['shape']
            img = np.full((R, C), rng.choice([6.0, -3.5, 100.0])) if st['const'] else \
                lattice_noise(g, R, C) + rng.choice([0.0, 100.0, -37.5])
            kw = dict(n3=2, cube_index=1) if st['variant'] != '2d' else {}
            via = 'cli' if api == 'cli' else ('mem', 'files', 'compressed', 'memcomp')[(k + rng.randrange(4)) % 4]
            steps.append(dict(img=img, grid=(4, 4), box=(8, 6), nslice=1 + (k + (api == 'cli')) % 2, variant=st['variant'],
                              dtype=('f4', 'f8')[k % 2], via=via, bscale=st['bscale'], bscale_key=st['key'], kw=kw))
        out.append((api, steps))
    return out


def run_history(ctx, api, steps, with_model=True):
    """run `steps` in ONE child process on one reused file name, and each step's content again on a fresh name in
    fresh processes; the history run must be bit-identical to the fresh run and obey the Spec by itself"""
    tagname = 'work.fits' if api != 'cli' else 'work_cli.fits'
    oname = 'work_out' if api != 'cli' else 'work_cli_out'
    hist, fresh = [], []
    for k, st in enumerate(steps):
        common_kw = dict(nslice=st['nslice'], mask=True, variant=st['variant'], dtype=st['dtype'], via=st['via'],
                         bscale=st['bscale'], bscale_key=st['bscale_key'], **st['kw'])
        hist.append(mkjob(ctx, st['img'], st['grid'], st['box'], tag=f"history[{api}] step {k}", fname=tagname, oname=oname,
                          **common_kw))
        fresh.append(mkjob(ctx, st['img'], st['grid'], st['box'], tag=f"fresh twin of history[{api}] step {k}", **common_kw))
    rh = run_jobs(ctx, hist)                       # one chunk = one process, in order
    # the twins: fresh file names, a different process from the history (in thorough: one fresh process each)
    rf = {}
    if ctx.quick:
        rf = run_jobs(ctx, fresh)
    else:
        for f in fresh:
            rf.update(run_jobs(ctx, [f]))
    site = 'AegeanTools/BANE.py:filter_image' if api != 'cli' else 'AegeanTools/CLI/BANE.py:main'
    okjobs = []
    for k, (h, f) in enumerate(zip(hist, fresh)):
        r1, r2 = rh.get(h['id']), rf.get(f['id'])
        ctx.count('history-step')
        ctx.case(dict(op='history', api=api, step=k, variant=h['variant'], bscale=h['bscale'], via=h['via'],
                      shape=list(h['_img'].shape)), nontrivial_key=('history', api, k, ctx.seed))
        if not r1 or not r2 or 'hang' in (r1.get('status'), r2.get('status')):
            continue
        hcase = dict(op='history', api=api, failing_step=k,
                     steps=[raw_case_of(j) for j in hist[:k + 1]])
        h['_history'] = hcase
        good = spec_single(ctx, h, r1)
        spec_single(ctx, f, r2)
        if r1.get('status') == 'ok':
            okjobs.append(h)
        if r1.get('status') != r2.get('status'):
            ctx.fail('spec', hcase, f"step {k} of a history on one reused file name ends with status {r1.get('status')} "
                     f"({r1.get('error', '')}) but the same content on a fresh name in a fresh process with {r2.get('status')}",
                     dict(what='history-dependence', site=site))
            continue
        for w in ('bkg', 'rms', 'file_bkg', 'file_rms'):
            if (w in r1) != (w in r2) or (w in r1 and not np.array_equal(r1[w], r2[w], equal_nan=True)):
                a, b = r1.get(w), r2.get(w)
                det = ''
                if a is not None and b is not None and a.shape == b.shape:
                    idx = tuple(int(i) for i in np.argwhere(~((a == b) | (np.isnan(a) & np.isnan(b))))[0])
                    det = f": at {idx} {a[idx]!r} (history) vs {b[idx]!r} (fresh)"
                prev = hist[k - 1] if k else None
                ctx.fail('spec', hcase, f"{w} of step {k} ({h['variant']}, BSCALE {h['bscale'] if (h['bscale'] != 1.0 or h['bscale_key']) else 'absent'}, "
                         f"shape {h['_img'].shape}) depends on the earlier calls in the same process"
                         + (f" (previous content: {prev['variant']}, BSCALE {prev['bscale']}, shape {prev['_img'].shape})" if prev else '')
                         + det, dict(what='history-dependence', site=site))
                break
    if with_model:
        correspond(ctx, okjobs, rh, [{}] * len(okjobs))


# ---------- top level ------------------------------------------------------------------------------------

def evaluate(ctx, jobs, feats, with_model=True, meta_fraction=0.0):
    results = run_jobs(ctx, jobs)
    okjobs = []
    for job, feat in zip(jobs, feats):
        res = results.get(job['id'])
        if res is None:
            ctx.count('no-result')
            continue
        good = spec_single(ctx, job, res)
        ctx.count('variant-' + job['variant'])
        ctx.count('via-' + job['via'])
        ctx.count('dtype-' + job['dtype'] + ('+bscale' if (job['bscale'] != 1.0 or job.get('bscale_key')) else ''))
        ctx.count('options:' + ('3d4d' if job['variant'] != '2d' else '2d') + '/bscale-' +
                  ('other' if job['bscale'] != 1.0 else 'one' if job.get('bscale_key') else 'absent') + '/' + job['via'])
        ctx.count(f"stripes-{len(job.get('_stripes', job['predicted']))}")
        if feat.get('blanks'):
            ctx.count('with-blanks')
        ctx.case(dict(shape=list(job['_img'].shape), grid=job['grid'], box=job['box'], nslice=job['nslice'], cores=job['cores'],
                      stripes=[list(s) for s in job.get('_stripes', job['predicted'])], mask=job['mask'], variant=job['variant'],
                      via=job['via'], features={k: v for k, v in feat.items()}, tag=job['tag']),
                 nontrivial_key=nontrivial_key(job, feat), sample_every=37)
        if res.get('status') == 'ok':
            okjobs.append(job)
    if with_model:
        correspond(ctx, okjobs, results, feats)
    if meta_fraction > 0:
        base = [j for j in okjobs if j['via'] != 'cli' and ctx.rng.random() < meta_fraction]
        metamorphic(ctx, base, results)
    return results


def random_jobs(ctx, n, stripes_bias=False):
    rng = ctx.rng
    jobs, feats = [], []
    for _ in range(n):
        R, C, grid, box, nslice = gen_config(ctx, small=(rng.random() < 0.1))
        if stripes_bias and nslice == 1:
            nslice = rng.choice([2, 3])
            if len(predict_layout(R, nslice, grid[1])) > 5:
                nslice = 1
        img, feat = gen_image(ctx, R, C)
        # independent choices (a product, not a list): dimensionality x BSCALE {absent, 1, != 1} x output path
        variant = rng.choice(['2d', '2d', '3d', '4d'])
        via = rng.choice(['mem', 'mem', 'memcomp', 'files', 'files', 'compressed', 'compressed', 'cli'])
        kw = {}
        if variant in ('3d', '4d'):
            kw['n3'] = rng.randint(1, 3)
            kw['cube_index'] = rng.randrange(kw['n3'])
        bmode = rng.choice(['absent', 'absent', 'one', 'other', 'other'])
        if bmode == 'one':
            kw['bscale_key'] = True
        elif bmode == 'other':
            kw['bscale'] = rng.choice([2.0, 0.5, 4.0])
        if via in ('compressed', 'memcomp'):
            g0 = min(grid)
            grid = (g0, g0)
            box = (max(box[0], 4, g0), max(box[1], 4, g0))
        if via == 'cli':
            grid = (grid[0], grid[0])
            box = (max(box[0], grid[0]), max(box[1], grid[0]))
        dtype = rng.choice(['f4', 'f4', 'f8', 'i2', 'i4', 'u1'])
        if dtype in INT_DTYPES and bmode == 'other' and rng.random() < 0.5:
            kw['bscale'] = rng.choice([2.5, 0.1, -3.0])     # integer raw data x BSCALE is computed in float64: any factor is exact enough
        jobs.append(mkjob(ctx, img, grid, box, nslice=nslice, mask=(rng.random() < 0.8), variant=variant, dtype=dtype,
                          via=via, **kw))
        feats.append(feat)
    return jobs, feats


def run(ctx):
    common.use_repo()
    t0 = time.time()
    cj, cf = corpus_jobs(ctx)
    evaluate(ctx, cj, cf, with_model=True, meta_fraction=1.0)
    mj, mf = option_matrix(ctx)
    evaluate(ctx, mj, mf, with_model=True, meta_fraction=1.0)
    for api, steps in history_steps(ctx):
        run_history(ctx, api, steps)
    clip_cases(ctx, 150 if ctx.quick else 1500)
    gen_cases(ctx, 300 if ctx.quick else 3000)
    start_method_cases(ctx)
    n = 70 if ctx.quick else 600
    done = 0
    while done < n:
        k = min(120, n - done)
        jobs, feats = random_jobs(ctx, k)
        evaluate(ctx, jobs, feats, with_model=True, meta_fraction=0.45)
        done += k
    statistics(ctx, 4 if ctx.quick else 24)
    ctx.extra['corr_wall_s'] = round(time.time() - t0, 1)


def search(ctx):
    """implementation vs Spec only (no model): multi-stripe, offsets, thin images; stops at the first failures"""
    common.use_repo()
    if any(f['kind'] == 'spec' for f in ctx.failures):
        return
    for rnd in range(6 if ctx.quick else 30):
        jobs, feats = random_jobs(ctx, 40, stripes_bias=True)
        for j in jobs[:6]:
            R, C = ctx.rng.choice([(1, 24), (24, 1), (2, 9), (9, 2)])
            j2 = mkjob(ctx, lattice_noise(np_rng(ctx), R, C) + ctx.rng.choice([0.0, 1000.0]), (2, 2), (6, 6))
            jobs.append(j2); feats.append({})
        evaluate(ctx, jobs, feats, with_model=False, meta_fraction=0.6)
        if any(f['kind'] == 'spec' for f in ctx.failures):
            break


def replay(ctx, rec):
    common.use_repo()
    c = rec['case']
    if c.get('op') == 'genbox':
        gen_cases(ctx, 50)
        return
    if c.get('op') == 'history':
        steps = []
        for sc in c['steps']:
            kw = dict(n3=sc.get('n3', 3), cube_index=sc['cube_index'])
            steps.append(dict(img=img_from_case(sc), grid=sc['grid'], box=sc['box'], nslice=sc['nslice'], variant=sc['variant'],
                              dtype=sc['dtype'], via=sc['via'], bscale=sc['bscale'], bscale_key=sc.get('bscale_key', False), kw=kw))
        run_history(ctx, c['api'], steps, with_model=ctx.driver_ok)
        return
    if c.get('op') == 'sigmaclip':
        from AegeanTools import BANE
        import warnings
        a = np.array([float(v) for v in c['arr']], dtype=np.float64)
        ctx.case(dict(op='sigmaclip', n=len(a)))
        with warnings.catch_warnings():
            warnings.simplefilter('ignore')
            m0, s0 = BANE.sigmaclip(a, 3, 3)
            if 'par' in c:
                k = c['par']
                mk, sk = BANE.sigmaclip(a * k, 3, 3)
                if not (mk == m0 * k and sk == s0 * abs(k)):
                    ctx.fail('spec', c, f"sigmaclip(k*x) = {(mk, sk)} but k*mean, |k|*std of sigmaclip(x) = {(m0 * k, s0 * abs(k))}, k = {k}",
                             dict(what='sigmaclip-scale-law'))
                return
        o = ctx.driver.batch(["clip 10 " + " ".join(common.f2h(v) if math.isfinite(v) else 'n' for v in a.tolist())])[0]
        if o != 'none':
            mm, ms = [common.h2f(t) for t in o.split()]
            sc = max([abs(v) for v in a.tolist() if math.isfinite(v)] + [1e-300])
            if not (rel_close(m0, mm, 1e-12, 1e-12 * sc) and rel_close(s0, ms, 1e-9, 1e-12 * sc)):
                ctx.fail('corr', c, f"implementation {(m0, s0)} vs model {(mm, ms)}", dict(what='sigmaclip'))
        return
    job = job_from_case(ctx, c)
    if c.get('start_method'):
        res = run_jobs(ctx, [job], job_timeout=90.0)
        twin = job_from_case(ctx, dict(c, start_method=None))
        rt = run_jobs(ctx, [twin])
        r1, r2 = res.get(job['id']), rt.get(twin['id'])
        ctx.case(dict(op='start-method', method=c['start_method']))
        if r1 and r2:
            spec_single(ctx, job, r1)
            for w in ('bkg', 'rms', 'file_bkg', 'file_rms'):
                if (w in r1) != (w in r2) or (w in r1 and not np.array_equal(r1[w], r2[w], equal_nan=True)):
                    ctx.fail('spec', c, f"{w} depends on the multiprocessing start method chosen by the caller ({c['start_method']})",
                             dict(what='start-method-dependence', method=c['start_method'], site='AegeanTools/BANE.py:filter_mc_sharemem'))
                    break
        return
    results = evaluate(ctx, [job], [{}], with_model=ctx.driver_ok, meta_fraction=0.0)
    if c.get('relation'):
        # re-run exactly the recorded relation
        img = job['_img']
        par = c['par']
        im2 = img + par if c['relation'] == 'shift' else img * par
        j2 = job_from_case(ctx, dict(c, via=(c['via'] if c['via'] != 'cli' else 'mem')), img=im2)
        r2 = run_jobs(ctx, [j2]).get(j2['id'])
        r1 = results.get(job['id'])
        if r1 and r2 and r1.get('status') == 'ok' and r2.get('status') == 'ok':
            b1, q1 = maps_of(job, r1)
            b2, q2 = maps_of(j2, r2)
            wb, wr = (b1 + par, q1) if c['relation'] == 'shift' else (b1 * par, q1 * abs(par))
            if c['relation'] == 'shift':
                tol = dict()
                scale = max(scale_of(img), scale_of(im2))
            else:
                tol = dict(rel=1.2e-7, absrel=0.0) if is_pow2(par) else dict()
                scale = scale_of(im2)
            okb, _, db = f32_close(b2, wb, scale, **tol)
            okr, _, dr = f32_close(q2, wr, scale, **tol)
            if not (okb and okr):
                ctx.fail('spec', c, f"{c['relation']} by {par}: " + (('bkg: ' + db) if not okb else ('noise: ' + dr)),
                         sig(c['relation'] + '-law', job, relation=c['relation']))


if __name__ == '__main__':
    if len(sys.argv) == 3 and sys.argv[1] == '--worker':
        worker_main(sys.argv[2])
