"""
C04 — correspondence + search for the analytic Jacobian and the 1-sigma errors of `fitting.py`.

run(ctx):
  0. corpus (minimised past failures: theta at sx != sy, two-component stderr)
  1. translator validation: `Gen.C04.gauss/dmd*` evaluated at Float by the driver against
     `fitting.elliptical_gaussian` and single-component `fitting.jacobian` on random arguments
     (a mismatch is a broken check, not a property violation)
  2. correspondence, 1-4 components, vary masks drawn from all 2^6 per component, amp != 1,
     sx != sy, theta != 0, masked grids:
       fitting.jacobian            vs  Model.jacRows   (row count, row order, every entry)
       ntwodgaussian_lmfit          vs  Model.modelSum
       fitting.lmfit_jacobian       vs  Model.lmfitJac  (errs none/scalar/vector, with/without B)
       stderrs of covar_errors      vs  Model.assignIdx (which onesigma entry each parameter got)
                                    and vs Spec.ownDiagonal on the observed assignment ('spec')
                                    and value-level: sqrt(diag(inv(F))) with F built from the model
  3. index sweep of the stderr loop: every vary mask of one component, a systematic sample of
     pairs, sampled triples/quadruples, through the real `covar_errors`.

search(ctx): (a proof obligation or the correspondence broke) implementation vs the property:
  the hand formulas proved correct in Lean (`Proofs/C04Hand.lean`) evaluated at Float by the
  driver (`tleaf`, `tjac`), with Richardson finite differences of `fitting.elliptical_gaussian`
  as a second opinion, against `fitting.jacobian`; reports (params, pixel, entry), shrunk.
"""
import glob
import json
import math
import os

# small matrices only: threaded BLAS/LAPACK costs 0.2 s per 12x12 inverse in this sandbox
for _k in ('OPENBLAS_NUM_THREADS', 'OMP_NUM_THREADS', 'MKL_NUM_THREADS'):
    os.environ.setdefault(_k, '1')

import numpy as np  # noqa: E402

import common  # noqa: E402
from common import f2h, h2f  # noqa: E402

LEVEL = 'proof'
LEANCHECKER = True
RULE = ("a case is (components, vary masks, pixel grid with masked pixels, errs/B/C variant) pushed through the real "
        "fitting.jacobian / lmfit_jacobian / ntwodgaussian_lmfit / covar_errors and through the Lean model; "
        "non-trivial = at least one free parameter and, for every component, amp != 1, sx != sy, theta != 0 "
        "(so no derivative or scale factor vanishes); distinct by (kind, vary masks, variant, insertion order of the "
        "lmfit.Parameters entries: canonical, by quantity, reversed, delete+re-add, components first); plus a debug "
        "slice: corpus and a sample of plain/B/C cases re-run with the root and 'Aegean' loggers at DEBUG must be "
        "bit-identical")
ASSUMPTIONS = [
    "theorems are about exact real arithmetic (R instance at ℝ); the code runs IEEE doubles: entries are compared "
    "with relative tolerance 1e-10 (+1e-13 of the row scale), matrix products with 1e-11 of sum|a||b|",
    "onesigma = sqrt(diag(inv(F))) is numpy's inverse (a definition, not a theorem); the value-level stderr check "
    "is made only when cond(F) < 1e9, with tolerance 1e-13*cond(F)+1e-9 relative",
    "fitting.Bmatrix is assumed to return B with B·Bᵀ = C⁻¹ (hypothesis of whitening_consistent; sampled: "
    "max|B·Bᵀ·C − I| is recorded in the evidence)",
    "the row order, the sum model, lmfit_jacobian's munging and the stderr loop are hand models tied to the code "
    "only by this sampled correspondence; the seven arithmetic leaves are regenerated from source on every run",
    "the Fisher-matrix theorems (covar_is_fisher, covar_psd_pd, circular_component_singular) are about the exact "
    "real-number matrix; where it is singular (sx = sy with theta free) the property is silent and the observed "
    "behaviour of covar_errors is recorded under degenerate_probes, not judged",
    "fitting.hessian is outside the statement (not handed to the optimiser); it is observed, not judged "
    "(hessian_observation)",
]
TRUSTED = ["Gen.C04.gauss/dmds/dmdxo/dmdyo/dmdsx/dmdsy/dmdtheta regenerated from fitting.elliptical_gaussian and "
           "fitting.jacobian by py2lean.py (real mode, + np.pi extension in translator/targets/C04.py)",
           "Gen.C04.lmjOp/lmjLen/lmjSrc: the step pipeline of fitting.lmfit_jacobian, sliced by translator/targets/C04.py "
           "(_lmj_steps) and run by the fixed glue Model.runOps (driver op lmjac executes exactly this)",
           "Mathlib: HasDerivAt calculus for exp/sin/cos, field_simp, ring; Matrix.transpose_mul"]
PARTIAL = []

PARS = ['amp', 'xo', 'yo', 'sx', 'sy', 'theta']


# ------------------------------------------------------------------ helpers -----------------

def fit():
    from AegeanTools import fitting
    return fitting


_PCACHE = {}


ORDERS = ['canonical', 'by_quantity', 'reversed', 'readd', 'components_first']


def insertion_names(n, order):
    """the order in which the c<i>_<name> entries (and 'components') are inserted into the lmfit.Parameters
       object.  The DOCUMENTED order of the Jacobian rows / of onesigma does not depend on it: it is
       component-major, amp, xo, yo, sx, sy, theta (Model.freeList)."""
    canon = [f'c{i}_{name}' for i in range(n) for name in PARS]
    if order == 'by_quantity':
        return [f'c{i}_{name}' for name in PARS for i in range(n)] + ['components']
    if order == 'reversed':
        return ['components'] + canon[::-1]
    if order == 'components_first':
        return ['components'] + canon
    return canon + ['components']         # canonical, and the starting point of 'readd'


def mk_params(comps, masks, order='canonical'):
    """lmfit.Parameters for the given components (list of 6-tuples) and vary masks (ints 0..63), the entries
       inserted in the given order ('readd': canonical, then c0_xo and the last component's amp are deleted and
       added again, which moves them to the end of the object)"""
    import lmfit
    n = len(comps)
    p = _PCACHE.get((n, order))
    if p is None:
        p = lmfit.Parameters()
        for name in insertion_names(n, order):
            if name == 'components':
                p.add('components', n, vary=False)
            else:
                p.add(name, 1.0, vary=True)
        if order == 'readd':
            for name in ('c0_xo', f'c{n - 1}_amp'):
                del p[name]
                p.add(name, 1.0, vary=True)
        _PCACHE[(n, order)] = p
    for i, (c, m) in enumerate(zip(comps, masks)):
        for k, name in enumerate(PARS):
            q = p[f'c{i}_{name}']
            q.value = float(c[k])
            q.vary = bool((m >> k) & 1)
            q.stderr = None
    return p


def enc_comps(comps, masks=None):
    out = []
    for i, c in enumerate(comps):
        out += [f2h(v) for v in c]
        if masks is not None:
            out.append(str(masks[i]))
    return out


def enc_pix(x, y):
    out = []
    for a, b in zip(x, y):
        out += [f2h(a), f2h(b)]
    return out


def floats(line, skip=0):
    w = line.split()
    return [int(t) for t in w[:skip]], np.array([h2f(t) for t in w[skip:]], dtype=float)


def agree(a, b, scale, rel=1e-10, floor=1e-13):
    """elementwise comparison of two float arrays; returns index of the worst disagreement or None"""
    a = np.asarray(a, dtype=float).ravel()
    b = np.asarray(b, dtype=float).ravel()
    if a.shape != b.shape:
        return 0
    with np.errstate(invalid='ignore'):
        bothnan = np.isnan(a) & np.isnan(b)
        tol = rel * np.maximum(np.abs(a), np.abs(b)) + floor * scale
        bad = ~(np.abs(a - b) <= tol) & ~bothnan & ~(a == b)
    if not bad.any():
        return None
    d = np.where(bad, np.abs(np.nan_to_num(a - b, nan=np.inf)), 0)
    return int(np.argmax(d))


def rand_comp(rng, nx, ny, k=0, ncomp=1):
    """a component with amp != 1, sx != sy, theta != 0, centred inside the grid"""
    amp = rng.choice([-1, 1]) * rng.uniform(0.3, 25.0) if rng.random() < 0.3 else rng.uniform(1.5, 25.0)
    if abs(amp - 1) < 0.05:
        amp += 0.37
    # spread the components over the grid so that the Fisher matrix is well conditioned
    cx = (k + 0.5) * nx / ncomp + rng.uniform(-0.4, 0.4)
    cy = rng.uniform(0.25, 0.75) * (ny - 1)
    sx = rng.uniform(0.9, 2.6)
    sy = rng.uniform(0.6, 2.2)
    if abs(sx - sy) < 0.25:
        sx = sy + 0.4
    theta = rng.choice([-1, 1]) * rng.uniform(5.0, 175.0)
    if rng.random() < 0.1:
        theta += rng.choice([-360.0, 360.0])
    # a negative width is the same Gaussian as |width| and a valid model (only sx != sy is required); the
    # derivative with respect to it changes sign
    if rng.random() < 0.15:
        sx = -sx
    if rng.random() < 0.15:
        sy = -sy
    return (amp, cx, cy, sx, sy, theta)


def rand_grid(rng, nx, ny, frac_masked):
    """integer pixel coordinates of the unmasked pixels of an nx x ny image, as covar_errors sees them"""
    data = np.ones((nx, ny))
    for _ in range(int(frac_masked * nx * ny)):
        # blanked pixels: NaN, but also +/-inf (do_lmfit and covar_errors keep the FINITE pixels)
        data[rng.randrange(nx), rng.randrange(ny)] = rng.choice([np.nan, np.nan, np.inf, -np.inf])
    mx, my = np.where(np.isfinite(data))
    return data, mx, my


def rand_mask(rng, k):
    """vary mask: mostly random over all 64, with the interesting ones over-represented"""
    r = rng.random()
    if r < 0.15:
        return 63
    if r < 0.25:
        return rng.choice([1, 6, 7, 24, 32, 56, 31, 62])
    return rng.randrange(64)


def nontrivial(comps, masks):
    return any(masks) and all(abs(c[0] - 1) > 1e-9 and abs(c[3] - c[4]) > 1e-9 and abs(c[5]) > 1e-9 for c in comps)


def case_dict(kind, comps, masks, **kw):
    d = dict(kind=kind, comps=[list(map(float, c)) for c in comps], masks=list(masks))
    d.update(kw)
    return d


# ------------------------------------------------------------------ 1. translator -----------

def validate_translator(ctx, n):
    """Gen.C04 at Float vs the Python functions it was generated from"""
    fitting = fit()
    rng = ctx.rng
    args, lines = [], []
    for _ in range(n):
        c = rand_comp(rng, 10, 10)
        x, y = rng.uniform(-2, 12), rng.uniform(-2, 12)
        if rng.random() < 0.5:
            x, y = float(round(x)), float(round(y))
        args.append((x, y, c))
        lines.append("leaf " + " ".join([f2h(x), f2h(y)] + enc_comps([c])))
    # amp == 0 (outside C04's range, amp != 0, so never judged against the property): only the tie between the
    # regenerated definitions and the code — both give NaN for model/amp, or both take the `amp == 0` special case
    # … and only when the translator could read how the source treats amp == 0 (flag regenerated, and the special
    # branch regenerated when there is one): an unreadable spelling of the special case must never alarm
    st = ctx.extra.get('translator') or {}
    flag_read = st.get('dmdsZero') == 'translated' and st.get('dmds') == 'translated' and (
        ctx.driver.batch(['ampzero'])[0].strip() == '0' or st.get('dmds0') == 'translated')
    ctx.extra['amp_zero_points_in_translator_validation'] = bool(flag_read)
    for _ in range(4 if flag_read else 0):
        c = (0.0,) + rand_comp(rng, 10, 10)[1:]
        x, y = float(rng.randint(0, 9)), float(rng.randint(0, 9))
        args.append((x, y, c))
        lines.append("leaf " + " ".join([f2h(x), f2h(y)] + enc_comps([c])))
    outs = ctx.driver.batch(lines)
    worst = 0.0
    for (x, y, c), o in zip(args, outs):
        _, got = floats(o)
        if len(got) != 7:
            raise common.LeanError(f"translator validation: driver answered {o!r}")
        p = mk_params([c], [63])
        with np.errstate(all='ignore'):
            want = [float(fitting.elliptical_gaussian(x, y, *c))] + \
                [float(v) for v in fitting.jacobian(p, np.array([x]), np.array([y]))[:, 0]]
        scale = max(abs(c[0]), 1.0)
        k = agree(got, want, scale)
        ctx.count('translator-validation')
        names7 = ['gauss', 'dmds', 'dmdxo', 'dmdyo', 'dmdsx', 'dmdsy', 'dmdtheta']
        status = (ctx.extra.get('translator') or {})
        if k is not None and status.get(names7[k], 'translated') != 'translated':
            # this definition is the hand fallback (UNTRANSLATABLE source): a difference is a difference between
            # the code and the model, to be explained by the search, not a translator bug
            ctx.fail('corr', dict(kind='leaf', x=x, y=y, comp=list(c), entry=(PARS[k - 1] if k else 'model')),
                     f"{names7[k]} (hand fallback, source untranslatable) = {float(got[k])!r} but the Python gives "
                     f"{float(want[k])!r}", dict(site='fitting.jacobian', what='fallback-entry', entry=names7[k]))
            continue
        if k is not None:
            raise common.LeanError(
                "translator self-validation failed: Gen.C04." +
                ['gauss', 'dmds', 'dmdxo', 'dmdyo', 'dmdsx', 'dmdsy', 'dmdtheta'][k] +
                f" at Float = {got[k]!r} but the Python gives {want[k]!r} for x={x!r} y={y!r} comp={c!r}")
        with np.errstate(all='ignore'):
            worst = max(worst, float(np.nanmax(np.nan_to_num(np.abs(got - np.array(want)) / (np.abs(want) + 1e-13 * scale)))))
    ctx.extra['translator_validation'] = dict(points=n, worst_relative_difference=worst)


# ------------------------------------------------------------------ 2. correspondence -------

class Model:
    """one multi-component case and everything the implementation says about it"""

    def __init__(self, comps, masks, data, errs_kind, b_kind, use_c, errs_val=None, beam=None, order='canonical'):
        self.comps, self.masks, self.data = comps, masks, data
        self.order = order
        self.mx, self.my = np.where(np.isfinite(data))
        self.npix = len(self.mx)
        self.errs_kind, self.b_kind, self.use_c = errs_kind, b_kind, use_c
        self.errs_val, self.beam = errs_val, beam
        self.B = self.C = None
        if b_kind != 'bnone':
            fitting = fit()
            self.C = fitting.Cmatrix(self.mx, self.my, *beam)
            self.B = fitting.Bmatrix(self.C)

    def errs(self):
        if self.errs_kind == 'enone':
            return None
        if self.errs_kind == 'escalar':
            return float(self.errs_val)
        return np.asarray(self.errs_val, dtype=float)

    def errs_tokens(self):
        if self.errs_kind == 'enone':
            return ['enone']
        if self.errs_kind == 'escalar':
            return ['escalar', f2h(self.errs_val)]
        return ['evec'] + [f2h(v) for v in self.errs_val]

    def b_tokens(self):
        if self.B is None:
            return ['bnone']
        return ['bmat'] + [f2h(v) for v in np.asarray(self.B, dtype=float).ravel()]

    def variant(self):
        return f"{self.errs_kind}/{self.b_kind}/{'C' if self.use_c else 'noC'}"

    def params(self):
        return mk_params(self.comps, self.masks, self.order)

    def case(self, kind, **kw):
        d = case_dict(kind, self.comps, self.masks, shape=list(self.data.shape),
                      masked=[[int(a), int(b), BLANK_NAME(self.data[a, b])] for a, b in zip(*np.where(~np.isfinite(self.data)))],
                      errs_kind=self.errs_kind, b_kind=self.b_kind, use_c=self.use_c,
                      errs_val=(None if self.errs_val is None else
                                (float(self.errs_val) if self.errs_kind == 'escalar' else list(map(float, self.errs_val)))),
                      beam=(None if self.beam is None else list(map(float, self.beam))), order=self.order)
        d.update(kw)
        return d


def BLANK_NAME(v):
    return 'nan' if v != v else ('inf' if v > 0 else '-inf')


def model_from_case(c):
    data = np.ones(tuple(c['shape']))
    for ent in c.get('masked', []):
        data[ent[0], ent[1]] = {'inf': np.inf, '-inf': -np.inf}.get(ent[2] if len(ent) > 2 else 'nan', np.nan)
    ev = c.get('errs_val')
    return Model([tuple(x) for x in c['comps']], list(c['masks']), data, c.get('errs_kind', 'enone'),
                 c.get('b_kind', 'bnone'), c.get('use_c', False), ev, c.get('beam'), c.get('order', 'canonical'))


def rand_model(ctx, ncomp, big=False):
    rng = ctx.rng
    nx = rng.randint(max(5, 3 * ncomp), 6 + 3 * ncomp)
    ny = rng.randint(5, 9)
    if big:
        nx, ny = nx + 3, ny + 2
    data, mx, my = rand_grid(rng, nx, ny, rng.choice([0.0, 0.05, 0.15]))
    comps = [rand_comp(rng, nx, ny, k, ncomp) for k in range(ncomp)]
    if ncomp >= 2 and rng.random() < 0.35:
        # round 9: consecutive components SHARE parameter values (the beam's position angle and shape in a crowded
        # island, fixed-shape priorized fits) while their centres differ: anything carried over from the previous
        # component "because the value did not change" must still be evaluated about the component's own centre
        for k in range(1, ncomp):
            share = rng.choice([(5,), (3, 4, 5), (3, 4), (0, 5), (0, 3, 4, 5)])
            c = list(comps[k])
            for j in share:
                c[j] = comps[k - 1][j]
            comps[k] = tuple(c)
    masks = [rand_mask(rng, k) for k in range(ncomp)]
    ek = rng.choice(['enone', 'escalar', 'escalar', 'evec'])
    ev = None
    if ek == 'escalar':
        ev = rng.uniform(0.05, 3.0)
    elif ek == 'evec':
        ev = [rng.uniform(0.2, 2.0) for _ in range(len(mx))]
    bk = rng.choice(['bnone', 'bmat'])
    beam = (rng.uniform(0.7, 1.4), rng.uniform(0.5, 1.1), rng.uniform(-80, 80)) if bk == 'bmat' else None
    use_c = bk == 'bmat' and rng.random() < 0.5
    order = 'canonical' if rng.random() < 0.4 else rng.choice(ORDERS[1:])
    return Model(comps, masks, data, ek, bk, use_c, ev, beam, order)


def observed_assignment(fitting, m, params):
    """run covar_errors; work out which onesigma entry every parameter's stderr is.
       returns (obs list of idx/None per key, onesigma, status)"""
    from scipy.linalg import inv
    p = params
    errs = m.errs()
    with np.errstate(all='ignore'):
        # the same computation covar_errors performs, on the implementation's own Jacobian
        try:
            if m.use_c and m.C is not None:
                J = fitting.lmfit_jacobian(p, m.mx, m.my, errs=errs)
                covar = np.transpose(J).dot(inv(m.C)).dot(J)
            else:
                J = fitting.lmfit_jacobian(p, m.mx, m.my, B=m.B, errs=errs)
                covar = np.transpose(J).dot(J)
            onesigma = np.sqrt(np.diag(inv(covar)))
        except (np.linalg.LinAlgError, ValueError):
            onesigma = None
        try:
            fitting.covar_errors(p, m.data, errs=errs, B=m.B, C=(m.C if m.use_c else None))
        except Exception as e:     # covar_errors must not raise on a valid fitted model
            m.raw_stderr = [None] * (6 * len(m.comps))
            return [None] * (6 * len(m.comps)), onesigma, f'raised {type(e).__name__}: {e}'
    obs = []
    status = 'ok'
    m.raw_stderr = [p[f'c{i}_{name}'].stderr for i in range(len(m.comps)) for name in PARS]
    for i in range(len(m.comps)):
        for name in PARS:
            s = p[f'c{i}_{name}'].stderr
            if s is None:
                obs.append(None)
                continue
            if onesigma is None or not np.all(np.isfinite(onesigma)) or s == -2:
                status = 'singular'
                obs.append(None)
                continue
            d = np.abs(onesigma - s) / np.maximum(np.abs(onesigma), 1e-300)
            j = int(np.argmin(d))
            others = np.delete(d, j)
            if d[j] > 1e-9 or (len(others) and others.min() < 1e-6):
                status = 'ambiguous'
                obs.append(None)
            else:
                obs.append(j)
    return obs, onesigma, status


def run_models(ctx, models, tag='random', truth=False):
    """correspondence for a batch of Model cases.  truth=True compares with the hand (verified) formulas,
       and every difference is a failure of the property itself ('spec')."""
    fitting = fit()
    pre = 't' if truth else ''
    kind_fail = 'spec' if truth else 'corr'
    lines, meta = [], []
    for m in models:
        p = mk_params(m.comps, m.masks, m.order)
        x, y = m.mx.astype(float), m.my.astype(float)
        rec = dict(m=m, start=len(lines))
        ct = enc_comps(m.comps, m.masks)
        px = enc_pix(x, y)
        n = len(m.comps)
        lines.append(f"{pre}jac {n} {m.npix} " + " ".join(ct + px))
        lines.append(f"{pre}lmjac {n} {m.npix} " + " ".join(ct + px + m.errs_tokens() + m.b_tokens()))
        k = ctx.rng.randrange(m.npix)
        rec['sum_at'] = (float(x[k]), float(y[k]))
        lines.append(f"{pre}sum {n} " + " ".join(enc_comps(m.comps) + [f2h(x[k]), f2h(y[k])]))
        lines.append("assign " + " ".join(map(str, m.masks)))
        # the C branch of covar_errors uses the Jacobian without B
        lines.append(f"{pre}lmjac {n} {m.npix} " + " ".join(ct + px + m.errs_tokens() + ['bnone']))
        try:
            with np.errstate(all='ignore'):
                np.asarray(fitting.jacobian(p, x, y), dtype=float)
                if any(m.masks):
                    fitting.lmfit_jacobian(p, x, y, errs=m.errs(), B=m.B)
                fitting.ntwodgaussian_lmfit(p)(x[k:k + 1], y[k:k + 1])
        except Exception as e:
            ctx.fail('spec', m.case('raises'), f"{type(e).__name__}: {e} raised on a valid model ({m.variant()})",
                     dict(site='fitting.jacobian', what='raises', error=type(e).__name__))
            del lines[rec['start']:]
            continue
        with np.errstate(all='ignore'):
            rec['jac'] = np.asarray(fitting.jacobian(p, x, y), dtype=float)
            nfree = sum(bin(v).count('1') for v in m.masks)
            if nfree:
                errs = m.errs()
                rec['lmjac'] = np.asarray(fitting.lmfit_jacobian(p, x, y, errs=errs, B=m.B), dtype=float)
            else:
                rec['lmjac'] = None
            rec['sum'] = float(fitting.ntwodgaussian_lmfit(p)(x[k:k + 1], y[k:k + 1])[0])
            rec['obs'], rec['onesigma'], rec['status'] = observed_assignment(fitting, m, p)
            rec['raw'] = list(m.raw_stderr)
        meta.append(rec)
    outs = ctx.driver.batch(lines)
    # the Spec on the observed assignments, second batch
    spec_lines = []
    for rec in meta:
        m = rec['m']
        obs = " ".join('-' if o is None else str(o) for o in rec['obs'])
        spec_lines.append(f"spec {len(m.comps)} " + " ".join(map(str, m.masks)) + " " + obs)
    spec_out = ctx.driver.batch(spec_lines)
    for rec, sp in zip(meta, spec_out):
        m = rec['m']
        s = rec['start']
        n = len(m.comps)
        amps = max(abs(c[0]) for c in m.comps)
        sig = dict(site='fitting.jacobian')
        # ---- jacobian ----
        hdr, mj = floats(outs[s], 1)
        nrows = hdr[0]
        ij = rec['jac']
        impl_rows = 0 if ij.size == 0 else ij.shape[0]
        if impl_rows != nrows:
            ctx.fail(kind_fail, m.case('jacobian'), f"fitting.jacobian has {impl_rows} rows, the model {nrows}",
                     dict(sig, what='row-count'))
        elif nrows:
            mj = mj.reshape(nrows, m.npix)
            for r in range(nrows):
                k = agree(ij[r], mj[r], amps)
                if k is not None:
                    key = free_keys(m.masks)[r]
                    ctx.fail(kind_fail, m.case('jacobian', row=r, pixel=[int(m.mx[k]), int(m.my[k])],
                                               entry=[key[0], PARS[key[1]]]),
                             f"fitting.jacobian row {r} (component {key[0]}, {PARS[key[1]]}) at pixel "
                             f"({int(m.mx[k])},{int(m.my[k])}) is {float(ij[r][k])!r}; "
                             f"{'the true derivative' if truth else 'the model'} is {float(mj[r][k])!r}",
                             dict(sig, what='entry', entry=PARS[key[1]]))
                    break
        # ---- sum model ----
        _, ms = floats(outs[s + 2])
        if agree([rec['sum']], ms, amps) is not None:
            ctx.fail(kind_fail, m.case('sum', at=list(rec['sum_at'])),
                     f"ntwodgaussian_lmfit gives {rec['sum']!r}, the model {ms[0]!r}",
                     dict(site='fitting.ntwodgaussian_lmfit', what='sum'))
        # ---- lmfit_jacobian ----
        if rec['lmjac'] is not None:
            hdr, ml = floats(outs[s + 1], 2)
            il = rec['lmjac']
            if list(il.shape) != hdr:
                ctx.fail(kind_fail, m.case('lmfit_jacobian'), f"lmfit_jacobian shape {il.shape}, the model {hdr}",
                         dict(site='fitting.lmfit_jacobian', what='shape'))
            else:
                ml = ml.reshape(hdr)
                # tolerance: accumulated-sum bound for the B product
                A = np.abs(rec['jac'].reshape(nrows, m.npix))
                e = m.errs()
                if e is not None:
                    A = A / np.abs(e)
                S = (A.dot(np.abs(m.B)) if m.B is not None else A).T
                with np.errstate(invalid='ignore'):
                    bad = ~(np.abs(il - ml) <= 1e-10 * np.maximum(np.abs(il), np.abs(ml)) + 1e-11 * S + 1e-13 * amps)
                    bad &= ~(np.isnan(il) & np.isnan(ml))
                if bad.any():
                    a, b = map(int, np.argwhere(bad)[0])
                    ctx.fail(kind_fail, m.case('lmfit_jacobian', at=[a, b]),
                             f"lmfit_jacobian[{a},{b}] = {float(il[a, b])!r}, "
                             f"{'from the true derivatives' if truth else 'the model'} {float(ml[a, b])!r} ({m.variant()})",
                             dict(site='fitting.lmfit_jacobian', what='entry', variant=m.variant()))
        # ---- stderr assignment ----
        want = [None if t == '-' else int(t) for t in outs[s + 3].split()]
        ctx.count('stderr-' + rec['status'].split(':')[0])
        if rec['status'].startswith('raised'):
            ctx.fail('spec', m.case('stderr'), f"covar_errors {rec['status']} on a valid model with vary masks {m.masks}",
                     dict(site='fitting.covar_errors', what='raises', error=rec['status'].split()[1].rstrip(':')))
        if rec['status'] == 'ok':
            if sp != 'ok':
                first = next((k for k in range(6 * n) if rec['obs'][k] != want[k]), None)
                i, q = divmod(first, 6) if first is not None else (0, 0)
                ctx.fail('spec', m.case('stderr', key=[i, PARS[q]]),
                         f"covar_errors wrote onesigma[{rec['obs'][first]}] into c{i}_{PARS[q]}.stderr; its own "
                         f"diagonal entry is onesigma[{want[first]}] (free parameters before it over all components)"
                         f"; stderr={mk_stderr(m, i, q, rec)!r}",
                         dict(site='fitting.covar_errors', what='stderr-assignment',
                              inherits_from_other_component=bool(i > 0 and rec['obs'][first] is not None
                                                                 and want[first] is not None
                                                                 and rec['obs'][first] < want[first])))
            elif rec['obs'] != want:
                ctx.fail('corr', m.case('stderr'), f"observed assignment {rec['obs']} but the model {want}",
                         dict(site='fitting.covar_errors', what='stderr-assignment-model'))
        # value level (also when the written errors could not be identified among the entries of a replicated
        # onesigma, status 'ambiguous': then the values themselves are compared)
        # 'singular' (the code wrote the marker -2 or its own Fisher matrix was not invertible) is judged too: if the
        # model's Fisher matrix is well conditioned (covar_psd_pd: then onesigma is defined and positive) the
        # errors must be those, not 'undetermined'
        assignment_fine = (rec['status'] == 'ok' and sp == 'ok' and rec['obs'] == want) \
            or rec['status'] in ('ambiguous', 'singular')
        if assignment_fine:
            if rec['lmjac'] is not None:
                # value level: Fisher matrix from the model's Jacobian
                # assembled as the REGENERATED words of covar_errors say (driver op `fisherwords`; theorem
                # covar_errors_fisher): which Jacobian each branch asks for (1 = errs only, 2 = errs and B) and the
                # product word over 1 = J^T, 2 = J, 3 = inv(C)
                # (truth=True: the proved assembly, not the regenerated one)
                fw = dict(jacC=1, jacB=2, sigma=1, C=[1, 3, 2], B=[1, 2]) if truth else fisher_words(ctx)
                branch = 'C' if (m.use_c and m.C is not None) else 'B'
                hdr, ml = floats(outs[s + 4] if fw['jac' + branch] == 1 else outs[s + 1], 2)
                Jm = ml.reshape(hdr)
                with np.errstate(all='ignore'):
                    try:
                        import scipy.linalg
                        F = None
                        for letter in fw[branch]:
                            X = {1: Jm.T, 2: Jm}[letter] if letter in (1, 2) else scipy.linalg.inv(m.C)
                            F = X if F is None else F.dot(X)
                        cond = np.linalg.cond(F)
                        sig1 = np.sqrt(np.diag(scipy.linalg.inv(F)))
                    except Exception:
                        cond, sig1 = np.inf, None
                if sig1 is not None and np.isfinite(cond) and cond < 1e9 and np.all(np.isfinite(sig1)):
                    ctx.count('stderr-value-checked')
                    tol = 1e-13 * cond + 1e-9
                    for kk, w in enumerate(want):
                        if w is None:
                            continue
                        i, q = divmod(kk, 6)
                        got = rec['raw'][kk]
                        got = float('nan') if got is None else float(got)
                        if not abs(got - sig1[w]) <= tol * max(abs(got), abs(sig1[w])):
                            ctx.fail(kind_fail, m.case('stderr-value', key=[i, PARS[q]]),
                                     f"c{i}_{PARS[q]}.stderr = {got!r}; sqrt of its own diagonal entry of the inverse "
                                     f"Fisher matrix built from {'the true derivatives' if truth else 'the model'} "
                                     f"is {float(sig1[w])!r} (cond {cond:.3g})",
                                     dict(site='fitting.covar_errors', what='stderr-value', entry=PARS[q]))
                            break
        nt = (tag, tuple(m.masks), m.variant(), m.order) if nontrivial(m.comps, m.masks) else None
        ctx.count(f'{tag}-{n}comp')
        ctx.count('variant-' + m.variant())
        ctx.count('order-' + m.order)
        ctx.case(m.case(tag), nontrivial_key=nt, sample_every=53)
        for v in m.masks:
            ctx.extra.setdefault('_masks_seen', set()).add(v)


def fisher_words(ctx):
    """the regenerated Fisher assembly, from the driver (cached per run)"""
    fw = ctx.extra.get('_fisher_words')
    if fw is None:
        w = ctx.driver.batch(['fisherwords'])[0].split()
        ic, ib = w.index('C'), w.index('B')
        fw = dict(jacC=int(w[0]), jacB=int(w[1]), sigma=int(w[2]), mask_covar=int(w[3]), mask_fit=int(w[4]),
                  C=[int(t) for t in w[ic + 1:ib]],
                  B=[int(t) for t in w[ib + 1:]])
        ctx.extra['_fisher_words'] = fw
    return fw


def mk_stderr(m, i, q, rec):
    """the stderr the implementation wrote for parameter q of component i (as identified in onesigma)"""
    o = rec['obs'][6 * i + q]
    return float(rec['onesigma'][o]) if o is not None else float('nan')


def free_keys(masks):
    return [(i, k) for i, m in enumerate(masks) for k in range(6) if (m >> k) & 1]


# ------------------------------------------------------------------ 3. index sweep ----------

SWEEP_COMPS = [(3.1, 2.2, 3.4, 1.6, 1.1, 25.0), (5.3, 6.1, 2.7, 1.2, 1.9, -40.0),
               (2.4, 10.3, 4.1, 1.8, 1.3, 70.0), (4.2, 13.8, 2.9, 1.1, 1.7, 110.0)]


def index_sweep(ctx, mask_lists):
    """the stderr loop through the real covar_errors on a fixed well-conditioned island"""
    data = np.ones((16, 7))
    data[0, 0] = np.nan
    data[15, 6] = np.inf
    models = [Model(SWEEP_COMPS[:len(ms)], list(ms), data, 'escalar', 'bnone', False, 0.7,
                    order=ORDERS[k % len(ORDERS)]) for k, ms in enumerate(mask_lists)]
    for chunk in range(0, len(models), 400):
        run_models(ctx, models[chunk:chunk + 400], tag='sweep')


def sweep_lists(ctx):
    rng = ctx.rng
    out = [(a,) for a in range(64)]
    step = 37 if ctx.quick else 5
    off = ctx.seed % step
    out += [(a, b) for a in range(64) for b in range(64) if (a * 64 + b) % step == off]
    nn = 60 if ctx.quick else 600
    for _ in range(nn):
        out.append(tuple(rng.randrange(64) for _ in range(3)))
        out.append(tuple(rng.randrange(64) for _ in range(4)))
    return out


# ------------------------------------------------------------------ corpus ------------------

CORPUS = [
    # the DESIGN §6 item 1 probe: sx=3, sy=1.5, theta=30 — ratio 57.2958 without the factor pi/180
    dict(kind='corpus', comps=[[2.0, 4.0, 4.0, 3.0, 1.5, 30.0]], masks=[63], shape=[9, 9], masked=[[0, 0]],
         errs_kind='escalar', errs_val=0.5, b_kind='bnone', use_c=False),
    # DESIGN §6 item 2: two components, everything free
    dict(kind='corpus', comps=[[3.0, 3.0, 3.5, 1.6, 1.1, 20.0], [5.0, 9.0, 3.0, 1.2, 1.9, -35.0]], masks=[63, 63],
         shape=[13, 7], masked=[], errs_kind='escalar', errs_val=1.0, b_kind='bnone', use_c=False),
    # second component only partly free, first one positions only, whitened
    dict(kind='corpus', comps=[[3.0, 3.0, 3.5, 1.6, 1.1, 20.0], [5.0, 9.0, 3.0, 1.2, 1.9, -35.0]], masks=[6, 57],
         shape=[13, 7], masked=[[2, 2]], errs_kind='escalar', errs_val=0.3, b_kind='bmat', use_c=True,
         beam=[1.1, 0.8, 15.0]),
    # lmfit.Parameters built quantity by quantity / reversed / with parameters deleted and re-added: the rows of
    # jacobian and the entries of onesigma stay in the documented (component-major) order
    dict(kind='corpus', comps=[[3.0, 3.0, 3.5, 1.6, 1.1, 20.0], [5.0, 9.0, 3.0, 1.2, 1.9, -35.0]], masks=[63, 63],
         shape=[13, 7], masked=[], errs_kind='escalar', errs_val=1.0, b_kind='bnone', use_c=False, order='by_quantity'),
    dict(kind='corpus', comps=[[3.0, 3.0, 3.5, 1.6, 1.1, 20.0], [5.0, 9.0, 3.0, 1.2, 1.9, -35.0]], masks=[39, 63],
         shape=[13, 7], masked=[[1, 1]], errs_kind='escalar', errs_val=0.4, b_kind='bmat', use_c=True,
         beam=[1.0, 0.7, -20.0], order='readd'),
    dict(kind='corpus', comps=[[2.0, 4.0, 4.0, 3.0, 1.5, 30.0]], masks=[63], shape=[9, 9], masked=[],
         errs_kind='enone', b_kind='bmat', use_c=False, beam=[0.9, 0.6, 40.0], order='reversed'),
    # +/-inf blanks next to NaN blanks (round 8): plain, B and C paths; and negative widths
    dict(kind='corpus', comps=[[3.0, 3.0, 3.5, 1.6, 1.1, 20.0], [5.0, 9.0, 3.0, -1.2, 1.9, -35.0]], masks=[63, 63],
         shape=[13, 7], masked=[[0, 0, 'nan'], [6, 3, 'inf'], [12, 6, '-inf']], errs_kind='escalar', errs_val=1.0,
         b_kind='bnone', use_c=False),
    dict(kind='corpus', comps=[[3.0, 3.0, 3.5, 1.6, -1.1, 20.0], [5.0, 9.0, 3.0, 1.2, 1.9, -35.0]], masks=[63, 63],
         shape=[13, 7], masked=[[1, 5, 'inf'], [8, 0, '-inf']], errs_kind='escalar', errs_val=0.7,
         b_kind='bmat', use_c=False, beam=[1.0, 0.7, 30.0]),
    dict(kind='corpus', comps=[[3.0, 3.0, 3.5, 1.6, 1.1, 20.0]], masks=[63],
         shape=[9, 7], masked=[[1, 5, '-inf'], [4, 0, 'inf'], [8, 6, 'nan']], errs_kind='escalar', errs_val=0.7,
         b_kind='bmat', use_c=True, beam=[1.0, 0.7, 30.0]),
]


def corpus_cases():
    out = list(CORPUS)
    for fn in sorted(glob.glob(os.path.join(common.VERIF, 'corpus', 'C04', '*.json'))):
        try:
            out.append(json.load(open(fn)))
        except Exception:
            pass
    return out


# ------------------------------------------------------------------ debug slice --------------

def impl_bits(m):
    """everything the implementation returns for one case, as bit patterns / exact values"""
    fitting = fit()
    p = m.params()
    x, y = m.mx.astype(float), m.my.astype(float)
    out = {}
    with np.errstate(all='ignore'):
        out['jacobian'] = np.asarray(fitting.jacobian(p, x, y), dtype=float).tobytes()
        if any(m.masks):
            out['lmfit_jacobian'] = np.asarray(fitting.lmfit_jacobian(p, x, y, errs=m.errs(), B=m.B), dtype=float).tobytes()
        try:
            fitting.covar_errors(p, m.data, errs=m.errs(), B=m.B, C=(m.C if m.use_c else None))
            out['stderr'] = [None if p[f'c{i}_{n}'].stderr is None else f2h(p[f'c{i}_{n}'].stderr)
                             for i in range(len(m.comps)) for n in PARS]
        except Exception as e:
            out['stderr'] = f'raised {type(e).__name__}'
    return out


class debug_logging:
    """root logger and the 'Aegean' logger at DEBUG, output swallowed; restored on exit"""

    def __enter__(self):
        import logging
        self.logging = logging
        self.saved = []
        for name in (None, 'Aegean'):
            lg = logging.getLogger(name)
            self.saved.append((lg, lg.level, list(lg.handlers), lg.propagate))
            lg.handlers = [logging.NullHandler()]
            lg.setLevel(logging.DEBUG)
        self.disabled = logging.root.manager.disable
        logging.disable(logging.NOTSET)
        return self

    def __exit__(self, *a):
        for lg, level, handlers, prop in self.saved:
            lg.handlers = handlers
            lg.setLevel(level)
            lg.propagate = prop
        self.logging.disable(self.disabled)
        return False


def debug_slice(ctx, models):
    """the same cases with debug logging on must give bit-identical derivatives and errors"""
    for m in models:
        ref = impl_bits(m)
        with debug_logging():
            dbg = impl_bits(m)
        ctx.count('debug-slice-' + ('C' if m.use_c else ('B' if m.B is not None else 'plain')))
        for k in ref:
            if ref[k] != dbg.get(k):
                detail = f"{k} differs between the default logging level and DEBUG ({m.variant()})"
                if k == 'stderr' and isinstance(ref[k], list) and isinstance(dbg[k], list):
                    j = next(i for i in range(len(ref[k])) if ref[k][i] != dbg[k][i])
                    a, b = ref[k][j], dbg[k][j]
                    detail = (f"c{j // 6}_{PARS[j % 6]}.stderr = {None if a is None else h2f(a)!r} at the default "
                              f"logging level but {None if b is None else h2f(b)!r} with the 'Aegean' logger at DEBUG "
                              f"({m.variant()})")
                ctx.fail('spec', m.case('debug-slice', output=k), detail,
                         dict(site='fitting.covar_errors' if k == 'stderr' else 'fitting.' + k,
                              what='logging-dependence', output=k))
                break
        ctx.case(m.case('debug-slice'), nontrivial_key=('debug', tuple(m.masks), m.variant(), m.order)
                 if nontrivial(m.comps, m.masks) else None)


# ------------------------------------------------------------------ entry points ------------

def bmatrix_contract(ctx):
    """sample the hypothesis of whitening_consistent: B·Bᵀ = C⁻¹"""
    fitting = fit()
    worst = 0.0
    for _ in range(3):
        _, mx, my = rand_grid(ctx.rng, 6, 6, 0.1)
        C = fitting.Cmatrix(mx, my, ctx.rng.uniform(0.5, 0.9), ctx.rng.uniform(0.4, 0.7), ctx.rng.uniform(-80, 80))
        B = fitting.Bmatrix(C)
        worst = max(worst, float(np.max(np.abs(B.dot(B.T).dot(C) - np.eye(len(mx))))))
    ctx.extra['bmatrix_contract_max_abs_BBtC_minus_I'] = worst


def degenerate_probes(ctx):
    """observations recorded in the evidence (never failures: the property is silent where the Fisher matrix
       has no inverse).  (a) sx = sy with theta free: the theta row is identically zero (theorem
       circular_component_singular), scipy's inv raises, covar_errors marks every free parameter with -2.
       (b) the same with fewer unmasked pixels than free parameters: the except branch builds
       `[-2] * npix`, shorter than the number of free parameters."""
    fitting = fit()
    out = {}
    comp = (2.0, 4.0, 4.0, 1.5, 1.5, 30.0)
    p = mk_params([comp], [63])
    data = np.ones((9, 9))
    mx, my = np.where(np.isfinite(data))
    with np.errstate(all='ignore'):
        J = np.asarray(fitting.jacobian(p, mx, my), dtype=float)
        out['circular_theta_row_max_abs'] = float(np.max(np.abs(J[5])))
        try:
            fitting.covar_errors(p, data, errs=1.0, B=None)
            out['circular_stderr'] = {n: (None if p[f'c0_{n}'].stderr is None else float(p[f'c0_{n}'].stderr)) for n in PARS}
        except Exception as e:
            out['circular_stderr'] = f'raised {type(e).__name__}: {e}'
        p = mk_params([(2.0, 0.5, 0.5, 1.5, 1.5, 30.0)], [63])
        try:
            fitting.covar_errors(p, np.ones((2, 2)), errs=1.0, B=None)
            out['singular_4_pixels_6_free'] = {n: (None if p[f'c0_{n}'].stderr is None else float(p[f'c0_{n}'].stderr)) for n in PARS}
        except Exception as e:
            out['singular_4_pixels_6_free'] = f'raised {type(e).__name__}: {e}'
    ctx.extra['degenerate_probes'] = out
    r = out['singular_4_pixels_6_free']
    if isinstance(r, str) and 'IndexError' in r and any(
            e.get('id') == 'C04-except-branch-length' for e in common.load_known('C04')):
        # reported only while the open known finding is registered (prints KNOWN-FINDING, not VIOLATION)
        ctx.fail('spec', dict(kind='except-branch', comp=[2.0, 0.5, 0.5, 1.5, 1.5, 30.0], mask=63, shape=[2, 2], errs=1.0),
                 "covar_errors " + r + " (singular Fisher matrix, 4 unmasked pixels, 6 free parameters)",
                 dict(site='fitting.covar_errors', what='raises', error='IndexError',
                      singular_fewer_pixels_than_free=True))
    ctx.count('degenerate-probe', 2)


def hessian_observation(ctx):
    """OBSERVATION, never a failure: `fitting.hessian` (used by RB_bias, not handed to the optimiser, hence
       outside the statement of C04) against Richardson finite differences of `fitting.jacobian`, entry by
       entry, single component, all parameters free.  Records the ratio hessian/true per entry.  In the thorough
       tier also builds Aegean/Proofs/C04Hessian.lean (theorems about the regenerated h_P_Q) and records
       whether it still checks."""
    fitting = fit()
    rng = ctx.rng
    c = list(rand_comp(rng, 10, 10))
    x = np.array([[float(rng.randint(2, 7))]])
    y = np.array([[float(rng.randint(2, 7))]])
    out = dict(comp=c, pixel=[float(x[0, 0]), float(y[0, 0])])
    try:
        with np.errstate(all='ignore'):
            H = np.asarray(fitting.hessian(mk_params([tuple(c)], [63]), x, y), dtype=float)[:, :, 0, 0]

            def jac(cc):
                return np.asarray(fitting.jacobian(mk_params([tuple(cc)], [63]), x, y), dtype=float)[:, 0, 0]
            T = np.zeros((6, 6))
            for p in range(6):
                def f(v, p=p):
                    cc = list(c)
                    cc[p] = v
                    return jac(cc)
                T[p] = richardson(f, c[p], 1e-3 * max(1.0, abs(c[p])))
        table = {}
        for p in range(6):
            for q in range(p, 6):
                t, h = T[p, q], H[p, q]
                if abs(t) > 1e-9 * abs(c[0]):
                    r = h / t
                    lab = ('ok' if abs(r - 1) < 1e-5 else
                           'x 180/pi (per radian)' if abs(r - 180 / math.pi) < 1e-3 else
                           'x (180/pi)^2' if abs(r - (180 / math.pi) ** 2) < 1 else
                           'x amp' if abs(r - c[0]) < 1e-4 * abs(c[0]) else f'ratio {r:.6g}')
                else:
                    lab = 'ok' if abs(h - t) < 1e-7 * abs(c[0]) else f'hessian {h:.3g} true {t:.3g}'
                table[f'{PARS[p]},{PARS[q]}'] = lab
        out['hessian_over_true_second_derivative'] = table
        out['symmetric'] = bool(np.max(np.abs(H - H.T)) == 0)
    except Exception as e:
        out['error'] = f'{type(e).__name__}: {e}'
    if not ctx.quick:
        ok, log = common.lean_build(['Aegean.Proofs.C04Hessian'])
        out['lean_C04Hessian'] = 'checks' if ok else common.lean_errors(log, 5)
    out['scope'] = ("not part of the verdict: C04 speaks of the derivatives handed to the optimiser "
                    "(fitting.jacobian / lmfit_jacobian); fitting.hessian feeds RB_bias / bias_correct")
    ctx.extra['hessian_observation'] = out


def known_registered(fid):
    """a probe that goes beyond the letter of the statement is judged only once its finding is registered in the
       merged known_findings.json (open: prints KNOWN-FINDING; fixed: a regression is a VIOLATION); before that
       its outcome is only recorded in the evidence"""
    return any(e.get('id') == fid for e in common.load_known('C04'))


class _Captured(Exception):
    pass


def optimiser_pairing_probe(ctx):
    """what `do_lmfit` hands to lmfit as Dfun, column by column, against the variable lmfit pairs that column
       with (lmfit's var_names = the order in which the free parameters are held by the Parameters object).
       For a Parameters object built component by component this is the documented order; for other insertion
       orders the columns must be permuted accordingly."""
    import lmfit
    fitting = fit()
    comps = [(3.0, 4.0, 4.5, 1.6, 1.1, 20.0), (5.0, 11.0, 4.0, 1.2, 1.9, -35.0)]
    masks = [63, 47]
    data = np.ones((16, 9))
    data[0, 0] = np.nan
    mx, my = np.where(np.isfinite(data))
    C = fitting.Cmatrix(mx, my, 1.0, 0.7, 25.0)
    B = fitting.Bmatrix(C)
    doc = [f'c{i}_{PARS[k]}' for i, k in free_keys(masks)]
    lines = []
    for b in (None, B):
        toks = enc_comps(comps, masks) + enc_pix(mx.astype(float), my.astype(float)) + ['enone'] + \
            (['bnone'] if b is None else ['bmat'] + [f2h(v) for v in np.asarray(b, dtype=float).ravel()])
        lines.append(f"tlmjac 2 {len(mx)} " + " ".join(toks))
    truths = []
    for o in ctx.driver.batch(lines):
        hdr, v = floats(o, 2)
        truths.append(v.reshape(hdr))
    out = {}
    real_minimize = fitting.lmfit.minimize
    for order in ORDERS:
        for b, truth, tag in ((None, truths[0], 'plain'), (B, truths[1], 'B')):
            cap = {}

            def fake(fcn, params, kws=None, Dfun=None, **kw):
                cap.update(params=params, kws=kws or {}, Dfun=Dfun)
                raise _Captured()
            p = mk_params(comps, masks, order)
            fitting.lmfit.minimize = fake
            try:
                try:
                    fitting.do_lmfit(data, p, B=b)
                except _Captured:
                    pass
            finally:
                fitting.lmfit.minimize = real_minimize
            if 'Dfun' not in cap or cap['Dfun'] is None:
                out[f'{order}/{tag}'] = 'no analytic Jacobian handed over'
                continue
            with np.errstate(all='ignore'):
                J = np.asarray(cap['Dfun'](cap['params'], **cap['kws']), dtype=float)
            mini = lmfit.Minimizer(lambda q: np.zeros(1), cap['params'])
            names = list(mini.prepare_fit().var_names)
            verdict = 'ok'
            if J.shape != (len(mx), len(names)):
                verdict = f'shape {J.shape} for {len(names)} variables'
            else:
                scale = np.max(np.abs(truth), axis=0)
                for k, name in enumerate(names):
                    want = truth[:, doc.index(name)]
                    if np.max(np.abs(J[:, k] - want)) > 1e-9 * max(1.0, scale[doc.index(name)]):
                        got = next((d for d in doc if np.max(np.abs(J[:, k] - truth[:, doc.index(d)])) <=
                                    1e-9 * max(1.0, scale[doc.index(d)])), '?')
                        verdict = f"column {k}, which lmfit pairs with {name}, is the derivative with respect to {got}"
                        break
            out[f'{order}/{tag}'] = verdict
            ctx.count('optimiser-pairing-' + ('ok' if verdict == 'ok' else 'mispaired'))
            if verdict != 'ok' and known_registered('C04-dfun-variable-order'):
                ctx.fail('spec', dict(kind='optimiser-pairing', order=order, whitened=(b is not None),
                                      comps=[list(c) for c in comps], masks=masks),
                         f"do_lmfit hands lmfit a Jacobian whose {verdict} (Parameters inserted in '{order}' order)",
                         dict(site='fitting.do_lmfit', what='dfun-pairing', canonical_insertion=(order in ('canonical', 'components_first'))))
    ctx.extra['optimiser_pairing'] = out


def run(ctx):
    common.use_repo()
    run_models(ctx, [model_from_case(c) for c in corpus_cases()], tag='corpus')
    validate_translator(ctx, 200 if ctx.quick else 2000)
    n = 40 if ctx.quick else 300
    models = []
    for k in range(n):
        for ncomp in (1, 2, 3, 4):
            models.append(rand_model(ctx, ncomp, big=(not ctx.quick and k % 10 == 0)))
    for chunk in range(0, len(models), 100):
        run_models(ctx, models[chunk:chunk + 100])
    # debug slice: corpus + a sample with the plain, the B and the C path of covar_errors
    sample = [model_from_case(c) for c in corpus_cases()]
    for path in ('plain', 'B', 'C'):
        pick = [m for m in models if (path == 'C') == bool(m.use_c) and (path == 'plain') == (m.B is None)]
        sample += pick[:(4 if ctx.quick else 30)]
    debug_slice(ctx, sample)
    index_sweep(ctx, sweep_lists(ctx))
    bmatrix_contract(ctx)
    ctx.extra['amp_zero_special_case_flag'] = ctx.driver.batch(['ampzero'])[0].strip() + \
        '   (1: the source special-cases amp == 0, hasDerivAt_amp_everywhere applies to every amplitude; 0: vacuous)'
    ctx.extra['lmfit_jacobian_pipeline'] = ctx.driver.batch(['pipeline'])[0] + '   (src len op0 op1 ...; 1 = /errs, 2 = .dot(B), 3 = transpose)'
    degenerate_probes(ctx)
    hessian_observation(ctx)
    optimiser_pairing_probe(ctx)
    # implementation vs the property directly (cheap; independent of which obligation broke)
    leaf_spec_probe(ctx, 60 if ctx.quick else 600)
    fw = ctx.extra.pop('_fisher_words', None)
    ctx.extra['covar_errors_assembly'] = fw or fisher_words(ctx)
    ctx.extra.pop('_fisher_words', None)
    seen = ctx.extra.pop('_masks_seen', set())
    ctx.extra['vary_masks_covered'] = f"{len(seen)}/64"


# ---- search -------------------------------------------------------------------------------

def richardson(f, p, h):
    d1 = (f(p + h) - f(p - h)) / (2 * h)
    d2 = (f(p + h / 2) - f(p - h / 2)) / h
    return (4 * d2 - d1) / 3


def fd_entry(fitting, x, y, c, k):
    """Richardson finite difference of elliptical_gaussian with respect to parameter k, in k's own units"""
    def f(v):
        cc = list(c)
        cc[k] = v
        return float(fitting.elliptical_gaussian(x, y, *cc))
    return richardson(f, c[k], 1e-3 * max(1.0, abs(c[k])))


def leaf_probe(ctx, fitting, pts):
    """[(x, y, comp)] -> list of (impl entries, truth entries, fd entries)"""
    lines = ["tleaf " + " ".join([f2h(x), f2h(y)] + enc_comps([c])) for x, y, c in pts]
    outs = ctx.driver.batch(lines)
    res = []
    for (x, y, c), o in zip(pts, outs):
        _, t = floats(o)
        p = mk_params([c], [63])
        impl = [float(v) for v in np.asarray(fitting.jacobian(p, np.array([x]), np.array([y])), dtype=float)[:, 0]]
        fd = [float(fd_entry(fitting, x, y, c, k)) for k in range(6)]
        res.append((impl, [float(v) for v in t[1:]], fd, float(fitting.elliptical_gaussian(x, y, *c)), float(t[0])))
    return res


def leaf_bad(impl, truth, fd, scale):
    """indices of entries where the implementation differs from the verified derivative and the finite
       difference sides with the verified derivative"""
    bad = []
    for k in range(6):
        a, t, d = impl[k], truth[k], fd[k]
        if abs(a - t) <= 1e-9 * max(abs(a), abs(t)) + 1e-12 * scale:
            continue
        if abs(d - t) <= 1e-5 * max(abs(d), abs(t)) + 1e-9 * scale and abs(d - a) > 1e-5 * max(abs(d), abs(a)) + 1e-9 * scale:
            bad.append(k)
    return bad


def leaf_spec_probe(ctx, npts):
    """implementation vs the property, entry by entry: `fitting.jacobian` against the hand formulas proved
       correct in Lean (evaluated at Float) with Richardson finite differences of `fitting.elliptical_gaussian`
       as a second opinion.  Reports the first failing (params, pixel, entry) per entry kind, shrunk."""
    fitting = fit()
    rng = ctx.rng
    pts = [(4.0, 5.0, (2.0, 4.0, 4.0, 3.0, 1.5, 30.0)), (4.0, 5.0, (2.0, 4.0, 4.0, -3.0, 1.5, 30.0)),
           (3.0, 6.0, (2.0, 4.0, 4.0, 3.0, -1.5, 30.0))]
    for _ in range(npts):
        c = rand_comp(rng, 10, 10)
        pts.append((float(rng.randint(0, 9)), float(rng.randint(0, 9)), c))
    # a source that special-cases amp == 0 claims the derivative there too (theorem hasDerivAt_amp_everywhere);
    # amp == 0 is outside C04's own range, so it is probed only then
    _st = ctx.extra.get('translator') or {}
    if ctx.driver.batch(['ampzero'])[0].strip() == '1' and _st.get('dmdsZero') == 'translated':
        ctx.extra['amp_zero_special_case'] = 'present in the source: amplitude derivative probed at amp = 0 as well'
        for _ in range(5):
            pts.append((float(rng.randint(2, 7)), float(rng.randint(2, 7)), (0.0,) + rand_comp(rng, 10, 10)[1:]))
    res = leaf_probe(ctx, fitting, pts)
    found = {}
    for (x, y, c), (impl, truth, fd, g, tg) in zip(pts, res):
        ctx.count('spec-probe-leaf')
        if abs(g - tg) > 1e-10 * max(abs(g), abs(tg)) + 1e-13 * abs(c[0]):
            ctx.fail('spec', dict(kind='model', x=x, y=y, comp=list(c)),
                     f"elliptical_gaussian = {g!r}, the Gaussian of the property is {tg!r}",
                     dict(site='fitting.elliptical_gaussian', what='model'))
            return True
        for k in leaf_bad(impl, truth, fd, max(abs(c[0]), 1.0)):
            found.setdefault(k, (x, y, c, k))
    for k in sorted(found):
        x, y, c, k = shrink_leaf(ctx, fitting, *found[k])
        (impl, truth, fd, g, tg), = leaf_probe(ctx, fitting, [(x, y, c)])
        ratio = impl[k] / truth[k] if truth[k] else float('inf')
        ctx.fail('spec', dict(kind='leaf', x=x, y=y, comp=list(c), entry=PARS[k]),
                 f"fitting.jacobian entry d(model)/d({PARS[k]}) at pixel ({x},{y}) for "
                 f"(amp,xo,yo,sx,sy,theta)={tuple(c)} is {impl[k]!r}; the true derivative (Lean-verified formula at "
                 f"Float) is {truth[k]!r}, Richardson finite difference of elliptical_gaussian {fd[k]!r}; "
                 f"ratio impl/true = {ratio:.6g}",
                 dict(site='fitting.jacobian', what='entry', entry=PARS[k],
                      ratio_180_over_pi=bool(abs(ratio - 180 / math.pi) < 1e-6 * 180 / math.pi)))
    return bool(found)


def search(ctx):
    common.use_repo()
    known = common.load_known('C04')
    if any(f['kind'] == 'spec' and not any(common.matches(e, f) for e in known) for f in ctx.failures):
        return
    ok, log = common.lean_build(['Aegean.Proofs.C04Hand', 'Aegean.Driver.C04'])
    if not ok:
        ctx.note("the reference formulas (Proofs/C04Hand) do not build: " + "; ".join(common.lean_errors(log, 3)))
        return
    # (a) single entries: verified derivative at Float + Richardson vs fitting.jacobian
    if leaf_spec_probe(ctx, 400):
        return
    # (b) multi-component: row order, row count, whitening, stderr values against the verified formulas
    models = [model_from_case(c) for c in corpus_cases()]
    for _ in range(30):
        for ncomp in (1, 2, 3, 4):
            models.append(rand_model(ctx, ncomp))
    before = len(ctx.failures)
    run_models(ctx, models, tag='search', truth=True)
    new = ctx.failures[before:]
    spec = [f for f in new if f['kind'] == 'spec']
    if spec:
        # keep the smallest failing case first
        spec.sort(key=lambda f: (len(f['case'].get('comps', [])), sum(bin(v).count('1') for v in f['case'].get('masks', []))))
        ctx.failures[before:] = spec[:1] + [f for f in new if f['kind'] != 'spec']


def shrink_leaf(ctx, fitting, x, y, c, k):
    """round the witness to short decimals while it still fails"""
    cur = (x, y, tuple(c))

    def fails(x, y, c):
        if c[3] == 0 or c[4] == 0:
            return False
        (impl, truth, fd, g, tg), = leaf_probe(ctx, fitting, [(x, y, c)])
        return k in leaf_bad(impl, truth, fd, max(abs(c[0]), 1.0))
    for digits in (0, 1):
        cand = (cur[0], cur[1], tuple(round(v, digits) for v in cur[2]))
        if cand[2][3] != cand[2][4] and fails(*cand):
            cur = cand
            break
    return cur[0], cur[1], cur[2], k


def replay(ctx, rec):
    common.use_repo()
    fitting = fit()
    c = rec['case']
    if c.get('kind') == 'leaf':
        comp = tuple(c['comp'])
        (impl, truth, fd, g, tg), = leaf_probe(ctx, fitting, [(c['x'], c['y'], comp)])
        k = PARS.index(c['entry'])
        ctx.case(c, nontrivial_key=('leaf', c['entry']))
        if k in leaf_bad(impl, truth, fd, max(abs(comp[0]), 1.0)):
            ctx.fail('spec', c, f"fitting.jacobian d/d{c['entry']} = {impl[k]!r}; verified derivative {truth[k]!r}; "
                                f"finite difference {fd[k]!r}", rec.get('signature'))
        return
    if c.get('kind') == 'model':
        return search(ctx)
    if c.get('kind') == 'except-branch':
        return degenerate_probes(ctx)
    if c.get('kind') == 'optimiser-pairing':
        return optimiser_pairing_probe(ctx)
    if c.get('kind') == 'debug-slice':
        return debug_slice(ctx, [model_from_case(c)])
    m = model_from_case(c)
    run_models(ctx, [m], tag='replay', truth=True)
    run_models(ctx, [m], tag='replay')
