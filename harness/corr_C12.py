"""
C12 — correspondence + search for the exporters of `AegeanTools.regions.Region`
(`_uniq` / `write_fits`, `write_reg`, `save`/`load`, and `MIMAS.mim2fits` / `mim2reg`).

A case is a C08 history (depth + operation list, see corr_C08) followed by the three exports.  The
files are read back: the FITS table with astropy (NPIX column decoded with the standard NUNIQ decoder
order = floor(log2(u/4))/2, ipix = u - 4*4^order), the DS9 file with a small polygon parser whose
vertices are matched against `healpy.boundaries`, the .mim file with `Region.load`.

  'spec' failures: the decoded MOC is not the region's pixel set / sky area; MOCORDER != maxdepth; the
                   DS9 polygons are not one per stored pixel with that pixel's corners; load(save(r)) != r
  'corr' failures: `Region._uniq()` differs from the Lean model `Model.C12.uniq` built on the
                   *regenerated* `Gen.C12.encode` / `Gen.C12.levels` (this also validates the translator)
"""
import json
import math
import os

import numpy as np

import warnings

import common

# AegeanTools/MIMAS.py itself contains '[(\\s,)]' in a non-raw string; compiling it prints a SyntaxWarning on first
# import (it is the repository's source, not this harness) — keep the check's output clean
warnings.filterwarnings('ignore', category=SyntaxWarning)
import corr_C08 as c8

LEVEL = 'proof'
LEANCHECKER = True
RULE = ("a case is (maxdepth, operation list) run on the real Region and then exported three ways and read back; "
        "non-trivial = the exported region is non-empty and holds at least one pixel at maxdepth or pixels at two "
        "or more levels (the two situations the pinned loop range loses); distinct by the canonical text of the list")
ASSUMPTIONS = [
    "astropy.io.fits reads back the table it wrote; healpy.boundaries(nside, p, step=1, nest=True) returns the four "
    "corners of pixel p; pickle round-trips",
    "DS9 text precision: RA printed to 0.01 s of time, Dec to 0.01 arcsec; vertices are compared on the sphere with "
    "a tolerance of 0.2 arcsec",
    "write_fits/write_reg/save themselves (header cards, text layout, pickle) are tied to the model only by this "
    "read-back; the encoder expression and the loop range of _uniq are regenerated from source on every run",
]
TRUSTED = ["Gen.C12.encode / Gen.C12.levels regenerated from regions.Region._uniq by translator/targets/C12.py "
           "(extended copy of py2lean's statement walker: for-range headers and map(lambda))"]
PARTIAL = []

ARCSEC = math.radians(1 / 3600.0)


class HistoryError(Exception):
    """the operations *before* the export raised: a C08 matter, reported by ./check C08"""


def decode(u):
    u = int(u)
    order = ((u // 4).bit_length() - 1) // 2
    return order, u - 4 * 4 ** order


def pixel_pairs(r):
    out = []
    for d in range(1, r.maxdepth + 1):
        for p in r.pixeldict[d]:
            out.append((d, int(p)) if float(p).is_integer() else (d, float(p)))
    return sorted(out)


def cover(pairs, m):
    S = set()
    for d, p in pairs:
        if d > m or d < 0:
            return None
        S.update(c8.below(p, m - d))
    return S


def parse_sexa(t):
    t = t.strip()
    sign = -1.0 if t.startswith('-') else 1.0
    a, b, c = t.lstrip('+-').split(':')
    return sign * (float(a) + float(b) / 60 + float(c) / 3600)


def read_reg(fn):
    polys = []
    for line in open(fn):
        line = line.strip()
        if not line:
            continue
        if not (line.startswith('fk5; polygon(') and line.endswith(')')):
            return None, 'unparsable line %r' % line[:80]
        w = line[len('fk5; polygon('):-1].split(',')
        if len(w) % 2:
            return None, 'odd number of coordinates'
        polys.append([(math.radians(15 * parse_sexa(w[i])), math.radians(parse_sexa(w[i + 1]))) for i in range(0, len(w), 2)])
    return polys, None


def vec(ra, dec):
    return np.array([math.cos(dec) * math.cos(ra), math.cos(dec) * math.sin(ra), math.sin(dec)])


def match_polygon(hp, poly, m):
    """which (level, pixel) has these four corners?"""
    vs = [vec(*p) for p in poly]
    cen = np.sum(vs, axis=0)
    n = np.linalg.norm(cen)
    if len(vs) != 4 or n == 0:
        return None
    cen = cen / n
    for d in range(1, m + 1):
        p = int(hp.vec2pix(2 ** d, cen[0], cen[1], cen[2], nest=True))
        b = hp.boundaries(2 ** d, p, step=1, nest=True)      # 3 x 4
        ok = True
        for k in range(4):
            e = b[:, k]
            dot = max(-1.0, min(1.0, float(np.dot(e, vs[k]))))
            if math.acos(dot) > 0.2 * ARCSEC and np.linalg.norm(e - vs[k]) > 0.2 * ARCSEC:
                ok = False
                break
        if ok:
            return (d, p)
    return None


def export_checks(ctx, m, items, tmp, tag, do_reg=True, via_mimas=False):
    """run the history, export, read back.  Returns (region, list of (what, detail))"""
    from astropy.io import fits
    from AegeanTools.regions import Region
    hp = c8.hp_()
    probs = []
    r = Region(m)
    try:
        for it in items:
            r, _, _ = c8.apply_item(r, it, tmp)
    except Exception as e:
        raise HistoryError('%s: %s' % (type(e).__name__, e))
    want = pixel_pairs(r)
    S = None
    if all(isinstance(p, int) for _, p in want):
        S = cover(want, m)
    # ---- .mim
    fmim = os.path.join(tmp, 'x_%s.mim' % tag)
    r.save(fmim)
    r2 = Region.load(fmim)
    if c8.state_str(r2) != c8.state_str(r):
        probs.append(('mim-roundtrip', 'load(save(r)) = %s but r = %s' % (c8.state_str(r2)[:200], c8.state_str(r)[:200])))
    # ---- MOC
    ffits = os.path.join(tmp, 'x_%s.fits' % tag)
    if via_mimas:
        from AegeanTools import MIMAS
        MIMAS.mim2fits(fmim, ffits)
    else:
        r.write_fits(ffits)
    with fits.open(ffits) as h:
        hdr = h[1].header
        col = [int(x) for x in h[1].data['NPIX']] if len(h[1].data) else []
        order = hdr.get('MOCORDER')
        ordering = str(hdr.get('ORDERING', '')).strip()
    got = sorted(decode(u) for u in col)
    if ordering != 'NUNIQ':
        probs.append(('moc-header', 'ORDERING = %r' % ordering))
    if order != m:
        probs.append(('mocorder', 'MOCORDER = %r but the region depth is %d' % (order, m)))
    if got != want:
        lost = [x for x in want if x not in got]
        extra = [x for x in got if x not in want]
        probs.append(('moc-pixels', 'decoding the NPIX column gives %d cells, the region stores %d pixels; '
                      'missing (level, pixel): %s  unexpected: %s' % (len(got), len(want), lost[:6], extra[:6])))
    elif S is not None and cover(got, m) != S:
        probs.append(('moc-pixels', 'decoded cells do not cover the region'))
    if col != sorted(col):
        probs.append(('moc-order', 'NPIX column is not sorted'))
    # ---- DS9
    if do_reg and len(want) <= 60:      # SkyCoord formatting costs ~1 ms per vertex
        freg = os.path.join(tmp, 'x_%s.reg' % tag)
        if via_mimas:
            from AegeanTools import MIMAS
            MIMAS.mim2reg(fmim, freg)
        else:
            r.write_reg(freg)
        polys, err = read_reg(freg)
        if err:
            probs.append(('reg-polygons', err))
        elif len(polys) != len(want):
            probs.append(('reg-polygons', '%d polygons for %d stored pixels' % (len(polys), len(want))))
        else:
            matched = [match_polygon(hp, p, m) for p in polys]
            if None in matched:
                probs.append(('reg-polygons', 'polygon %d has no pixel with these corners: %s'
                              % (matched.index(None), polys[matched.index(None)])))
            elif sorted(matched) != want:
                probs.append(('reg-polygons', 'polygons describe %s, the region stores %s' % (sorted(matched)[:8], want[:8])))
    return r, probs


def nontrivial(r, m, items):
    levels = [d for d in range(1, m + 1) if len(r.pixeldict[d])]
    if not levels:
        return None
    if m in levels or len(levels) >= 2:
        return 'm%d %s' % (m, json.dumps(items, sort_keys=True))
    return None


def specials():
    return [
        (1, []), (3, []),
        (1, [['N', 1, [5]]]),
        (4, [['N', 4, [9]]]),                                   # the ledger witness: pixel 9 at level 4 of Region(4)
        (12, [['N', 12, [123456789]]]),
        (3, [['N', 3, [0, 1, 2, 3, 9]], ['N', 2, [7]]]),        # two levels
        (4, [['N', 4, [9]], ['D']]),                            # export after a demoting query
        (3, [['N', 3, list(range(16))], ['Q', [3, 20]]]),       # promoted to level 2, then demoted again by sky_within
        (1, [['N', 1, list(range(48))]]),                       # whole sky
        (2, [['N', 2, list(range(192))]]),
        (3, [['N', 1, [2]], ['G']]),
        (5, [['N', 3, [5, 6]], ['N', 5, [1, 2, 3, 4000]], ['Q', [7]], ['U', 1, {'m': 6, 'build': [['N', 6, [77, 20000]]]}]]),
        (4, [['N', 2, [3]], ['W', {'m': 4, 'build': [['N', 4, [193]]]}]]),   # a hole: three levels after renorm
    ]


def edge_regions(ctx, thorough):
    """regions made of pixels at levels 6..10 around the places where text formatting of coordinates is delicate:
    the strip -1 deg < Dec < 0 just south of the equator (degrees field 0 with a minus sign), Dec = 0, RA near
    0h/24h, and the poles"""
    hp = c8.hp_()
    rng = ctx.rng
    out = []
    depths = [6, 7, 8, 9, 10] if thorough else [6, 7, 9]
    for m in depths:
        for d in ([m] if (m == 6 or not thorough) else [m, m - 1]):
            ras = [0.0005, 359.9995, 45.0, 180.0 - 0.01, rng.uniform(0, 360), rng.uniform(0, 360)]
            pts = [(ra, dec) for ra in ras for dec in (-0.05, -0.3, -0.55, -0.8, -0.97, 0.0, 0.3)]
            pts += [(rng.uniform(0, 360), sgn * 89.97) for sgn in (1, -1)] + [(0.0002, 30.0), (359.9998, -30.0)]
            ra = np.radians([p_[0] for p_ in pts])
            dec = np.radians([p_[1] for p_ in pts])
            pix = sorted(set(int(x) for x in hp.ang2pix(2 ** d, np.pi / 2 - dec, ra, nest=True)))
            for k in range(0, len(pix), 22):
                out.append((m, [['N', d, pix[k:k + 22]]]))
    return out


def read_moc(ffits):
    from astropy.io import fits
    with fits.open(ffits) as h:
        col = [int(x) for x in h[1].data['NPIX']] if len(h[1].data) else []
        return sorted(decode(u) for u in col), h[1].header.get('MOCORDER')


def file_scenario(ctx, m, itemsA, itemsB, variant, tmp):
    """A and B are saved under FIXED file names (rewritten by every scenario, as a long-lived process would), the
    file of A is loaded and the loaded object modified in place (directly, or by MIMAS.intersect_regions /
    combine_regions which load by file name), and then the unchanged file is loaded / converted again: it must
    still describe exactly the region that was saved.  Returns list of (what, detail)."""
    from AegeanTools import MIMAS
    from AegeanTools.regions import Region
    hp = c8.hp_()
    probs = []

    def build(items):
        r = Region(m)
        for it in items:
            r, _, _ = c8.apply_item(r, it, tmp)
        return r
    try:
        A, B = build(itemsA), build(itemsB)
    except Exception as e:
        raise HistoryError('%s: %s' % (type(e).__name__, e))
    wantA, stateA = pixel_pairs(A), c8.state_str(A)
    SA = cover(wantA, m) if all(isinstance(p, int) for _, p in wantA) else None
    wantB = pixel_pairs(B)
    SB = cover(wantB, m) if all(isinstance(p, int) for _, p in wantB) else None
    f1, f2 = os.path.join(tmp, 'scenario_a.mim'), os.path.join(tmp, 'scenario_b.mim')
    A.save(f1)
    B.save(f2)
    first = Region.load(f1)
    if c8.state_str(first) != stateA:
        probs.append(('mim-roundtrip', 'first load(save(r)) = %s but r = %s' % (c8.state_str(first)[:150], stateA[:150])))
    alive = [first]
    if variant == 'intersect_regions':
        res = MIMAS.intersect_regions([f1, f2])
        alive.append(res)
        prob, cov, _ = c8.inspect(res)
        if SA is not None and SB is not None and not prob and cov != (SA & SB):
            probs.append(('intersect-regions', 'MIMAS.intersect_regions covers %d deepest pixels, A & B has %d'
                          % (len(cov), len(SA & SB))))
    elif variant == 'without':
        a = Region.load(f1)
        a.without(Region.load(f2))
        alive.append(a)
    elif variant == 'add':
        a = Region.load(f1)
        a.add_pixels([p for d_, p in wantB if d_ == m][:5] or [0], m)
        a._renorm()
        alive.append(a)
    elif variant == 'combine':
        cont = MIMAS.Dummy(maxdepth=m)
        cont.add_region = [[f1]]
        cont.rem_region = [[f2]]
        alive.append(MIMAS.combine_regions(cont))
    elif variant == 'query':
        a = Region.load(f1)
        a.get_demoted()
        alive.append(a)
    # ---- the file has not been touched: everything read from it must still be A
    again = Region.load(f1)
    if c8.state_str(again) != stateA:
        probs.append(('mim-roundtrip', 'after %s on a loaded copy, load() of the unchanged file gives %s but %s was saved'
                      % (variant, c8.state_str(again)[:150], stateA[:150])))
    ffits, freg = os.path.join(tmp, 'scenario_a.fits'), os.path.join(tmp, 'scenario_a.reg')
    MIMAS.mim2fits(f1, ffits)
    got, order = read_moc(ffits)
    if got != wantA:
        probs.append(('moc-pixels', 'after %s on a loaded copy, mim2fits of the unchanged file decodes to %d cells, %d pixels '
                      'were saved; missing %s unexpected %s' % (variant, len(got), len(wantA),
                                                               [x for x in wantA if x not in got][:5],
                                                               [x for x in got if x not in wantA][:5])))
    if order != m:
        probs.append(('mocorder', 'MOCORDER = %r but the region depth is %d' % (order, m)))
    if len(wantA) <= 40:
        MIMAS.mim2reg(f1, freg)
        polys, err = read_reg(freg)
        if err:
            probs.append(('reg-polygons', err))
        else:
            matched = [match_polygon(hp, p_, m) for p_ in polys]
            if None in matched or sorted(matched) != wantA:
                probs.append(('reg-polygons', 'after %s on a loaded copy, mim2reg of the unchanged file draws %s, saved %s'
                              % (variant, sorted(x for x in matched if x)[:6], wantA[:6])))
    return probs


VARIANTS = ('intersect_regions', 'without', 'add', 'combine', 'query')


def run_file_scenarios(ctx, n):
    rng = ctx.rng
    tmp = ctx.tmpdir()
    seen = set()
    for k in range(n):
        m = rng.choice([2, 3, 4, 5, 6, 8])
        d = rng.randint(max(1, m - 1), m)
        psA = c8.rand_pixels(rng, d, rng.randint(2, 8))
        shared = [p * 4 ** (m - d) for p in psA[:2]]
        itemsA = [['N', d, psA]] + ([['D']] if rng.random() < 0.3 else [])
        itemsB = [['N', m, sorted(set(shared + c8.rand_pixels(rng, m, rng.randint(1, 5))))]]
        variant = VARIANTS[k % len(VARIANTS)]
        case = dict(scenario='files', m=m, A=itemsA, B=itemsB, variant=variant)
        try:
            probs = file_scenario(ctx, m, itemsA, itemsB, variant, tmp)
        except HistoryError:
            ctx.count('skipped: the history itself raised (see C08)')
            continue
        except Exception as e:
            probs = [('export-raises', 'file scenario raised %s: %s' % (type(e).__name__, e))]
        for what, detail in probs:
            if what not in seen:
                seen.add(what)
                ctx.fail('spec', case, detail, dict(site='regions.Region.load/save + MIMAS', what=what,
                                                    history_dependence=True, level_maxdepth_lost=False))
        ctx.count('file scenario ' + variant)
        ctx.case(case, nontrivial_key=None if probs else 'files %s' % json.dumps(case, sort_keys=True), sample_every=17)


def coincidence_regions(qmax=6, mmax=5):
    """multi-level regions exported BEFORE any query, with orders d and k <= d-2 populated by small pixel numbers
    chosen so that arithmetic slips on the ancestor relation (p//4*(d-k), p//4**(d-k-1), p//(4*(d-k)) ...) hit a
    stored pixel although p is not below it; a third order is populated too.  Both ways of building them: the
    normalising additions every caller uses (k >= 2: _renorm never merges into order 1) and raw add_pixels (the
    open finding C08-raw-add-pixels: whatever is stored must still be exported pixel for pixel), the latter also
    with genuine overlaps."""
    out = []
    for d in range(3, mmax + 1):
        m = d if d % 2 else min(mmax, d + 1)
        for k in range(1, d - 1):
            g = d - k
            for q in range(0, qmax):
                cands = set()
                if q % g == 0:
                    cands.update(4 * (q // g) + j for j in range(4))            # p//4*g == q
                cands.update(q * 4 * g + j for j in range(2))                   # p//(4*g) == q
                cands.update(q * 4 ** (g - 1) + j for j in range(2))            # p//4**(g-1) == q
                for p in sorted(cands):
                    if p >= 12 * 4 ** d or p // 4 ** g == q:
                        continue
                    third = (d - 1 if d - 1 != k else d, 12 * 4 ** (d - 1) - 1 - q)
                    if k >= 2:
                        out.append((m, [['N', k, [q]], ['N', d, [p]], ['N', third[0], [third[1]]]]))
                    out.append((m, [['A', k, [q]], ['A', d, [p]], ['A', third[0], [third[1]]]]))
        # genuine overlap, un-normalised: order-k pixel q and one of its own descendants at order d
        out.append((d, [['A', 1, [2]], ['A', d, [2 * 4 ** (d - 1) + 1]], ['A', 2, [40]]]))
    seen, uniq = set(), []
    for c in out:
        key = json.dumps(c)
        if key not in seen:
            seen.add(key)
            uniq.append(c)
    return uniq


def gen_cases(ctx, n):
    rng = ctx.rng
    cases = list(specials())
    while len(cases) < len(specials()) + n:
        m, items = c8.rand_history(rng, False)
        items = [it for it in items if it[0] not in c8.FILE_KINDS]     # C12 exports one object; files are C08's
        x = rng.random()
        if x < 0.3:
            items = items + [['D']]
        elif x < 0.5:
            items = items + [['Q', [rng.randrange(12 * 4 ** m)]]]
        cases.append((m, items))
    return cases


def run_cases(ctx, cases, thorough):
    tmp = ctx.tmpdir()
    results = []
    seen0 = set()
    for k, (m, items) in enumerate(cases):
        try:
            r, probs = export_checks(ctx, m, items, tmp, str(k),
                                     do_reg=True,
                                     via_mimas=(thorough and k % 5 == 4))
        except HistoryError:
            ctx.count('skipped: the history itself raised (see C08)')
            continue
        except Exception as e:
            if 'export-raises' not in seen0:
                seen0.add('export-raises')
                ctx.fail('spec', dict(m=m, items=items), 'export raised %s: %s' % (type(e).__name__, e),
                         dict(site='regions.Region', what='export-raises'))
            ctx.case(dict(m=m, items=items))
            continue
        results.append((m, items, r, probs))
    # the Lean model's `uniq` on the model state of the same history
    lines_ok = ctx.driver_ok
    mstates, uout = None, None
    if lines_ok:
        d8 = common.Driver('C08')
        save = ctx.driver
        ctx.driver = d8
        try:
            mrecs = c8.model_lines(ctx, [(m, items) for m, items, _, _ in results])
        finally:
            ctx.driver = save
        mstates = [(x[-1][1] if x else 'm%d c0' % m) for (m, _, _, _), x in zip(results, mrecs)]
        uout = ctx.driver.batch(['uniq ' + c8.enc_region(st) for st in mstates])
    seen = set()
    for i, (m, items, r, probs) in enumerate(results):
        case = dict(m=m, items=items)
        bad = False
        for what, detail in probs:
            bad = True
            if what not in seen:
                seen.add(what)
                its = shrink(ctx, m, items, what)
                ctx.fail('spec', dict(m=m, items=its), detail if its == items else recheck(ctx, m, its, what, detail),
                         dict(site='regions.Region', what=what,
                              level_maxdepth_lost=bool(what == 'moc-pixels' and 'missing (level, pixel): [(%d,' % m in detail)))
        if uout is not None:
            impl_uniq = ' '.join(str(int(u)) for u in r._uniq())
            mu, mo, mdec, mcount = uout[i].split(';')
            if c8.state_str(r) != mstates[i]:
                pass      # a C08 matter (reported by ./check C08); the export comparison below still uses the model state
            elif impl_uniq != mu:
                bad = True
                if 'uniq' not in seen:
                    seen.add('uniq')
                    ctx.fail('corr', case, '_uniq() = [%s] but the model (regenerated encoder and loop range) gives [%s]'
                             % (impl_uniq[:200], mu[:200]), dict(site='regions.Region._uniq', what='model-differs'))
            elif int(mo) != m:
                ctx.fail('corr', case, 'model MOCORDER %s' % mo, dict(site='Model.C12', what='mocorder'))
        ctx.count('depth %d' % m)
        ctx.case(case if len(json.dumps(items)) < 500 else dict(m=m, n=len(items)),
                 nontrivial_key=None if bad else nontrivial(r, m, items), sample_every=37)


def fails_with(ctx, m, items, what):
    try:
        _, probs = export_checks(ctx, m, items, ctx.tmpdir(), 'shrink', do_reg=(what == 'reg-polygons'))
    except Exception:
        return False, None
    for w, d in probs:
        if w == what:
            return True, d
    return False, None


def shrink(ctx, m, items, what):
    cur = list(items)
    changed = True
    while changed and len(cur) > 1:
        changed = False
        for i in range(len(cur)):
            cand = cur[:i] + cur[i + 1:]
            if fails_with(ctx, m, cand, what)[0]:
                cur, changed = cand, True
                break
    for i, it in enumerate(cur):
        if it[0] in ('A', 'N') and len(it[2]) > 1:
            ps = list(it[2])
            j = 0
            while j < len(ps) and len(ps) > 1:
                cand = cur[:i] + [[it[0], it[1], ps[:j] + ps[j + 1:]]] + cur[i + 1:]
                if fails_with(ctx, m, cand, what)[0]:
                    ps = ps[:j] + ps[j + 1:]
                    cur = cand
                else:
                    j += 1
    return cur


def recheck(ctx, m, items, what, detail):
    ok, d = fails_with(ctx, m, items, what)
    return d if ok else detail


def translator_selfcheck(ctx):
    """Gen.C12.encode / levels evaluated by the driver against the Python expressions they came from"""
    if not ctx.driver_ok:
        return
    from AegeanTools.regions import Region
    pts = [(d, x) for d in (1, 2, 5, 12) for x in (0, 1, 12 * 4 ** d - 1)]
    outs = ctx.driver.batch(['enc %d %d' % p for p in pts] + ['levels %d' % m for m in (1, 2, 5)])
    for (d, x), o in zip(pts, outs):
        r = Region(d)
        r.add_pixels([x], d)
        u = r._uniq()
        # (on a tree whose loop skips level d the list is empty: that is a property matter, not a translator one)
        if u and str(int(u[0])) != o:
            ctx.fail('corr', dict(d=d, x=x), 'regenerated encoder gives %s, _uniq gives %s' % (o, u[0]),
                     dict(site='translator', what='encoder'))
        ctx.count('translator-selfcheck')


def debug_slice(ctx):
    """the exporters (write_fits, write_reg, save/load, mim2fits, mim2reg) and a sample of histories again with the
    root and 'Aegean' loggers at DEBUG: the files must describe the region exactly as at the default level"""
    tmp = ctx.tmpdir()
    cases = specials() + edge_regions(ctx, False)[:3] + coincidence_regions(3, 4)[:6]
    for _ in range(8):
        m, items = c8.rand_history(ctx.rng, False)
        cases.append((m, [it for it in items if it[0] not in c8.FILE_KINDS]))
    seen = set()
    with c8.debug_logging():
        for k, (m, items) in enumerate(cases):
            case = dict(m=m, items=items, env='logging-debug')
            try:
                _, probs = export_checks(ctx, m, items, tmp, 'dbg%d' % k, do_reg=True, via_mimas=(k % 3 == 2))
            except HistoryError:
                continue
            except Exception as e:
                probs = [('export-raises', 'export raised %s: %s' % (type(e).__name__, e))]
            for what, detail in probs:
                if what not in seen:
                    seen.add(what)
                    ctx.fail('spec', case, '[DEBUG logging] ' + detail,
                             dict(site='regions.Region', what=what, env='logging-debug', level_maxdepth_lost=False))
            ctx.count('debug-logging slice')
            ctx.case(case, nontrivial_key=None if probs else 'debug m%d %s' % (m, json.dumps(items, sort_keys=True)))
        for k in range(3):
            m = 4
            A = [['N', 3, c8.rand_pixels(ctx.rng, 3, 4)]]
            B = [['N', 4, c8.rand_pixels(ctx.rng, 4, 4)]]
            case = dict(scenario='files', m=m, A=A, B=B, variant=VARIANTS[k], env='logging-debug')
            try:
                probs = file_scenario(ctx, m, A, B, VARIANTS[k], tmp)
            except HistoryError:
                continue
            for what, detail in probs:
                if ('f', what) not in seen:
                    seen.add(('f', what))
                    ctx.fail('spec', case, '[DEBUG logging] ' + detail,
                             dict(site='regions.Region.load/save + MIMAS', what=what, env='logging-debug',
                                  level_maxdepth_lost=False))
            ctx.count('debug-logging slice')


def strict_numpy_slice(ctx):
    """exporters with numpy floating-point errors raised instead of warned (np.errstate(all='raise'), as a caller's
    np.seterr would do) on regions that hold the pixels touching both celestial poles, the equator strip and RA 0:
    every file must be complete and describe the region as in the default state"""
    hp = c8.hp_()
    tmp = ctx.tmpdir()
    cases = [(1, [['N', 1, list(range(48))]])]
    for m in (2, 3, 6, 9):
        th = np.array([1e-9, np.pi - 1e-9, 1e-9, np.pi - 1e-9, np.pi / 2 + 0.004, 0.7])
        ph = np.array([0.3, 2.0, 4.0, 5.5, 1e-7, 6.283])
        pix = sorted(set(int(x) for x in hp.ang2pix(2 ** m, th, ph, nest=True)))
        cases.append((m, [['N', m, pix]]))
        cases.append((m, [['N', m, pix], ['D']]))
    seen = set()
    for k, (m, items) in enumerate(cases):
        case = dict(m=m, items=items, env='numpy-errstate-raise')
        try:
            with np.errstate(all='raise'):
                _, probs = export_checks(ctx, m, items, tmp, 'strict%d' % k, do_reg=True, via_mimas=(k % 2 == 1))
        except HistoryError:
            continue
        except Exception as e:
            probs = [('export-raises', 'export raised %s: %s' % (type(e).__name__, e))]
        for what, detail in probs:
            if what not in seen:
                seen.add(what)
                ctx.fail('spec', case, "[np.errstate(all='raise')] " + detail,
                         dict(site='regions.Region', what=what, env='numpy-errstate-raise', level_maxdepth_lost=False))
        ctx.count('numpy-errstate slice')
        ctx.case(case, nontrivial_key=None if probs else 'strict m%d %s' % (m, json.dumps(items)))


def run(ctx):
    common.use_repo()
    translator_selfcheck(ctx)
    cases = gen_cases(ctx, 40 if ctx.quick else 400) + edge_regions(ctx, not ctx.quick)
    cases += coincidence_regions(5, 5) if ctx.quick else coincidence_regions(12, 7)
    run_cases(ctx, cases, not ctx.quick)
    run_file_scenarios(ctx, 25 if ctx.quick else 200)
    debug_slice(ctx)
    strict_numpy_slice(ctx)


def search(ctx):
    common.use_repo()
    if any(f['kind'] == 'spec' for f in ctx.failures):
        return
    saved = ctx.driver_ok
    ctx.driver_ok = False          # implementation vs Spec only
    try:
        run_cases(ctx, gen_cases(ctx, 60) + edge_regions(ctx, False) + coincidence_regions(8, 6), False)
        run_file_scenarios(ctx, 25)
        debug_slice(ctx)
        strict_numpy_slice(ctx)
    finally:
        ctx.driver_ok = saved


def replay(ctx, rec):
    import contextlib
    common.use_repo()
    c = rec['case']
    with (c8.debug_logging() if c.get('env') == 'logging-debug' else
          np.errstate(all='raise') if c.get('env') == 'numpy-errstate-raise' else contextlib.nullcontext()):
        replay_inner(ctx, rec, c)


def replay_inner(ctx, rec, c):
    if c.get('scenario') == 'files':
        for what, detail in file_scenario(ctx, c['m'], c['A'], c['B'], c['variant'], ctx.tmpdir()):
            ctx.fail('spec', c, detail, dict(site='regions.Region.load/save + MIMAS', what=what, history_dependence=True,
                                             level_maxdepth_lost=False))
        ctx.case(c)
        return
    if 'items' not in c:
        translator_selfcheck(ctx)
        return
    _, probs = export_checks(ctx, c['m'], c['items'], ctx.tmpdir(), 'replay')
    for what, detail in probs:
        ctx.fail('spec', c, detail, dict(site='regions.Region', what=what))
    ctx.case(c)
