"""
C03 — correspondence + Spec evaluation + failing-input search for "every output catalogue is
internally consistent and reproducible".

run(ctx):   synthetic images (Gaussians on a SIN WCS; forced rms/bkg, one run with the internal BANE)
            with 0 … hundreds of islands, blends, 1–6 pixel islands, negative sources, a low-threshold
            noise field; modes blind / blind+doislandflux / max_summits / priorized stage 1–3 with
            > 20 groups, regroup on/off.  For every catalogue:
              * Spec (Lean, `Spec.C03`): `row` on every component row (ranges, flags < 128, every
                uncertainty > 0 finite or −1, strings vs decimals, int_flux identity), `idsok`
                (unique pairs, 0..n−1), `uu` (uuids), island rows vs component rows and detected pixels;
              * Model (Lean, `Model.C03`): predicted (island, source) lists (`blind`, `refit` with the
                regenerated istart/group_size), predicted flag words (`flagisl`, `flagr`), the decision
                logic of `fitting.errors` (`err`), `err_int_flux` (`eint`), island summary (`isl`),
                `pa_limit`/`fix_shape`/RA wrap on random floats;
              * reproducibility: the run is repeated in-process and (a subset) in a fresh process and
                the canonical rows are diffed modulo uuid;
              * `save_catalog` → `load_table` read-back for the string-vs-decimal clause.
search(ctx): priorized runs with 21 … 45 isolated sources (the smallest inputs on which the batch
            start matters), plus direct calls of `fitting.errors` on every class of stderr.
"""
import os

os.environ.setdefault('TQDM_DISABLE', '1')
for _v in ('OMP_NUM_THREADS', 'OPENBLAS_NUM_THREADS', 'MKL_NUM_THREADS', 'NUMEXPR_NUM_THREADS'):
    os.environ[_v] = '1'      # island fits are tiny; BLAS threads on a shared box cost 50x

import copy      # noqa: E402
import json      # noqa: E402
import logging   # noqa: E402
import math      # noqa: E402
import subprocess  # noqa: E402
import sys       # noqa: E402
import warnings  # noqa: E402

import numpy as np  # noqa: E402

sys.path.insert(0, os.path.dirname(os.path.abspath(__file__)))
import common  # noqa: E402

LEVEL = 'proof'
LEANCHECKER = True
RULE = ("a case is one (image, mode, options) run of the real find_sources_in_image / priorized_fit_islands, or one "
        "direct call of fitting.errors / pa_limit / fix_shape; every catalogue row of every run is judged by the Lean "
        "Spec; non-trivial = a run whose catalogue has >= 1 multi-component island or >= 1 small-island flag or > 20 "
        "priorized groups, or an errors() call with a non-positive / non-finite stderr; distinct by (scenario, mode, "
        "options, seed)")
ASSUMPTIONS = [
    "lmfit/MINPACK terminate on the island fits (observed, not proved); their results enter the model only through "
    "errorbars/success/stderr, which the harness records at the call boundary",
    "astropy.wcs pix2sky returns dec in [-90, 90] and ra in [-360, 360); b > 0 comes from the fitted sy > 0 (bounds)",
    "uuid4 does not repeat (uuids are the only non-functional output; everything else is diffed bit for bit)",
    "the hand model (numbering, flags, error masking, summary) is tied to the code by this sampled correspondence; "
    "istart and group_size are regenerated from source on every run",
    "C04's two repairs (dmdtheta*pi/180, covar_errors j=0) and C17's sexagesimal carry belong to other properties; "
    "a seconds field of exactly 60.00 that still denotes the right angle is counted, not failed, while C17's fix is absent",
]
TRUSTED = ["Gen.C03.istart / Gen.C03.groupSize regenerated from source_finder.priorized_fit_islands by py2lean.py (int mode) "
           "through the ast slice in translator/targets/C03.py",
           "Gen.C03.paUp*/paDown*/fix*/raWrap*/intFluxG/beamAreaG and the comparison-kind literals regenerated from pa_limit, fix_shape, "
           "result_to_components and WCSHelper.get_beamarea_pix through the ast slices in translator/targets/C03.py; the loops and "
           "branches are re-assembled in Model/C03Gen.lean and run by the driver (palimit / fixshape / rawrap ops, bit-exact)",
           "Gen.C03.flag* (flags.py), estimateIsFlagG / summitFlagG / fitIsFlagG / componentFlagsG / refitMarkG / errMaskG regenerated from "
           "estimate_lmfit_parinfo, _fit_island, result_to_components, _refit_islands and fitting.errors (int mode + `|`, `&`); glue "
           "blindIslandFlagsG / refitFlagsG in Model/C03Gen.lean, run by the driver's flagisl / flagr ops on every island and refitted row"]
PARTIAL = [
    "catalogue_consistent_partial: 'fitting completes on every valid image' (optimiser termination), b > 0, |dec| <= 90 "
    "(third-party WCS), strings agree with decimals (C17), int_flux within 1 % on a non-uniform grid, IEEE rounding of the "
    "range helpers, and run-to-run reproducibility of the numerics are not theorems: they are evaluated by Spec.C03 on "
    "every row of every catalogue the harness makes the real code produce, and by the in-process / fresh-process diff",
]

HERE = os.path.abspath(__file__)
F = common.f2h

# ------------------------------------------------------------------------------------------------
# images
# ------------------------------------------------------------------------------------------------


def make_header(n, cd=1 / 360., bmaj=4.0, bmin=3.0, bpa=20., ra0=150.0, dec0=-30.0, proj='SIN', crpix_off=(0.0, 0.0)):
    """`crpix_off`: offset (pixels) of the projection's reference pixel from the image centre — a cut-out of a
    wide mosaic has it far outside the image, where the local pixel->sky scale differs from CDELT"""
    from astropy.io import fits
    h = fits.Header()
    h['SIMPLE'] = True
    h['BITPIX'] = -32
    h['NAXIS'] = 2
    h['NAXIS1'] = n
    h['NAXIS2'] = n
    h['CTYPE1'] = 'RA---' + proj
    h['CTYPE2'] = 'DEC--' + proj
    h['CRVAL1'] = ra0
    h['CRVAL2'] = dec0
    h['CRPIX1'] = n / 2 + crpix_off[0]
    h['CRPIX2'] = n / 2 + crpix_off[1]
    h['CDELT1'] = -cd
    h['CDELT2'] = cd
    h['BMAJ'] = bmaj * cd
    h['BMIN'] = bmin * cd
    h['BPA'] = bpa
    h['BUNIT'] = 'Jy/beam'
    return h


def render(n, srcs):
    from AegeanTools import fitting
    x, y = np.indices((n, n))
    img = np.zeros((n, n))
    for (x0, y0, amp, sx, sy, th) in srcs:
        lo_x, hi_x = max(0, int(x0 - 6 * max(sx, sy))), min(n, int(x0 + 6 * max(sx, sy)) + 1)
        lo_y, hi_y = max(0, int(y0 - 6 * max(sx, sy))), min(n, int(y0 + 6 * max(sx, sy)) + 1)
        sl = (slice(lo_x, hi_x), slice(lo_y, hi_y))
        img[sl] += fitting.elliptical_gaussian(x[sl], y[sl], amp, x0, y0, sx, sy, th)
    return img


def step_maps(spec):
    """image, rms map and bkg map of a field that straddles a step in the noise (column 60: rms 1.0 | 1.45) on a
    sloping background.  Blended pairs straddle the step with the BRIGHTER peak on the noisy side below the seed
    clip (peak SNR 4.8) and the fainter one on the quiet side above it (SNR 6), joined above the flood clip; plus
    isolated sources on both sides and a negative pair."""
    n = 120
    rng = np.random.default_rng(spec['seed'])
    x, y = np.indices((n, n))
    sig = 5.0 / (2 * math.sqrt(2 * math.log(2)))

    def g(amp, r0, c0):
        return amp * np.exp(-((x - r0) ** 2 + (y - c0) ** 2) / (2 * sig ** 2))
    img = rng.normal(0, 0.03, (n, n))
    for k, r0 in enumerate((20, 50, 80)):
        sgn = -1.0 if k == 2 else 1.0
        img += sgn * (g(6.0, r0, 56.5) + g(7.0, r0, 62.0))
    for (amp, r0, c0) in ((12.0, 15, 20.0), (9.0, 100, 30.0), (15.0, 40, 95.0), (-14.0, 100, 100.0), (8.0, 105, 62.0),
                          (7.0, 60, 22.0), (-11.0, 64, 22.0),          # positive source on a deeper negative bowl, 4 rows apart
                          (13.0, 62, 100.0), (-9.0, 66, 100.0)):       # ... and on a shallower one
        img += g(amp, r0, c0)
    rms = np.ones((n, n))
    rms[:, 60:] = 1.45
    bkg = 0.002 * x + 0.1
    return (img + bkg).astype(np.float32), rms.astype(np.float32), bkg.astype(np.float32)


def image_spec(kind, seed, nside, ra0=150.0, dec0=-30.0):
    """a small JSON-able recipe; `build_image` turns it into pixels deterministically"""
    return dict(kind=kind, seed=seed, nside=nside, ra0=ra0, dec0=dec0)


def build_image(spec):
    """returns float32 image.  kinds:
       grid    nside x nside cells of 40 px, one source per cell (some negative, some blended pairs,
               some cells holding a 1-6 pixel island instead)
       empty   zeros
       noise   smoothed Gaussian noise (to be searched at low thresholds)
    """
    rng = np.random.default_rng(spec['seed'])
    k = spec['nside']
    cell = 40
    n = max(64, k * cell)
    if spec['kind'] == 'empty':
        return np.zeros((n, n), dtype=np.float32), n
    if spec['kind'] == 'big':     # one island of > 1000 pixels (and a few compact sources)
        n = 160
        srcs = [(80.3, 79.6, 50.0, 6.0, 5.0, 30.0), (20.0, 20.0, 3.0, 2.0, 1.5, 0.0), (140.0, 30.0, -2.0, 1.8, 1.4, 40.0)]
        return (render(n, srcs) * spec.get('scale', 1.0)).astype(np.float32), n
    if spec['kind'] == 'step':    # mosaic-tile boundary: see step_maps()
        n = 120
        img, _, _ = step_maps(spec)
        return img, n
    if spec['kind'] == 'psfmap':  # compact sources and blends that straddle the cell boundaries (rows / columns 32, 64, 96) of
        n = 128                   # a coarse 4 x 4 psf map (written next to the image, imgpsf=)
        srcs = [(30.0, 30.0, 6.0, 2.0, 1.6, 30.0), (100.0, 30.0, -4.5, 1.9, 1.7, -50.0), (30.0, 100.0, 7.5, 2.2, 1.6, 10.0),
                (100.0, 100.0, 3.5, 1.8, 1.6, 70.0),
                (43.6, 64.2, 10.0, 1.9, 1.7, 15.0), (50.3, 63.8, 7.0, 1.9, 1.7, 15.0),        # blend along x, on the y = 64 boundary
                (61.0, 20.0, 8.0, 1.9, 1.6, 40.0), (67.5, 21.0, 6.0, 1.8, 1.6, -20.0),        # blend across x = 64
                (80.0, 93.0, 6.0, 1.8, 1.6, 0.0), (80.5, 99.5, 9.0, 1.9, 1.7, 60.0),          # blend across y = 96
                (31.0, 60.0, -5.0, 1.8, 1.6, 0.0), (33.5, 66.0, -8.0, 1.9, 1.7, 30.0)]        # negative blend on the corner (32, 64)
        return (render(n, srcs) * spec.get('scale', 1.0)).astype(np.float32), n
    if spec['kind'] == 'mixed':   # mixed-sign islands (islands are flooded on |SNR|): a positive source touching a DEEPER
        # negative bowl, a positive source touching a SHALLOWER negative bowl, the same two along the other axis, an
        # all-negative blend and two ordinary sources
        n = 120
        srcs = [(30.0, 30.0, 5.0, 1.7, 1.7, 0.0), (33.0, 30.0, -8.0, 1.7, 1.7, 0.0),
                (30.0, 80.0, 8.0, 1.7, 1.7, 0.0), (33.2, 80.0, -5.0, 1.7, 1.7, 0.0),
                (80.0, 30.0, 4.0, 1.8, 1.5, 20.0), (80.0, 33.5, -9.0, 1.8, 1.5, 70.0),
                (80.0, 80.0, -6.0, 1.7, 1.7, 0.0), (80.0, 76.5, 7.5, 1.7, 1.7, 0.0),
                (100.0, 55.0, -6.0, 2.0, 1.5, 10.0), (104.5, 57.0, -3.0, 1.8, 1.4, 60.0),
                (15.0, 100.0, 3.0, 1.7, 1.5, 0.0), (55.0, 55.0, -4.0, 1.7, 1.5, 45.0)]
        return (render(n, srcs) * spec.get('scale', 1.0)).astype(np.float32), n
    if spec['kind'] == 'pair':    # one positive, one negative, one negative blend, asymmetric so that argmax != argmin pixel
        srcs = [(20.3, 30.6, 5.0, 2.2, 1.5, 25.0), (55.7, 24.2, -4.0, 2.4, 1.4, -35.0),
                (30.0, 60.0, -6.0, 2.0, 1.5, 10.0), (35.5, 63.0, -3.0, 1.8, 1.4, 60.0)]
        return (render(n, srcs) * spec.get('scale', 1.0)).astype(np.float32), n
    if spec['kind'] == 'noise':
        from scipy.ndimage import gaussian_filter
        img = gaussian_filter(rng.normal(0, 1, (n, n)), 1.4)
        img /= img.std()
        return img.astype(np.float32), n
    srcs, tiny = [], []
    for i in range(k):
        for j in range(k):
            cx, cy = cell * i + cell / 2, cell * j + cell / 2
            u = rng.uniform()
            sign = -1.0 if rng.uniform() < 0.2 else 1.0
            if u < 0.18:     # a tiny island of 1..6 pixels
                npx = int(rng.integers(1, 7))
                tiny.append((int(cx), int(cy), npx, sign * rng.uniform(0.6, 2.0)))
            elif u < 0.47 and u >= 0.40:   # a mixed-sign island: positive source touching a negative bowl (either deeper or shallower)
                deep = rng.uniform() < 0.5
                ang = rng.uniform(0, 2 * np.pi)
                pos_amp = rng.uniform(3, 6)
                neg_amp = -pos_amp * (1.6 if deep else 0.6)
                srcs.append((cx, cy, pos_amp, 1.7, 1.6, rng.uniform(-90, 90)))
                srcs.append((cx + 3.2 * np.cos(ang), cy + 3.2 * np.sin(ang), neg_amp, 1.7, 1.6, rng.uniform(-90, 90)))
            elif u < 0.40:   # a blend of two or three components
                m = 2 if rng.uniform() < 0.7 else 3
                for q in range(m):
                    srcs.append((cx + rng.uniform(-1, 1) + 4.5 * q - 3, cy + rng.uniform(-1, 1) + 3.0 * q - 2,
                                 sign * rng.uniform(2, 8), rng.uniform(1.6, 2.4), rng.uniform(1.2, 1.6),
                                 rng.uniform(-90, 90)))
            else:
                srcs.append((cx + rng.uniform(-4, 4), cy + rng.uniform(-4, 4), sign * rng.uniform(1, 10),
                             rng.uniform(1.5, 3.0), rng.uniform(1.2, 2.0), rng.uniform(-90, 90)))
    img = render(n, srcs)
    shapes = [[(0, 0)], [(0, 0), (0, 1)], [(0, 0), (1, 0), (0, 1)], [(0, 0), (1, 0), (0, 1), (1, 1)],
              [(0, 0), (1, 0), (0, 1), (1, 1), (2, 1)], [(0, 0), (1, 0), (2, 0), (0, 1), (1, 1), (2, 1)]]
    for (x, y, npx, amp) in tiny:
        for q, (dx, dy) in enumerate(shapes[npx - 1]):
            img[x + dx, y + dy] = amp * (1.0 - 0.05 * q)
    return (img * spec.get('scale', 1.0)).astype(np.float32), n


def write_image(ctx, spec, tag):
    from astropy.io import fits
    img, n = build_image(spec)
    path = os.path.join(ctx.tmpdir(), f'c03_{tag}.fits')
    data = img
    if spec.get('cube'):     # a 3-D file: plane 0 is something else, plane 1 (cube_index=1) is the image
        data = np.stack([np.flipud(img) * np.float32(0.7), img])
    with warnings.catch_warnings():
        warnings.simplefilter('ignore')
        fits.PrimaryHDU(data, make_header(n, ra0=spec.get('ra0', 150.0), dec0=spec.get('dec0', -30.0),
                                         **{k: (tuple(v) if k == 'crpix_off' else v) for k, v in spec.get('hdr', {}).items()})
                        ).writeto(path, overwrite=True)
        if spec['kind'] == 'psfmap':    # a coarse psf map over the image: planes a, b (degrees), pa; beam 15 % larger in
            ncell = 4                   # every other cell
            ih = make_header(n, ra0=spec.get('ra0', 150.0), dec0=spec.get('dec0', -30.0))
            ph = fits.Header()
            for k in ('CTYPE1', 'CTYPE2', 'CRVAL1', 'CRVAL2'):
                ph[k] = ih[k]
            ph['CRPIX1'] = ncell / 2.0 + 0.5
            ph['CRPIX2'] = ncell / 2.0 + 0.5
            ph['CDELT1'] = ih['CDELT1'] * n / ncell
            ph['CDELT2'] = ih['CDELT2'] * n / ncell
            psf = np.zeros((3, ncell, ncell), dtype=np.float32)
            for i in range(ncell):
                for j in range(ncell):
                    f = 1.0 + 0.15 * ((i + j) % 2)
                    psf[:, i, j] = ih['BMAJ'] * f, ih['BMIN'] * f, ih['BPA']
            fits.PrimaryHDU(psf, ph).writeto(path.replace('.fits', '_psf.fits'), overwrite=True)
        if spec['kind'] == 'step':      # the noise and background maps go next to the image (rmsin= / bkgin=)
            _, rmsmap, bkgmap = step_maps(spec)
            hdr = make_header(n, ra0=spec.get('ra0', 150.0), dec0=spec.get('dec0', -30.0))
            fits.PrimaryHDU(rmsmap, hdr).writeto(path.replace('.fits', '_rms.fits'), overwrite=True)
            fits.PrimaryHDU(bkgmap, hdr).writeto(path.replace('.fits', '_bkg.fits'), overwrite=True)
    return path, img


# ------------------------------------------------------------------------------------------------
# running the real code, with recording wrappers at call boundaries (nothing in the repo is edited)
# ------------------------------------------------------------------------------------------------

def quiet_log():
    log = logging.getLogger('Aegean-verif-C03')
    log.setLevel(logging.CRITICAL)
    log.handlers = [logging.NullHandler()]
    log.propagate = False
    return log


class debug_logging:
    """everything at DEBUG (root logger, the 'Aegean' logger the library modules use, the finder's own logger), handlers
    silenced; restored on exit.  Code under `if log.isEnabledFor(DEBUG)` must not change any result."""

    def __init__(self, on):
        self.on = on

    def __enter__(self):
        if not self.on:
            return quiet_log()
        self.saved = []
        for name in (None, 'Aegean', 'dummy', 'Aegean-verif-C03-debug'):
            lg = logging.getLogger(name)
            self.saved.append((lg, lg.level, list(lg.handlers), lg.propagate))
            lg.handlers = [logging.NullHandler()]
            lg.setLevel(logging.DEBUG)
            if name is not None:
                lg.propagate = False
        return logging.getLogger('Aegean-verif-C03-debug')

    def __exit__(self, *a):
        if self.on:
            for lg, lvl, hs, pr in self.saved:
                lg.setLevel(lvl)
                lg.handlers = hs
                lg.propagate = pr
        return False


def xclass(v):
    if v is None:
        return 'none'
    try:
        v = float(v)
    except (TypeError, ValueError):
        return 'none'
    if v != v:
        return 'nan'
    if math.isinf(v):
        return 'inf'
    return 'pos' if v > 0 else ('zero' if v == 0 else 'neg')


class Recorder:
    """wraps source_finder.do_lmfit / errors and SourceFinder._fit_island / _refit_islands for one run"""

    def __init__(self):
        self.fits = []        # per _fit_island call: dict
        self.refits = []      # per _refit_islands call: dict(istart, sizes, rows)
        self.errs = []        # per errors() call
        self.dropped = []     # islands whose fit raised AegeanNaNModelError
        self._last_lm = None

    def install(self):
        from AegeanTools import source_finder as sfm
        from AegeanTools.exceptions import AegeanNaNModelError
        rec = self
        self._sfm = sfm
        self._orig = (sfm.do_lmfit, sfm.errors, sfm.SourceFinder._fit_island, sfm.SourceFinder._refit_islands)
        o_lm, o_err, o_fit, o_refit = self._orig

        def do_lmfit(*a, **k):
            try:
                res = o_lm(*a, **k)
            except AegeanNaNModelError:
                # the repaired code keeps the island and flags it FITERR: for the flag model this is a fit
                # without error bars
                rec._last_lm = dict(errorbars=False, success=False, nan_model=True)
                raise
            rec._last_lm = dict(errorbars=bool(getattr(res[0], 'errorbars', False)),
                                success=bool(getattr(res[0], 'success', False)))
            return res

        def errors(source, model, wcshelper):
            p = "c{0}_".format(source.source)
            pre = dict(flags=int(source.flags),
                       st={q: xclass(model[p + q].stderr) for q in ('amp', 'xo', 'yo', 'sx', 'sy', 'theta')},
                       raw_amp=model[p + 'amp'].stderr,
                       vary={q: bool(model[p + q].vary) for q in ('xo', 'yo', 'sx', 'sy', 'theta')},
                       xo=float(model[p + 'xo'].value), yo=float(model[p + 'yo'].value))
            try:
                ref = wcshelper.pix2sky([pre['xo'], pre['yo']])
                pre['ref_finite'] = bool(np.all(np.isfinite(ref)))
            except Exception:  # noqa: BLE001
                pre['ref_finite'] = False
            out = o_err(source, model, wcshelper)
            pre['out'] = {q: getattr(source, q) for q in ('err_peak_flux', 'err_ra', 'err_dec', 'err_pa', 'err_a',
                                                           'err_b', 'err_int_flux')}
            pre['vals'] = dict(int_flux=float(source.int_flux), peak=float(source.peak_flux), a=float(source.a),
                               b=float(source.b))
            pre['id'] = (int(source.island), int(source.source))
            rec.errs.append(pre)
            return out

        def _fit_island(self_, island_data):
            rec._last_lm = None
            entry = dict(isle=int(island_data.isle_num), i=np.array(island_data.i), offsets=[int(v) for v in island_data.offsets],
                         scalars=island_data.scalars, lm=None, n_out=None, raised=None)
            rec.fits.append(entry)
            try:
                out = o_fit(self_, island_data)
            except AegeanNaNModelError as e:
                entry['raised'] = 'AegeanNaNModelError'
                rec.dropped.append(entry['isle'])
                raise e
            entry['lm'] = rec._last_lm
            entry['n_out'] = len([s for s in out if hasattr(s, 'source')])
            entry['out'] = list(out)
            return out

        def _refit_islands(self_, group, stage, outerclip=None, istart=0):
            out = o_refit(self_, group, stage, outerclip, istart=istart)
            order, counts = [], {}
            for s in out:
                if s.island not in counts:
                    order.append(int(s.island))
                    counts[s.island] = 0
                counts[s.island] += 1
            rec.refits.append(dict(istart=int(istart), sizes=[len(g) for g in group],
                                   last_flags=[int(g[-1].flags) for g in group],
                                   isl_order=order, counts={int(k): v for k, v in counts.items()}))
            return out

        sfm.do_lmfit, sfm.errors = do_lmfit, errors
        sfm.SourceFinder._fit_island, sfm.SourceFinder._refit_islands = _fit_island, _refit_islands
        return self

    def remove(self):
        sfm = self._sfm
        sfm.do_lmfit, sfm.errors, sfm.SourceFinder._fit_island, sfm.SourceFinder._refit_islands = self._orig


def real_opts(opts, path=None):
    """JSON-able options -> keyword arguments (`beam_override` = [a, b, pa] in degrees -> beam=Beam(...);
    `maps` -> rmsin= / bkgin= files written next to the image; `outfile_buf` -> outfile=<text buffer>)"""
    o = dict(opts)
    o.pop('cube', None)
    o.pop('debug', None)
    if o.pop('maps', False):
        o['rmsin'] = path.replace('.fits', '_rms.fits')
        o['bkgin'] = path.replace('.fits', '_bkg.fits')
    if o.pop('psfmap', False):
        o['imgpsf'] = path.replace('.fits', '_psf.fits')
    o.pop('thread', None)
    if o.pop('outfile_buf', False):
        import io
        o['outfile'] = io.StringIO()
    if 'beam_override' in o:
        from AegeanTools.wcs_helpers import Beam
        o['beam'] = Beam(*o.pop('beam_override'))
    return o


def in_thread(flag, fn):
    """call fn() in the main thread, or (flag) in a worker thread as a GUI / web service would; exceptions propagate"""
    if not flag:
        return fn()
    import threading
    box = {}

    def work():
        try:
            box['out'] = fn()
        except BaseException as e:  # noqa: BLE001
            box['err'] = e
    t = threading.Thread(target=work, name='verif-C03-worker')
    t.start()
    t.join()
    if 'err' in box:
        raise box['err']
    return box['out']


def run_blind(path, opts, record=True):
    from AegeanTools.source_finder import SourceFinder
    rec = Recorder().install() if record else None
    try:
        with warnings.catch_warnings(), debug_logging(opts.get('debug', False)) as lg:
            warnings.simplefilter('ignore')
            sf = SourceFinder(log=lg)
            kw = dict(dict(nonegative=False, nopositive=False), **real_opts(opts, path))
            out = in_thread(opts.get('thread'), lambda: sf.find_sources_in_image(path, cores=1, **kw))
    finally:
        if rec:
            rec.remove()
    return out, rec, sf


def run_prior(path, catalogue, opts, record=True):
    from AegeanTools.source_finder import SourceFinder
    rec = Recorder().install() if record else None
    try:
        with warnings.catch_warnings(), debug_logging(opts.get('debug', False)) as lg:
            warnings.simplefilter('ignore')
            sf = SourceFinder(log=lg)
            mine = copy.deepcopy(catalogue)     # the caller-owned list of source objects handed to the API
            kw = real_opts(opts, path)
            out = in_thread(opts.get('thread'), lambda: sf.priorized_fit_islands(path, catalogue=mine, cores=1, **kw))
            # the input catalogue is the caller's: same objects, same order, same values afterwards
            sf._verif_mutated = None
            if len(mine) != len(catalogue):
                sf._verif_mutated = f"the list has {len(mine)} entries, had {len(catalogue)}"
            else:
                d = diff_canon(canon(mine), canon(catalogue))
                if d is None and [s.uuid for s in mine] != [s.uuid for s in catalogue]:
                    d = "uuids changed"
                sf._verif_mutated = d
    finally:
        if rec:
            rec.remove()
    return out, rec, sf


# ------------------------------------------------------------------------------------------------
# canonical form of a catalogue (everything except uuid; floats as bit patterns)
# ------------------------------------------------------------------------------------------------

CFLOAT = ['background', 'local_rms', 'ra', 'err_ra', 'dec', 'err_dec', 'peak_flux', 'err_peak_flux', 'int_flux',
          'err_int_flux', 'a', 'err_a', 'b', 'err_b', 'pa', 'err_pa', 'residual_mean', 'residual_std', 'psf_a', 'psf_b',
          'psf_pa']
IFLOAT = ['background', 'local_rms', 'ra', 'dec', 'peak_flux', 'int_flux', 'err_int_flux', 'eta', 'max_angular_size',
          'pa', 'area', 'beam_area']


def fnum(v):
    try:
        return F(float(v))
    except (TypeError, ValueError):
        return 'none'


def canon(sources):
    rows = []
    for s in sources:
        if hasattr(s, 'source'):
            rows.append(['C', int(s.island), int(s.source), int(s.flags), s.ra_str, s.dec_str] + [fnum(getattr(s, k)) for k in CFLOAT])
        else:
            rows.append(['I', int(s.island), int(s.components) if s.components == s.components else -1, int(s.flags),
                         s.ra_str, s.dec_str, int(s.pixels), int(s.x_width), int(s.y_width),
                         [int(v) for v in s.extent]] + [fnum(getattr(s, k)) for k in IFLOAT])
    return rows


def diff_canon(a, b):
    if len(a) != len(b):
        return f"{len(a)} rows vs {len(b)} rows"
    for k, (x, y) in enumerate(zip(a, b)):
        if x != y:
            cols = [i for i, (p, q) in enumerate(zip(x, y)) if p != q]
            return f"row {k} ({x[0]} {x[1]},{x[2]}) differs in columns {cols[:6]}"
    return None


# ------------------------------------------------------------------------------------------------
# judging one catalogue
# ------------------------------------------------------------------------------------------------

def c17_fixed():
    from AegeanTools.angle_tools import dec2dms
    return dec2dms(10.999999999) == '+11:00:00.00'


def okey(v):
    """order-preserving map float -> int (for the summary model, which only compares values)"""
    import struct
    b = struct.unpack('<q', struct.pack('<d', float(v)))[0]
    return b if b >= 0 else -(b & 0x7fffffffffffffff)


class Judge:
    """collects driver lines for a catalogue and interprets the answers"""

    def __init__(self, ctx, case):
        self.ctx, self.case = ctx, case
        self.lines, self.handlers = [], []

    def sub(self, case):
        """a judge for another case that shares this one's pending driver batch"""
        j = Judge(self.ctx, case)
        j.lines, j.handlers = self.lines, self.handlers
        return j

    def ask(self, line, handler):
        self.lines.append(line)
        self.handlers.append(handler)

    def flush(self):
        outs = self.ctx.driver.batch(self.lines) if self.lines else []
        for o, h in zip(outs, self.handlers):
            h(o)
        del self.lines[:]
        del self.handlers[:]

    def fail(self, kind, detail, sig, extra=None):
        c = dict(self.case)
        if extra:
            c.update(extra)
        self.ctx.fail(kind, c, detail, sig)


def judge_rows(J, comps, mode, filtered=False, exempt=None):
    """Spec on every component row + catalogue-level id/uuid clauses"""
    ctx = J.ctx
    c17 = c17_fixed()
    for s in comps:
        vals = [s.ra, s.dec, s.a, s.b, s.pa, s.peak_flux, s.int_flux, s.psf_a, s.psf_b, s.err_ra, s.err_dec,
                s.err_peak_flux, s.err_int_flux, s.err_a, s.err_b, s.err_pa]
        try:
            toks = [F(v) for v in vals]
        except (TypeError, ValueError):
            J.fail('spec', f"row ({s.island},{s.source}) holds a non-number: {vals}",
                   dict(site='catalogue-row', clause='non-numeric'), dict(row=[int(s.island), int(s.source)]))
            continue
        line = f"row {int(s.flags)} {s.ra_str or 'EMPTY'} {s.dec_str or 'EMPTY'} " + " ".join(toks)

        def h(o, s=s, vals=vals):
            if o == 'ok':
                return
            bad = o.split()[1:]
            if exempt is not None:
                # uncertainties of parameters the priorized stage does not fit are copies of the input row's (C05's clause),
                # not fit products: C03's "positive and finite or -1" does not speak about them
                ex = exempt(s)
                for b in [b for b in bad if b in ex]:
                    ctx.count('copied-uncertainty-not-judged (input row value ' + xclass(getattr(s, b)) + ')')
                bad = [b for b in bad if b not in ex]
            if not c17:
                known = [b for b in bad if b.endswith(':carry60')]
                for _ in known:
                    ctx.count('known-C17-carry60 (tolerated: C17 fix absent)')
                bad = [b for b in bad if b not in known]
            if not bad:
                return
            ctx.count('rows-violating-spec')
            errb = sorted(b for b in bad if b.startswith('err_'))
            J.fail('spec', f"{mode}: row ({s.island},{s.source}) flags={s.flags} violates {bad}: "
                   f"ra={s.ra} dec={s.dec} a={s.a} b={s.b} pa={s.pa} peak={s.peak_flux} int={s.int_flux} "
                   f"psf=({s.psf_a},{s.psf_b}) err(ra,dec,peak,int,a,b,pa)="
                   f"({s.err_ra},{s.err_dec},{s.err_peak_flux},{s.err_int_flux},{s.err_a},{s.err_b},{s.err_pa}) "
                   f"str=({s.ra_str},{s.dec_str})",
                   dict(site='catalogue-row', clause=('uncertainty' if errb and len(errb) == len(bad) else bad[0]),
                        **({'cls': sorted({xclass(getattr(s, e)) for e in errb})[0]} if errb else {})),
                   dict(row=[int(s.island), int(s.source)]))
        J.ask(line, h)
    pairs = [(int(s.island), int(s.source)) for s in comps]

    def hid(o):
        if o == 'ok' or (o == 'gap' and filtered):    # a polarity filter may remove components of a mixed-sign island
            return
        dups = sorted({p for p in pairs if pairs.count(p) > 1})[:6] if len(pairs) < 4000 else []
        J.fail('spec', f"{mode}: (island, source) pairs are not {'unique' if o == 'dup' else 'numbered 0..n-1'}: "
               f"{len(pairs)} rows, e.g. {dups}",
               dict(site='catalogue-ids', clause=o, mode=mode.split('[')[0]), dict(duplicates=[list(p) for p in dups]))
    J.ask("idsok " + " ".join(f"{i} {s}" for i, s in pairs), hid)

    def huu(o):
        if o != 'ok':
            J.fail('spec', f"{mode}: uuids are not unique", dict(site='catalogue-uuid', clause='dup'))
    J.ask("uu " + " ".join(str(s.uuid).replace(' ', '_') for s in comps), huu)


def independent_flood(truth, inner, outer_eff):
    """islands by an independent flood fill at the EFFECTIVE clips: |img - bkg| / rms >= outer_eff, 8-connected,
    kept when one of its pixels exceeds inner.  Returns (labels, {label: (npix, [xmin, xmax, ymin, ymax])})"""
    from scipy.ndimage import label as nd_label, find_objects as nd_find
    img, rms = truth
    snr = np.abs(img) / np.asarray(rms, dtype=np.float32)
    a = np.isfinite(snr) & (snr >= outer_eff)
    lab, n = nd_label(a, structure=np.ones((3, 3)))
    info = {}
    for k, sl in enumerate(nd_find(lab), start=1):
        own = lab[sl] == k
        if np.any(snr[sl][own] > inner):
            info[k] = (int(own.sum()), [sl[0].start, sl[0].stop, sl[1].start, sl[1].stop])
    return lab, info


def judge_blind(J, out, rec, sf, opts, label, truth=None):
    ctx = J.ctx
    comps = [s for s in out if hasattr(s, 'source')]
    isles = [s for s in out if not hasattr(s, 'source')]
    filtered = bool(opts.get('nopositive') or opts.get('nonegative'))
    judge_rows(J, comps, label, filtered)
    # --- the polarity filters keep exactly the rows of the other sign, in order
    produced = [s for f in rec.fits for s in (f.get('out') or [])]
    keep = [s for s in produced if not ((s.peak_flux > 0 and opts.get('nopositive')) or (s.peak_flux < 0 and opts.get('nonegative')))]
    if len(keep) != len(out) or any(x is not y for x, y in zip(keep, out)):
        J.fail('spec', f"{label}: the catalogue ({len(out)} rows) is not what the island fits produced ({len(produced)} rows) minus the "
               f"rows removed by nopositive={opts.get('nopositive', False)} / nonegative={opts.get('nonegative', False)} ({len(keep)} rows)",
               dict(site='find_sources_in_image', clause='polarity-filter'))
    all_comps = [s for s in produced if hasattr(s, 'source')]
    # --- islands that were dropped instead of flagged
    for isle in rec.dropped:
        J.fail('spec', f"{label}: island {isle} raised AegeanNaNModelError inside the fit and was dropped from the catalogue "
               "without a flagged row", dict(site='find_sources_in_image', clause='dropped-not-flagged'), dict(island=isle))
    # --- numbering vs model
    ncomps = [(f['n_out'] or 0) for f in rec.fits]
    want_ids = [f['isle'] for f in rec.fits]
    if want_ids != list(range(1, len(want_ids) + 1)):
        J.fail('corr', f"{label}: islands handed to _fit_island are numbered {want_ids[:8]}…, the model numbers them 1..N",
               dict(site='numbering', what='blind-isle-num'))
    pairs = [(int(s.island), int(s.source)) for s in all_comps]

    def hnum(o):
        model = o.split()[1:]
        got = [f"{i},{s}" for i, s in pairs]
        if model != got:
            J.fail('corr', f"{label}: (island, source) list differs from the model's: impl {got[:10]}… model {model[:10]}…",
                   dict(site='numbering', what='blind-rows'))
    J.ask("blind " + " ".join(str(n) for n in ncomps), hnum)
    # --- flags vs model
    byisle = {}
    for s in all_comps:
        byisle.setdefault(int(s.island), []).append(s)
    ms = opts.get('max_summits')
    for f in rec.fits:
        rows = byisle.get(f['isle'], [])
        if not rows:
            continue
        nn = int(np.isfinite(f['i']).sum())
        mshape = int(min(f['i'].shape))
        lm = f['lm'] or dict(errorbars=True, success=True)
        wcs = ["1" if all(np.isfinite([r.ra, r.dec, r.a, r.b, r.pa])) else "0" for r in rows]
        line = (f"flagisl {nn} {mshape} {-1 if ms is None else ms} {len(rows)} {int(lm['errorbars'])} {int(lm['success'])} "
                + " ".join(wcs))

        def hf(o, rows=rows, f=f, nn=nn, mshape=mshape, lm=lm):
            got = [int(r.flags) for r in rows]
            if o.split() != [str(g) for g in got]:
                J.fail('corr', f"{label}: island {f['isle']} ({nn} finite px, min side {mshape}, lmfit {lm}) flags {got}, "
                       f"model {o}", dict(site='flags', what='blind'), dict(island=f['isle']))
            for g in got:
                ctx.count(f'flag-word-{g}')
        J.ask(line, hf)
    # --- errors() decision logic vs model, err_int_flux
    judge_errors(J, rec, label)
    # --- island rows vs component rows and detected pixels
    if isles:
        rms = sf.global_data.rmsimg
        fit_by = {f['isle']: f for f in rec.fits}
        inner = opts.get('innerclip', 5)
        outer_eff = min(opts.get('outerclip', 4), inner)
        flood = independent_flood(truth, inner, outer_eff) if truth is not None else None
        for isl in isles:
            f = fit_by.get(int(isl.island))
            if f is None:
                J.fail('spec', f"{label}: island row {isl.island} has no detected island", dict(site='island-row', clause='orphan'))
                continue
            x0, x1, y0, y1 = f['offsets']
            idata = f['i']
            oc = f['scalars'][1]
            box = rms[x0:x1, y0:y1]
            m = np.isfinite(idata) & (np.abs(np.nan_to_num(idata)) - oc * box > 0)
            xs, ys = np.where(m)
            ncomp_rows = len(byisle.get(int(isl.island), []))
            if flood is not None:
                # the island row against an independent flood fill of the image at the effective clips
                ctx.count('island-rows-vs-independent-flood')
                try:
                    px, py = sf.global_data.wcshelper.sky2pix([isl.ra, isl.dec])
                    k = int(flood[0][int(round(px - 1)), int(round(py - 1))])
                except Exception:  # noqa: BLE001
                    k = 0
                want_f = flood[1].get(k)
                got_f = (int(isl.pixels), [int(v) for v in isl.extent])
                if want_f is None or got_f != (want_f[0], want_f[1]) or (int(isl.x_width), int(isl.y_width)) != \
                        (got_f[1][1] - got_f[1][0], got_f[1][3] - got_f[1][2]):
                    J.fail('spec', f"{label}: island row {isl.island} has pixels={isl.pixels} extent={got_f[1]} widths=({isl.x_width},"
                           f"{isl.y_width}); an independent flood fill at seed {inner} / flood {outer_eff} (innerclip={opts.get('innerclip', 5)}, "
                           f"outerclip={opts.get('outerclip', 4)}) gives {want_f} for the island containing the row's position",
                           dict(site='island-row', clause='independent-flood',
                                outer_gt_inner=bool(opts.get('outerclip', 4) > opts.get('innerclip', 5))),
                           dict(island=int(isl.island)))
            trip = " ".join(f"{x + x0} {y + y0} {okey(idata[x, y])}" for x, y in zip(xs, ys))

            def peak_position(isl, f, idata, m_px, m_py):
                """the pixel that contains the island row's (ra, dec) holds peak_flux (FITS pixel k = array index k-1,
                the convention of the component rows), and is the model's peak pixel"""
                ctx.count('island-rows-negative' if float(isl.peak_flux) < 0 else 'island-rows-positive')
                try:
                    px, py = sf.global_data.wcshelper.sky2pix([isl.ra, isl.dec])
                    ix, iy = int(round(px - 1)), int(round(py - 1))
                except Exception:  # noqa: BLE001
                    ix = iy = None
                x0_, x1_, y0_, y1_ = f['offsets']

                def val(ax, ay):
                    if ax is None or not (x0_ <= ax < x1_ and y0_ <= ay < y1_):
                        return None
                    return float(idata[ax - x0_, ay - y0_])
                here = val(ix, iy)
                vals_ = idata[np.isfinite(idata)]
                if vals_.size and vals_.max() > 0 > vals_.min():
                    ctx.count('island-rows-mixed-sign' + ('-negative-deeper' if -vals_.min() > vals_.max() else '-positive-higher'))
                if m_px != 'none':
                    # background and local_rms are those of the pixel that holds peak_flux (maps as loaded by the finder)
                    gd = sf.global_data
                    wb, wr = gd.bkgimg[int(m_px), int(m_py)], gd.rmsimg[int(m_px), int(m_py)]
                    if F(float(isl.background)) != F(float(wb)) or F(float(isl.local_rms)) != F(float(wr)):
                        J.fail('spec', f"{label}: island row {isl.island}: background={float(isl.background)!r} local_rms={float(isl.local_rms)!r}, "
                               f"but the background / rms maps at the peak pixel ({m_px},{m_py}) hold {float(wb)!r} / {float(wr)!r}",
                               dict(site='island-row', clause='background-rms-at-peak'), dict(island=int(isl.island)))
                if here is not None and F(here) == F(float(isl.peak_flux)) and m_px != 'none' and (ix, iy) == (int(m_px), int(m_py)):
                    return
                up = val(None if ix is None else ix + 1, None if iy is None else iy + 1)
                if up is not None and F(up) == F(float(isl.peak_flux)) and m_px != 'none' and (ix + 1, iy + 1) == (int(m_px), int(m_py)):
                    off = 'one-pixel-low (array index used as FITS pixel number)'
                else:
                    off = 'other'
                J.fail('spec', f"{label}: island row {isl.island} (peak_flux {float(isl.peak_flux)!r}) is positioned at ra={isl.ra!r} "
                       f"dec={isl.dec!r} = array pixel ({ix},{iy}), whose value is {here!r}; the detected pixel holding peak_flux is "
                       f"({m_px},{m_py}) [{off}]",
                       dict(site='island-row', clause='peak-position', offset=off,
                            **({'negative_island': bool(float(isl.peak_flux) < 0),
                                'mixed_sign': bool(vals_.size and vals_.max() > 0 > vals_.min())} if off == 'other' else {})),
                       dict(island=int(isl.island)))

            def hs(o, isl=isl, f=f, ncomp_rows=ncomp_rows, npx=len(xs), idata=idata):
                w = o.split()
                if w[0] == 'bad-op':
                    J.fail('corr', f"driver rejected the island summary request for island {isl.island}", dict(site='driver'))
                    return
                m_comp, m_pix, m_peak, m_xw, m_yw, inb, m_px, m_py = w
                peak_position(isl, f, idata, m_px, m_py)
                got = dict(components=int(isl.components), pixels=int(isl.pixels), peak=okey(isl.peak_flux),
                           x_width=int(isl.x_width), y_width=int(isl.y_width), extent=[int(v) for v in isl.extent])
                want = dict(components=int(m_comp), pixels=int(m_pix), peak=(None if m_peak == 'none' else int(m_peak)),
                            x_width=int(m_xw), y_width=int(m_yw), extent=list(f['offsets']))
                bad = [k for k in want if got[k] != want[k]]
                if inb != '1':
                    bad.append('pixels-outside-extent')
                if bad:
                    J.fail('spec', f"{label}: island row {isl.island} disagrees with its component rows / detected pixels in "
                           f"{bad}: row {got}, detected {want} ({ncomp_rows} component rows, {npx} pixels above the flood level)",
                           dict(site='island-row', clause=bad[0]), dict(island=int(isl.island)))
                if int(isl.flags) >= 128:
                    J.fail('spec', f"{label}: island row {isl.island} flags {isl.flags}", dict(site='island-row', clause='flags'))
            J.ask(f"isl {ncomp_rows} {x0} {x1} {y0} {y1} {trip}", hs)
            def hrd(o, isl=isl):
                if o != 'ok':
                    J.fail('spec', f"{label}: island row {isl.island} has ra={isl.ra!r} dec={isl.dec!r}: {o} out of range "
                           "(0 <= ra < 360, |dec| <= 90)", dict(site='island-row', clause=o), dict(island=int(isl.island)))
            J.ask(f"radec {F(isl.ra)} {F(isl.dec)}", hrd)
            # strings of island rows
            for sname, vname, scale in (('ra_str', 'ra', 15.0), ('dec_str', 'dec', 1.0)):
                def hstr(o, isl=isl, sname=sname, vname=vname):
                    if o == 'ok' or (o == 'carry60' and not c17_fixed()):
                        return
                    J.fail('spec', f"{label}: island row {isl.island} {sname}={getattr(isl, sname)} vs {vname}={getattr(isl, vname)}: {o}",
                           dict(site='island-row', clause=sname + ':' + o))
                J.ask(f"str {getattr(isl, sname) or 'EMPTY'} {F(getattr(isl, vname))} {F(scale)}", hstr)


def judge_errors(J, rec, label):
    """the decision logic of fitting.errors against Model.C03.errorsFixed (conversions taken as positive:
    the model then says exactly which fields must be −1 and which are computed), and err_int_flux numerically"""
    ctx = J.ctx
    for e in rec.errs:
        st, vary, out = e['st'], e['vary'], e['out']
        line = ("err fixed {fl} {amp} {xo} {yo} {sx} {sy} {th} {vp} {vs} {vt} {rf} pos pos pos pos pos pos".format(
            fl=e['flags'], amp=st['amp'], xo=st['xo'], yo=st['yo'], sx=st['sx'], sy=st['sy'], th=st['theta'],
            vp=int(vary['xo'] and vary['yo']), vs=int(vary['sx'] and vary['sy']), vt=int(vary['theta']), rf=int(e['ref_finite'])))
        names = ['err_peak_flux', 'err_ra', 'err_dec', 'err_pa', 'err_a', 'err_b', 'err_int_flux']

        def he(o, e=e, out=out, names=names, st=st):
            model = dict(zip(names, o.split()))
            bad = []
            for k in names:
                v = out[k]
                if model[k] == 'm1':
                    if not (v == -1):
                        bad.append(f"{k}={v} (model: -1)")
                elif k == 'err_peak_flux':
                    if not (v == e['raw_amp']):
                        bad.append(f"{k}={v} (model: the stderr of amp, {e['raw_amp']})")
                else:   # computed: a positive finite number, or -1 when the conversion itself failed
                    if not (v == -1 or (v > 0 and math.isfinite(v))):
                        bad.append(f"{k}={v} (model: computed and sanitised)")
                    elif v == -1:
                        ctx.count('errors: conversion masked by the sanitiser')
            cls = "/".join(st[q] for q in ('amp', 'xo', 'yo', 'sx', 'sy', 'theta'))
            ctx.count('errors-call stderr classes ' + cls)
            if bad:
                J.fail('corr', f"{label}: errors() for component {e['id']} flags={e['flags']} stderr classes {st} vary {e['vary']}: "
                       + "; ".join(bad), dict(site='fitting.errors', what='masking'), dict(row=list(e['id'])))
        J.ask(line, he)
        if all(isinstance(out[k], (int, float, np.floating, np.integer)) for k in names) and e['flags'] & 18 == 0 and e['ref_finite']:
            v = e['vals']
            line = "eint " + " ".join(F(x) for x in (v['int_flux'], v['peak'], out['err_peak_flux'], v['a'], out['err_a'],
                                                     v['b'], out['err_b']))

            def hi(o, e=e, out=out):
                got = float(out['err_int_flux'])
                if o == 'masked':
                    ok = got == -1
                else:
                    want = common.h2f(o)
                    # the repaired code sanitises a non-finite / non-positive value to -1
                    ok = common.close(got, want, rel=1e-9) or (got == -1 and not (want > 0 and math.isfinite(want)))
                if not ok:
                    J.fail('corr', f"{label}: err_int_flux of {e['id']} is {got}, model {o if o == 'masked' else common.h2f(o)}",
                           dict(site='fitting.errors', what='err_int_flux'), dict(row=list(e['id'])))
            J.ask(line, hi)


def judge_prior(J, out, rec, sf, opts, inp, label, fiterr_islands=()):
    ctx = J.ctx
    comps = [s for s in out if hasattr(s, 'source')]
    stage = opts.get('stage', 3)
    copied_fields = (['err_ra', 'err_dec'] if stage < 2 else []) + (['err_a', 'err_b', 'err_pa'] if stage < 3 else [])
    inp_by_uuid = {s.uuid: s for s in inp}

    def exempt(s):
        src = inp_by_uuid.get(s.uuid)
        if src is None:
            return set()
        return {k for k in copied_fields if F(getattr(s, k)) == F(getattr(src, k))}
    judge_rows(J, comps, label, exempt=exempt)
    # --- numbering vs model (regenerated istart / group_size)
    ncomp_groups, want_pairs = [], []
    for call in rec.refits:
        for j in range(len(call['sizes'])):
            ncomp_groups.append(call['counts'].get(call['istart'] + j, 0))
    pairs = sorted((int(s.island), int(s.source)) for s in comps)

    def hnum(o):
        model = sorted(tuple(int(v) for v in t.split(',')) for t in o.split()[1:])
        if model != pairs:
            d = [p for p in model if p not in pairs][:5], [p for p in pairs if p not in model][:5]
            J.fail('corr', f"{label}: (island, source) pairs differ from the model (regenerated istart): only-model {d[0]} "
                   f"only-impl {d[1]}; {len(rec.refits)} batches of sizes {[len(c['sizes']) for c in rec.refits]}",
                   dict(site='numbering', what='refit-rows'))
    J.ask("refit " + " ".join(str(n) for n in ncomp_groups), hnum)
    if any(len(c['sizes']) > 20 for c in rec.refits):
        J.fail('corr', f"{label}: a batch has more than 20 groups", dict(site='numbering', what='batch-size'))
    # --- uuids are those of the input rows; sorted output
    in_uu = {s.uuid for s in inp}
    if not all(s.uuid in in_uu for s in comps):
        J.fail('spec', f"{label}: a refitted row carries a uuid that is not in the input catalogue",
               dict(site='catalogue-uuid', clause='not-preserved'))
    byuu = {s.uuid: s for s in inp}
    # --- flags and copied errors (the island -> group map needs unique island numbers)
    ids_unique = len(set(pairs)) == len(pairs)
    for call in rec.refits:
        for j, lf in enumerate(call['last_flags']):
            isl = call['istart'] + j
            for s in [c for c in comps if int(c.island) == isl and c.uuid in byuu]:
                nf = not math.isfinite(float(s.peak_flux))
                wcs = all(np.isfinite([s.ra, s.dec, s.a, s.b, s.pa]))

                def hf(o, s=s, lf=lf):
                    if int(o) != int(s.flags):
                        J.fail('corr', f"{label}: refitted row ({s.island},{s.source}) flags {s.flags}, model {o} "
                               f"(input island flags {lf}, stage {stage})", dict(site='flags', what='refit'))
                    ctx.count(f'flag-word-{int(s.flags)}')
                if ids_unique:
                    lf_eff = lf | (2 if isl in fiterr_islands else 0)
                    J.ask(f"flagr {lf_eff} {int(nf)} {int(wcs)} {stage}", hf)
    for s in comps:
        src = byuu.get(s.uuid)
        if src is None:
            continue
        copied = (['err_ra', 'err_dec'] if stage < 2 else []) + (['err_a', 'err_b', 'err_pa'] if stage < 3 else [])
        bad = [k for k in copied if F(getattr(s, k)) != F(getattr(src, k))]
        if bad:
            J.fail('corr', f"{label}: stage {stage} row ({s.island},{s.source}) did not copy {bad} from the input row",
                   dict(site='copy-back', what='errors'))
    judge_errors(J, rec, label)


def nontrivial_key(label, comps, extra=None):
    multi = len({int(s.island) for s in comps}) < len(comps)
    small = any(int(s.flags) & 5 for s in comps)
    if multi or small or extra:
        return label
    return None


# ------------------------------------------------------------------------------------------------
# scenarios
# ------------------------------------------------------------------------------------------------

def rerun_and_diff(ctx, J, label, kind, path, opts, out, catalogue=None):
    """same input, same process, new SourceFinder: identical apart from uuids"""
    if kind == 'blind':
        out2, _, _ = run_blind(path, opts, record=False)
    else:
        out2, _, _ = run_prior(path, catalogue, opts, record=False)
    d = diff_canon(canon(out), canon(out2))
    ctx.count('rerun-in-process')
    if d:
        J.fail('spec', f"{label}: re-running on identical input in the same process gave a different catalogue: {d}",
               dict(site='reproducible', clause='in-process'))


def debug_rerun(ctx, J, label, kind, path, opts, out, catalogue=None):
    """the same run with every logger at DEBUG: bit-identical catalogue"""
    o = dict(opts, debug=True)
    try:
        if kind == 'blind':
            out2, _, _ = run_blind(path, o, record=False)
        else:
            out2, _, _ = run_prior(path, catalogue, o, record=False)
    except Exception as e:  # noqa: BLE001
        J.fail('spec', f"{label}: with logging at DEBUG the run aborts with {type(e).__name__}: {e}",
               dict(site='reproducible', what='logging-dependence', clause='aborts'))
        return
    ctx.count('debug-slice-runs')
    d = diff_canon(canon(out), canon(out2))
    if d:
        J.fail('spec', f"{label}: the same run with the loggers at DEBUG gives a different catalogue: {d}",
               dict(site='reproducible', what='logging-dependence', clause='differs'))


def thread_rerun(ctx, J, label, kind, path, opts, out, catalogue=None):
    """the same call from a worker thread: completes, bit-identical catalogue"""
    o = dict(opts, thread=True)
    try:
        if kind == 'blind':
            out2, _, _ = run_blind(path, o, record=False)
        else:
            out2, _, _ = run_prior(path, catalogue, o, record=False)
    except Exception as e:  # noqa: BLE001
        J.fail('spec', f"{label}: called from a worker thread the run aborts with {type(e).__name__}: {e}",
               dict(site='find_sources_in_image' if kind == 'blind' else 'priorized_fit_islands', clause='aborts',
                    exc=type(e).__name__, cause='called-from-a-non-main-thread'))
        return
    ctx.count('worker-thread-runs')
    d = diff_canon(canon(out), canon(out2))
    if d:
        J.fail('spec', f"{label}: the same run from a worker thread gives a different catalogue: {d}",
               dict(site='reproducible', what='thread-dependence', clause='differs'))


def child_run(ctx, J, label, job, out, sig=None, what='the same run in a fresh process', other_env=False):
    """same input in a fresh interpreter"""
    tmp = ctx.tmpdir()
    jf = os.path.join(tmp, f'job_{abs(hash(label)) % 10**8}.json')
    of = jf + '.out'
    with open(jf, 'w') as f:
        json.dump(job, f)
    env = dict(os.environ, AEGEAN_REPO=common.repo_path())
    pyflags = []
    if other_env:     # asserts compiled away, another time zone, a locale with unusual case/decimal rules
        pyflags = ['-O']
        env.update(TZ='Australia/Perth', LC_ALL='tr_TR.UTF-8', LANG='tr_TR.UTF-8')
        what += ' (python -O, TZ=Australia/Perth, LC_ALL=tr_TR.UTF-8)'
        ctx.count('rerun-fresh-process-other-environment')
    p = subprocess.run([sys.executable] + pyflags + [HERE, '--child', jf, of], stdout=subprocess.PIPE, stderr=subprocess.PIPE, text=True,
                       env=env, timeout=1800)
    ctx.count('rerun-fresh-process')
    if p.returncode != 0 or not os.path.exists(of):
        J.fail('spec', f"{label}: the same run in a fresh process failed: {p.stderr[-600:]}",
               dict(site='reproducible', clause='fresh-process-crash'))
        return
    got = json.load(open(of))
    d = diff_canon(json.loads(json.dumps(canon(out))), got)
    if d:
        J.fail('spec', f"{label}: {what} gave a different catalogue: {d}",
               sig or dict(site='reproducible', clause='fresh-process'))
    return got


def save_roundtrip(ctx, J, label, comps):
    """save_catalog -> load_table: the strings in the table agree with the decimals in the table"""
    from AegeanTools import catalogs
    if not comps:
        return
    tmp = ctx.tmpdir()
    for ext in ('csv', 'fits', 'vot'):
        base = os.path.join(tmp, f'cat_{abs(hash(label)) % 10**8}.{ext}')
        try:
            with warnings.catch_warnings():
                warnings.simplefilter('ignore')
                catalogs.save_catalog(base, copy.deepcopy(comps))
                fn = base.replace('.' + ext, '_comp.' + ext)
                tab = catalogs.load_table(fn)
        except Exception as e:  # noqa: BLE001
            J.fail('spec', f"{label}: save_catalog/load_table ({ext}) raised {type(e).__name__}: {e}",
                   dict(site='save_catalog', clause='raises', fmt=ext))
            continue
        ctx.count(f'table-readback-{ext}')
        if len(tab) != len(comps):
            J.fail('spec', f"{label}: table {ext} has {len(tab)} rows for {len(comps)} components",
                   dict(site='save_catalog', clause='rows', fmt=ext))
            continue
        for k in range(len(tab)):
            for sname, vname, scale in (('ra_str', 'ra', 15.0), ('dec_str', 'dec', 1.0)):
                sv = tab[sname][k]
                sv = sv.decode() if isinstance(sv, bytes) else str(sv)

                def hstr(o, k=k, sv=sv, sname=sname, vname=vname, ext=ext, val=float(tab[vname][k])):
                    if o == 'ok' or (o == 'carry60' and not c17_fixed()):
                        return
                    J.fail('spec', f"{label}: table {ext} row {k}: {sname}={sv!r} vs {vname}={val!r}: {o}",
                           dict(site='save_catalog', clause=sname + ':' + o, fmt=ext))
                # FITS tables hold the decimals in single precision (C18's concern): allow one float32 ulp
                slack = abs(float(tab[vname][k])) * 1.2e-7 if ext == 'fits' else 0.0
                J.ask(f"str {sv.strip() or 'EMPTY'} {F(float(tab[vname][k]))} {F(scale)} {F(slack)}", hstr)


def abort_cause(e, spec):
    """a small predicate over the minimised failing case, for known-findings matching"""
    if isinstance(e, ValueError) and 'has min == max' in str(e) and abs(spec.get('scale', 1.0)) < 1e-12:
        return 'lmfit-bounds-closer-than-1e-13 (pixel values below 1e-12)'
    return 'other'


def scenario_injected_nan(ctx, mode='blind'):
    """Fault injection at the optimiser boundary: the first island's do_lmfit raises AegeanNaNModelError (what the
    residual function does when lmfit wanders into NaN parameters).  The property wants a flagged row for that
    island ("flagging rather than aborting"); the pinned code drops it from the blind catalogue and aborts the
    whole priorized run."""
    from AegeanTools import source_finder as sfm
    from AegeanTools.exceptions import AegeanNaNModelError
    spec = dict(kind='grid', seed=424242, nside=2)
    forced = dict(rms=0.05, bkg=0.0)
    case = dict(scenario='injected-nan-model', mode=mode, image=spec, opts=dict(forced))
    J = Judge(ctx, case)
    path, _ = write_image(ctx, spec, 'inj')
    label = f"{mode}[injected-nan-model]"
    inp = None
    if mode == 'priorized':
        inp, _, _ = run_blind(path, forced, record=False)
        case['opts'] = dict(forced, stage=3, doregroup=False)
    orig = sfm.do_lmfit
    state = dict(n=0)

    def do_lmfit(*a, **k):
        state['n'] += 1
        if state['n'] == 1:
            raise AegeanNaNModelError("injected by corr_C03: lmfit optimisation has return NaN in the parameter set.")
        return orig(*a, **k)
    sfm.do_lmfit = do_lmfit
    site = 'find_sources_in_image' if mode == 'blind' else 'priorized_fit_islands'
    try:
        if mode == 'blind':
            out, rec, sf = run_blind(path, forced)
        else:
            out, rec, sf = run_prior(path, inp, case['opts'])
    except Exception as e:  # noqa: BLE001
        J.fail('spec', f"{label}: {site} aborted with {type(e).__name__}: {e}",
               dict(site=site, clause='aborts', exc=type(e).__name__, how='AegeanNaNModelError injected at do_lmfit'))
        ctx.case(case)
        return
    finally:
        sfm.do_lmfit = orig
    ctx.count('injected-nan-model-runs')
    if mode == 'blind':
        isles_fit = [f['isle'] for f in rec.fits]
        rows = {int(s.island) for s in out}
        first = rec.fits[0]['isle'] if rec.fits else None
        if first is not None and first not in rows:
            J.fail('spec', f"{label}: the fit of island {first} raised AegeanNaNModelError and the island was dropped: the "
                   f"catalogue has rows for islands {sorted(rows)} of {isles_fit}, none flagged for {first}",
                   dict(site=site, clause='dropped-not-flagged', how='AegeanNaNModelError injected at do_lmfit'),
                   dict(island=first))
        hitrows = [s for s in out if int(s.island) == first]
        judge_blind(J, out, rec, sf, forced, label)
    else:
        first = rec.refits[0]['istart'] if rec.refits else None
        hitrows = [s for s in out if int(s.island) == first]
        if len(out) != len(inp):
            J.fail('spec', f"{label}: {len(inp)} input sources, {len(out)} output rows: the group whose fit failed was dropped",
                   dict(site=site, clause='dropped-not-flagged', how='AegeanNaNModelError injected at do_lmfit'))
        judge_prior(J, out, rec, sf, case['opts'], inp, label, fiterr_islands={first})
    for s in hitrows:
        if not int(s.flags) & 2:
            J.fail('spec', f"{label}: island {s.island} whose fit failed has a row without FITERR (flags {s.flags})",
                   dict(site=site, clause='failed-fit-not-flagged'))
        ctx.count('rows flagged FITERR after an injected NaN model')
    J.flush()
    ctx.case(case, nontrivial_key=('injected-nan-model', mode))


def option_product(ctx):
    """rarely used option combinations of the blind finder as a product over small sets"""
    clips = [(5, 4), (4, 6), (5, 5), (6, 3.5)]            # incl. outerclip > innerclip (clamped by the code) and equal
    summits = [None, 0, 1, 2]
    isl = [True, False]
    blank = [False, True]
    pol = [dict(), dict(nopositive=True), dict(nonegative=True)]
    cube = [False, True]
    combos = []
    k = 0
    for c in clips:
        for m in summits:
            for d in isl:
                if ctx.quick:   # the other three dimensions cycle, so that every pair of values co-occurs somewhere
                    combos.append((c, m, d, blank[k % 2], pol[(k // 2 + k) % 3], cube[(k // 3) % 2]))
                    k += 1
                else:
                    for b in blank:
                        for pp in pol:
                            for cu in cube:
                                combos.append((c, m, d, b, pp, cu))
    return combos


def scenario_options(ctx):
    J = Judge(ctx, dict(scenario='options'))
    for n, (c, m, d, b, pp, cu) in enumerate(option_product(ctx)):
        spec = dict(image_spec('grid', 8500 + ctx.seed + n % 3, 3, ra0=(150.0, -10.0, 370.0, -359.5)[(n + n // 4) % 4]), cube=cu)
        opts = dict(rms=0.05, bkg=0.0, innerclip=c[0], outerclip=c[1], doislandflux=d, blank=b, **pp)
        if n % 5 == 2:
            opts['outfile_buf'] = True
        if m is not None:
            opts['max_summits'] = m
        if cu:
            opts['cube_index'] = 1
        scenario_blind(ctx, f'opt{n}', spec, opts, rerun=False, batch=J)
        ctx.count('option-product-runs')
    J.flush()


def scenario_reuse(ctx):
    """one catalogue (a list of source objects, loaded once) refitted twice on an image with another beam: the two
    runs have identical input, so identical output apart from uuids"""
    from AegeanTools.source_finder import SourceFinder
    spec_a = image_spec('grid', 8800 + ctx.seed, 2)
    spec_b = dict(spec_a, hdr=dict(bmaj=6.0, bmin=4.5, bpa=20.0))
    forced = dict(rms=0.05, bkg=0.0)
    opts = dict(forced, stage=1, doregroup=False)
    case = dict(scenario='reuse-catalogue', mode='priorized', image=spec_b, opts=opts, catalogue_from=spec_a)
    J = Judge(ctx, case)
    try:
        pa, _ = write_image(ctx, spec_a, 'reuseA')
        pb, _ = write_image(ctx, spec_b, 'reuseB')
        cat, _, _ = run_blind(pa, forced, record=False)
        cat = [s for s in cat if hasattr(s, 'source')]
        outs = []
        for _ in range(2):
            sf = SourceFinder(log=quiet_log())
            with warnings.catch_warnings():
                warnings.simplefilter('ignore')
                outs.append(sf.priorized_fit_islands(pb, catalogue=cat, cores=1, **opts))   # the SAME list both times
    except Exception as e:  # noqa: BLE001
        J.fail('spec', f"reuse-catalogue: aborted with {type(e).__name__}: {e}",
               dict(site='priorized_fit_islands', clause='aborts', exc=type(e).__name__))
        ctx.case(case)
        return
    d = diff_canon(canon(outs[0]), canon(outs[1]))
    if d:
        k = next((i for i, (x, y) in enumerate(zip(outs[0], outs[1])) if F(x.a) != F(y.a) or F(x.peak_flux) != F(y.peak_flux)), 0)
        x, y = outs[0][k], outs[1][k]
        J.fail('spec', f"reuse-catalogue: the same catalogue list refitted twice on the same image (stage 1) gives different catalogues: {d}; "
               f"e.g. row ({x.island},{x.source}): a {x.a!r} -> {y.a!r}, b {x.b!r} -> {y.b!r}, peak_flux {x.peak_flux!r} -> {y.peak_flux!r}",
               dict(site='reproducible', what='history-dependence', clause='same-catalogue-object-twice',
                    cause='input-catalogue-modified-in-place' if F(x.a) != F(y.a) else 'other'))
    ctx.count('reuse-catalogue-runs')
    ctx.case(case, nontrivial_key=('reuse-catalogue', ctx.seed))


def scenario_history(ctx, variant, nside=3, seed=None):
    """The "histories" quantifier: a run must not depend on what the process did before.  In ONE process: image A
    (beam 1), then B (same pixels, another beam: through the header or through the beam= override), then A, then B
    again; every B must equal B in a fresh interpreter and every A the first A, apart from uuids.  docov=True,
    small islands (the grid has 1-6 pixel islands and compact sources)."""
    seed = 8000 + ctx.seed if seed is None else seed
    cd = 1 / 360.
    forced = dict(rms=0.05, bkg=0.0)
    spec_a = image_spec('grid', seed, nside)
    if variant in ('header-beam', 'same-file'):
        spec_b = dict(spec_a, hdr=dict(bmaj=5.5, bmin=2.6, bpa=-40.0))
        if variant == 'same-file':       # ... and other pixels, written over the SAME file name between the runs
            spec_b['seed'] = seed + 1
        opts_b = dict(forced)
    else:
        spec_b = dict(spec_a)
        opts_b = dict(forced, beam_override=[5.5 * cd, 2.6 * cd, -40.0])
    case = dict(scenario='history-' + variant, mode='blind', image=spec_b, opts=opts_b, before=dict(image=spec_a, opts=forced))
    J = Judge(ctx, case)
    label = f"history[{variant}]"
    sig = dict(site='reproducible', what='history-dependence', variant=variant)
    try:
        same = variant == 'same-file'
        path_a, _ = write_image(ctx, spec_a, 'hist' if same else 'histA')
        a1, _, _ = run_blind(path_a, forced, record=False)
        path_b, _ = write_image(ctx, spec_b, 'hist' if same else 'histB')
        b1, _, _ = run_blind(path_b, opts_b, record=False)
        if same:
            write_image(ctx, spec_a, 'hist')
        a2, _, _ = run_blind(path_a, forced, record=False)
        if same:
            write_image(ctx, spec_b, 'hist')
        b2, _, _ = run_blind(path_b, opts_b, record=False)
        if same:
            write_image(ctx, spec_a, 'hist')
        cat = [s for s in a1 if hasattr(s, 'source')]
        p1 = p2 = pb = None
        if cat:
            popts = dict(forced, stage=3, doregroup=False)
            p1, _, _ = run_prior(path_a, cat, popts, record=False)
            if same:
                write_image(ctx, spec_b, 'hist')
            pb, _, _ = run_prior(path_b, cat, dict(opts_b, stage=3, doregroup=False), record=False)
            if same:
                write_image(ctx, spec_a, 'hist')
            p2, _, _ = run_prior(path_a, cat, popts, record=False)
    except Exception as e:  # noqa: BLE001
        J.fail('spec', f"{label}: aborted with {type(e).__name__}: {e}", dict(site='find_sources_in_image', clause='aborts',
                                                                            exc=type(e).__name__, cause='history'))
        ctx.case(case)
        return
    for nm, x, y in (('A, then B, then A again', a1, a2), ('B, then A, then B again', b1, b2)) + \
            ((('priorized A, then priorized B, then priorized A again', p1, p2),) if p1 is not None else ()):
        d = diff_canon(canon(x), canon(y))
        if d:
            J.fail('spec', f"{label}: {nm} in one process: the two catalogues of the same input differ: {d}",
                   dict(sig, clause='in-process-interleaved'))
    child_run(ctx, J, label, dict(kind='blind', image=spec_b, opts=opts_b), b1, sig=dict(sig, clause='warm-vs-fresh'),
              what='B after A in a warm process vs B in a fresh process')
    if pb is not None and not ctx.quick:
        child_run(ctx, J, label, dict(kind='prior', image=spec_b, opts=dict(opts_b, stage=3, doregroup=False),
                                      catalogue=[src_to_dict(s) for s in cat]), pb, sig=dict(sig, clause='warm-vs-fresh-priorized'),
                  what='priorized B after A in a warm process vs in a fresh process')
    if diff_canon(canon(a1), canon(b1)) is None:
        ctx.note(f"{label}: A and B gave identical catalogues - the beam change had no effect, the scenario is vacuous")
    J.flush()
    ctx.count('history-runs')
    ctx.case(case, nontrivial_key=('history', variant, ctx.seed))


def scenario_blind(ctx, tag, spec, opts, rerun=True, child=False, roundtrip=False, batch=None, debug=False, thread=False):
    case = dict(scenario=tag, mode='blind', image=spec, opts={k: v for k, v in opts.items()})
    J = Judge(ctx, case) if batch is None else batch.sub(case)
    path, img = write_image(ctx, spec, tag)
    truth = (img - np.float32(opts.get('bkg', 0.0)), opts['rms']) if opts.get('rms') else None
    if opts.get('maps') and spec['kind'] == 'step':
        _, rmsmap, bkgmap = step_maps(spec)
        truth = (img - bkgmap, rmsmap)
    label = f"blind[{tag}]"
    try:
        out, rec, sf = run_blind(path, opts)
    except Exception as e:  # noqa: BLE001
        J.fail('spec', f"{label}: find_sources_in_image aborted with {type(e).__name__}: {e}",
               dict(site='find_sources_in_image', clause='aborts', exc=type(e).__name__, cause=abort_cause(e, spec)))
        ctx.case(case)
        return None, path
    comps = [s for s in out if hasattr(s, 'source')]
    judge_blind(J, out, rec, sf, opts, label, truth)
    if rerun:
        rerun_and_diff(ctx, J, label, 'blind', path, opts, out)
    if debug:
        debug_rerun(ctx, J, label, 'blind', path, opts, out)
    if thread:
        thread_rerun(ctx, J, label, 'blind', path, opts, out)
    if child:
        child_run(ctx, J, label, dict(kind='blind', image=spec, opts=opts), out)
    if roundtrip:
        save_roundtrip(ctx, J, label, comps)
    if batch is None:
        J.flush()
    ctx.count('blind-runs')
    ctx.count('component-rows', len(comps))
    ctx.count('island-rows', len(out) - len(comps))
    ctx.count('islands-detected', len(rec.fits))
    case['rows'] = len(out)
    ctx.case(case, nontrivial_key=nontrivial_key((tag, 'blind', json.dumps(opts, sort_keys=True, default=str), spec['seed']), comps))
    return comps, path


def scenario_prior(ctx, tag, spec, path, inp, opts, rerun=True, child=False, roundtrip=False, debug=False, thread=False):
    case = dict(scenario=tag, mode='priorized', image=spec, opts=dict(opts), n_input=len(inp))
    J = Judge(ctx, case)
    label = f"priorized[{tag} stage={opts.get('stage', 3)} regroup={opts.get('doregroup', True)}]"
    try:
        out, rec, sf = run_prior(path, inp, opts)
    except Exception as e:  # noqa: BLE001
        cause = 'other'
        if isinstance(e, ValueError) and 'NaN values detected' in str(e) and any(float(s.peak_flux) == 0 for s in inp):
            cause = 'input-row-with-peak_flux-0 (the Jacobian divides by amp)'
        J.fail('spec', f"{label}: priorized_fit_islands aborted with {type(e).__name__}: {e}",
               dict(site='priorized_fit_islands', clause='aborts', exc=type(e).__name__, cause=cause))
        ctx.case(case)
        return None
    judge_prior(J, out, rec, sf, opts, inp, label)
    ctx.count('priorized-input-catalogue-checked-for-mutation')
    if getattr(sf, '_verif_mutated', None):
        import re
        mcols = re.search(r'columns \[([0-9, ]*)\]', sf._verif_mutated)
        only_ab = bool(mcols) and set(int(v) for v in mcols.group(1).split(',')) <= {1, 2, 16, 18}
        J.fail('spec', f"{label}: priorized_fit_islands modified the caller's input catalogue: {sf._verif_mutated}"
               + (" (a, b / island, source: the caller's objects are resized and regrouped in place)" if only_ab else ""),
               dict(site='priorized_fit_islands', what='argument-mutated',
                    cause='input-catalogue-modified-in-place' if only_ab else 'other'))
    if rerun:
        rerun_and_diff(ctx, J, label, 'prior', path, opts, out, catalogue=inp)
    if debug:
        debug_rerun(ctx, J, label, 'prior', path, opts, out, catalogue=inp)
    if thread:
        thread_rerun(ctx, J, label, 'prior', path, opts, out, catalogue=inp)
    if child:
        child_run(ctx, J, label, dict(kind='prior', image=spec, opts=opts, blind_opts=case.get('blind_opts'),
                                      catalogue=[src_to_dict(s) for s in inp]), out, other_env=True)
    if roundtrip:
        save_roundtrip(ctx, J, label, out)
    J.flush()
    ngroups = sum(len(c['sizes']) for c in rec.refits)
    ctx.count('priorized-runs')
    ctx.count('priorized-groups', ngroups)
    ctx.count('component-rows', len(out))
    if ngroups > 20:
        ctx.count('priorized-runs-with->20-groups')
    case['rows'] = len(out)
    case['groups'] = ngroups
    ctx.case(case, nontrivial_key=nontrivial_key((tag, 'prior', json.dumps(opts, sort_keys=True), spec['seed']), out, ngroups > 20))
    return out


SRC_FIELDS = ['island', 'source', 'background', 'local_rms', 'ra_str', 'dec_str', 'ra', 'err_ra', 'dec', 'err_dec',
              'peak_flux', 'err_peak_flux', 'int_flux', 'err_int_flux', 'a', 'err_a', 'b', 'err_b', 'pa', 'err_pa', 'flags',
              'residual_mean', 'residual_std', 'uuid', 'psf_a', 'psf_b', 'psf_pa']


def src_to_dict(s):
    d = {}
    for k in SRC_FIELDS:
        v = getattr(s, k)
        d[k] = (F(v) if isinstance(v, (float, np.floating)) else (int(v) if isinstance(v, (int, np.integer)) else v))
    return d


def dict_to_src(d):
    from AegeanTools.models import ComponentSource
    s = ComponentSource()
    for k, v in d.items():
        if isinstance(v, str) and len(v) == 17 and v[0] == 'x' and k not in ('uuid', 'ra_str', 'dec_str'):
            v = common.h2f(v)
        setattr(s, k, v)
    return s


def user_catalogue(comps):
    """what a user builds from a table of positions, fluxes and shapes: fresh ComponentSource objects, everything else at
    its constructor default (err_* = NaN, psf_* = NaN)"""
    from AegeanTools.models import ComponentSource
    out = []
    for c in comps:
        s = ComponentSource()
        s.island, s.source = int(c.island), int(c.source)
        for k in ('ra', 'dec', 'peak_flux', 'a', 'b', 'pa'):
            setattr(s, k, float(getattr(c, k)))
        out.append(s)
    return out


def synthetic_catalogue(n, spacing=12, nside=None, blend_every=0):
    """n isolated point-like input sources on a grid of an nside*40 image (for the istart search)"""
    from AegeanTools.models import ComponentSource
    from AegeanTools.wcs_helpers import WCSHelper
    npix = max(64, nside * 40)
    wh = WCSHelper.from_header(make_header(npix))
    per = npix // spacing - 1
    out = []
    for k in range(n):
        x, y = spacing * (1 + k % per), spacing * (1 + k // per)
        ra, dec = wh.pix2sky([x + 1, y + 1])
        s = ComponentSource()
        s.island, s.source = k + 1, 0
        s.ra, s.dec = float(ra), float(dec)
        s.peak_flux = 1.0 + 0.01 * k
        s.a, s.b, s.pa = 40.0, 30.0, 20.0
        s.psf_a, s.psf_b, s.psf_pa = 40.0, 30.0, 20.0
        s.err_ra = s.err_dec = s.err_a = s.err_b = s.err_pa = -1
        s.err_peak_flux = s.err_int_flux = -1
        s.int_flux = s.peak_flux
        s.flags = 0
        out.append(s)
    return out, npix


def scenario_istart(ctx, n, stage=1, regroup=False, reject=()):
    """n isolated catalogue sources refitted on an image that holds them: the smallest input on which the
    batch start matters is n = 21.  `reject`: indices of catalogue sources that the refit must reject — even
    ones are moved off the image, odd ones sit on blanked (NaN) pixels — so that a group in a non-final batch
    consumes an island number without producing a row."""
    from astropy.io import fits
    cat, npix = synthetic_catalogue(n, nside=4)
    from AegeanTools.wcs_helpers import WCSHelper
    wh = WCSHelper.from_header(make_header(npix))
    srcs, blank = [], []
    for k, s in enumerate(cat):
        x, y = wh.sky2pix([s.ra, s.dec])
        srcs.append((x - 1, y - 1, s.peak_flux, 1.7, 1.3, 20.0))
        if k in reject and k % 2 == 1:
            blank.append((int(round(x - 1)), int(round(y - 1))))
        elif k in reject:
            ra, dec = wh.pix2sky([-40.0 - 3 * k, -40.0])
            s.ra, s.dec = float(ra), float(dec)
    img = render(npix, srcs).astype(np.float32)
    for (bx, by) in blank:
        img[max(0, bx - 4):bx + 5, max(0, by - 4):by + 5] = np.nan
    path = os.path.join(ctx.tmpdir(), f'c03_istart_{n}_{len(reject)}.fits')
    with warnings.catch_warnings():
        warnings.simplefilter('ignore')
        fits.PrimaryHDU(img, make_header(npix)).writeto(path, overwrite=True)
    spec = dict(kind='istart-grid', seed=0, nside=4, n=n, reject=list(reject))
    opts = dict(rms=0.05, bkg=0.0, stage=stage, doregroup=regroup)
    tag = f'istart{n}' + (f'-reject{"_".join(str(r) for r in reject)}' if reject else '')
    out = scenario_prior(ctx, tag, spec, path, cat, opts, rerun=False)
    if out is not None and reject:
        ctx.count('priorized-runs-with-rejected-sources-in-non-final-batches')
        if len(out) != n - len(reject):
            ctx.note(f"{tag}: expected {n - len(reject)} rows, got {len(out)} (the rejected sources were not rejected?)")
    return out


def direct_errors(ctx):
    """fitting.errors called directly on every class of stderr (None, NaN, inf, the −2 filler, 0, huge, positive)"""
    import lmfit
    from AegeanTools import fitting
    from AegeanTools.models import ComponentSource
    from AegeanTools.wcs_helpers import WCSHelper
    wh = WCSHelper.from_header(make_header(200))
    rng = ctx.rng
    classes = {'pos': 0.05, 'neg': -2, 'nan': float('nan'), 'inf': float('inf'), 'zero': 0.0, 'none': None, 'huge': 1e9}
    J = Judge(ctx, dict(scenario='direct-errors'))
    combos = []
    names = list(classes)
    for amp in names:
        combos.append((amp, 'pos', 'pos', 'pos', 'pos', 'pos', True, True, True, 0))
    for c in names:
        combos.append(('pos', c, 'pos', 'pos', 'pos', 'pos', True, True, True, 0))
        combos.append(('pos', 'pos', 'pos', c, 'pos', 'pos', True, True, True, 0))
        combos.append(('pos', 'pos', 'pos', 'pos', 'pos', c, True, True, True, 0))
        combos.append((c, c, c, c, c, c, True, True, True, 0))
    for _ in range(40 if ctx.quick else 400):
        combos.append(tuple(rng.choice(names) for _ in range(6)) + (rng.random() < .7, rng.random() < .7, rng.random() < .7,
                                                                    rng.choice([0, 0, 0, 2, 16, 4, 5, 32, 64])))
    for (ca, cx, cy, csx, csy, cth, vp, vs, vt, fl) in combos:
        # a varying parameter always has a stderr that is a number (covar_errors assigns onesigma); None only when fixed
        st = dict(amp=classes[ca], xo=classes[cx], yo=classes[cy], sx=classes[csx], sy=classes[csy], theta=classes[cth])
        vary = dict(amp=True, xo=vp, yo=vp, sx=vs, sy=vs, theta=vt)
        if any(st[k] is None and vary[k] for k in st):
            continue
        params = lmfit.Parameters()
        vals = dict(amp=2.0, xo=100.0, yo=90.0, sx=2.0, sy=1.5, theta=30.0)
        for k in vals:
            params.add('c0_' + k, value=vals[k], vary=vary[k])
            params['c0_' + k].stderr = st[k]
        params.add('components', value=1, vary=False)
        src = ComponentSource()
        src.source, src.island, src.flags = 0, 1, fl
        src.peak_flux, src.int_flux, src.a, src.b, src.pa = 2.0, 2.5, 50.0, 40.0, 30.0
        rec = Recorder()
        rec.errs = []
        case = dict(scenario='direct-errors', stderr={k: (v if v is None or v == v else 'nan') for k, v in st.items()},
                    vary=vary, flags=fl)
        try:
            # go through the same recording wrapper as the pipeline does
            from AegeanTools import source_finder as sfm
            rec.install()
            try:
                sfm.errors(src, params, wh)
            finally:
                rec.remove()
        except Exception as e:  # noqa: BLE001
            J.fail('spec', f"fitting.errors raised {type(e).__name__}: {e} on stderr {st} vary {vary} flags {fl}",
                   dict(site='fitting.errors', clause='raises', exc=type(e).__name__), case)
            ctx.case(case)
            continue
        judge_errors(J.sub(case), rec, 'direct')
        # Spec on the outputs
        bad = {k: v for k, v in rec.errs[0]['out'].items() if not (v == -1 or (isinstance(v, (int, float, np.floating)) and v > 0 and math.isfinite(v)))}
        if bad:
            J.fail('spec', f"fitting.errors reports {bad} for stderr {st}, vary {vary}, flags {fl}: neither positive-and-finite nor -1",
                   dict(site='fitting.errors', clause='uncertainty', cls=sorted({xclass(v) for v in bad.values()})[0]), case)
        ctx.count('direct-errors-calls')
        nt = any(c not in ('pos',) for c in (ca, cx, cy, csx, csy, cth))
        ctx.case(case, nontrivial_key=('errors', ca, cx, cy, csx, csy, cth, vp, vs, vt, fl) if nt else None)
    J.flush()


def range_helpers(ctx):
    """pa_limit / fix_shape / the RA wrap on random floats, implementation vs Lean model (exact)"""
    from AegeanTools import source_finder as sfm
    rng = ctx.rng
    xs = [-90.0, 90.0, -270.0, 270.0, 450.0, -450.0, 0.0, 89.99999999999999, -89.99999999999999, 90.00000000000001, 180.0,
          -180.0]
    xs += [rng.uniform(-720, 720) for _ in range(200 if ctx.quick else 3000)]
    lines = [f"palimit {F(x)}" for x in xs]
    outs = ctx.driver.batch(lines)
    for x, o in zip(xs, outs):
        got = sfm.pa_limit(x)
        case = dict(scenario='pa_limit', pa=x)
        if F(got) != o:
            ctx.fail('corr', case, f"pa_limit({x!r}) = {got!r}, model {common.h2f(o)!r}", dict(site='pa_limit', what='value'))
        if not (-90 < got <= 90) or abs(((got - x) / 180.0) - round((got - x) / 180.0)) > 1e-9:
            ctx.fail('spec', case, f"pa_limit({x!r}) = {got!r} is not in (-90, 90] / not congruent mod 180",
                     dict(site='pa_limit', clause='range'))
        ctx.case(case, nontrivial_key=('pa', x) if abs(x) > 90 else None)

    ras = [-0.0, 0.0, -1e-300, -360.0, 359.99999999999994, -1e-17] + [rng.uniform(-360, 360) for _ in range(100)]
    outs = ctx.driver.batch([f"rawrap {F(x)}" for x in ras])
    for x, o in zip(ras, outs):
        got = x + 360 if x < 0 else x       # the statement in result_to_components (sliced by the translator)
        case = dict(scenario='ra_wrap', ra=x)
        if F(got) != o:
            ctx.fail('corr', case, f"ra wrap of {x!r}: python semantics {got!r}, regenerated model {common.h2f(o)!r}",
                     dict(site='ra_wrap', what='value'))
        ctx.case(case, nontrivial_key=('ra', x) if x < 0 else None)

    class S:
        pass
    shapes = [(rng.uniform(1, 100), rng.uniform(1, 100), rng.uniform(-180, 180), rng.uniform(0, 1), rng.uniform(0, 1))
              for _ in range(100 if ctx.quick else 1000)] + [(5.0, 5.0, 10.0, 1.0, 2.0)]
    outs = ctx.driver.batch(["fixshape " + " ".join(F(v) for v in sh) for sh in shapes])
    for sh, o in zip(shapes, outs):
        s = S()
        s.a, s.b, s.pa, s.err_a, s.err_b = sh
        sfm.fix_shape(s)
        got = [F(v) for v in (s.a, s.b, s.pa, s.err_a, s.err_b)]
        case = dict(scenario='fix_shape', shape=list(sh))
        if got != o.split():
            ctx.fail('corr', case, f"fix_shape{sh} = {(s.a, s.b, s.pa, s.err_a, s.err_b)}, model {[common.h2f(t) for t in o.split()]}",
                     dict(site='fix_shape', what='value'))
        if not s.a >= s.b:
            ctx.fail('spec', case, f"fix_shape{sh} leaves a < b", dict(site='fix_shape', clause='order'))
        ctx.case(case, nontrivial_key=('shape',) + sh if sh[0] < sh[1] else None)


# ------------------------------------------------------------------------------------------------
# entry points
# ------------------------------------------------------------------------------------------------

def run(ctx):
    common.use_repo()
    try:
        from threadpoolctl import threadpool_limits
        threadpool_limits(1)
    except Exception:  # noqa: BLE001
        pass
    np.seterr(all='ignore')
    q = ctx.quick
    seed = ctx.seed
    forced = dict(rms=0.05, bkg=0.0)

    # corpus: the minimal witnesses of the ledger items and of the open findings (run first, every time)
    scenario_istart(ctx, 21, stage=1, regroup=False)
    scenario_istart(ctx, 25, stage=1, regroup=False, reject=(3, 8))     # numbers consumed without rows, batch 0
    scenario_istart(ctx, 47, stage=2, regroup=True, reject=(0, 19, 20, 33))
    scenario_injected_nan(ctx, 'blind')
    scenario_injected_nan(ctx, 'priorized')
    # an all-negative and a positive island with island rows (peak pixel of a negative island = its minimum)
    scenario_blind(ctx, 'neg-island', dict(kind='pair', seed=0, nside=2), dict(rms=0.05, bkg=0.0, doislandflux=True), rerun=False,
                   debug=True)
    # mixed-sign islands (positive source touching a deeper / shallower negative bowl, both axes) and an all-negative blend
    scenario_blind(ctx, 'mixed-island', dict(kind='mixed', seed=0, nside=3), dict(rms=0.05, bkg=0.0, doislandflux=True), rerun=False)
    # the same with CRVAL1 = -10 (wcslib then reports longitudes in (-360, 0]) and CRVAL1 = 370
    for ra0 in (-10.0, 370.0):
        scenario_blind(ctx, f'neg-island-crval{int(ra0)}', dict(kind='pair', seed=0, nside=2, ra0=ra0),
                       dict(rms=0.05, bkg=0.0, doislandflux=True), rerun=False)
    # noise and background maps from files, with a step (mosaic tile boundary) inside blended islands
    for ra0 in (150.0, -10.0):
        spec_s = dict(kind='step', seed=20240305 + ctx.seed, nside=3, ra0=ra0)
        cs, ps = scenario_blind(ctx, f'step-maps{int(ra0)}', spec_s, dict(maps=True, doislandflux=True), rerun=False,
                                debug=(ra0 > 0))
        if cs:
            scenario_prior(ctx, f'step-maps{int(ra0)}', spec_s, ps, cs, dict(maps=True, stage=3 if ra0 > 0 else 2,
                                                                            doregroup=(ra0 < 0)), rerun=False, debug=(ra0 > 0))
    # a coarse psf map (imgpsf=): blends straddle its cell boundaries, so the components of one island have different
    # local beams; blind (+ island flux) and priorized; also called from a worker thread
    spec_p = dict(kind='psfmap', seed=0, nside=3)
    cp, pp = scenario_blind(ctx, 'psf-map', spec_p, dict(rms=0.05, bkg=0.0, psfmap=True, doislandflux=True), rerun=False, thread=True)
    if cp:
        scenario_prior(ctx, 'psf-map', spec_p, pp, cp, dict(rms=0.05, bkg=0.0, psfmap=True, stage=3, doregroup=True), rerun=False,
                       thread=True)
        # a catalogue built by the user from positions, fluxes and shapes only: the uncertainties keep their default (NaN).
        # The run must complete and every other clause hold; the copied uncertainties come back as the input had them
        for stage in (1, 2, 3):
            bare = user_catalogue(cp)
            scenario_prior(ctx, f'user-catalogue-stage{stage}', spec_p, pp, bare,
                           dict(rms=0.05, bkg=0.0, psfmap=True, stage=stage, doregroup=False), rerun=False)
        # forced photometry: the flux of one input row is unknown and given as 0 (open finding C03-zero-flux-input-aborts)
        zero = user_catalogue(cp)
        zero[2].peak_flux = 0.0
        scenario_prior(ctx, 'zero-flux-input', spec_p, pp, zero, dict(rms=0.05, bkg=0.0, psfmap=True, stage=1, doregroup=False),
                       rerun=False)
    # an island of more than 1000 pixels
    scenario_blind(ctx, 'big-island', dict(kind='big', seed=0, nside=4), dict(rms=0.05, bkg=0.0, doislandflux=True), rerun=False)
    scenario_history(ctx, 'header-beam')
    scenario_history(ctx, 'beam-override')
    scenario_history(ctx, 'same-file')
    scenario_reuse(ctx)
    scenario_options(ctx)
    scenario_blind(ctx, 'tiny-units', dict(image_spec('grid', 31, 2), scale=1e-15), dict(rms=0.05e-15, bkg=0.0), rerun=False)

    range_helpers(ctx)
    direct_errors(ctx)

    # S0: an image with no islands
    scenario_blind(ctx, 'empty', image_spec('empty', seed, 2), dict(forced), rerun=False)

    # S1: ~36 cells: isolated, blends, tiny islands, negative sources
    k = 6 if q else 9
    spec = image_spec('grid', 1000 + seed, k)
    comps, path = scenario_blind(ctx, 'grid', spec, dict(forced), child=True, roundtrip=True)
    scenario_blind(ctx, 'grid-island', spec, dict(forced, doislandflux=True), rerun=not q)
    scenario_blind(ctx, 'grid-maxsummits1', spec, dict(forced, max_summits=1), rerun=False)
    if not q:
        scenario_blind(ctx, 'grid-nocov', spec, dict(forced, docov=False), rerun=True)
        scenario_blind(ctx, 'grid-maxsummits2', spec, dict(forced, max_summits=2, doislandflux=True), rerun=False)

    # S2: priorized on the blind catalogue of S1 (> 20 groups), stages 1-3, regroup on/off
    if comps:
        first = True
        for stage in (1, 2, 3):
            for regroup in ((False, True) if (not q or stage == 3) else (bool(stage % 2),)):
                outp = scenario_prior(ctx, 'grid', spec, path, comps, dict(forced, stage=stage, doregroup=regroup),
                                      rerun=(first or not q), child=(first and True), roundtrip=(stage == 3 and regroup))
                first = False
        # a priorized catalogue refitted again (its rows already carry PRIORIZED)
        if outp:
            scenario_prior(ctx, 'grid-again', spec, path, outp, dict(forced, stage=2, doregroup=False), rerun=False)

    # S2b: a second grid (other seed): island flux + priorized stage 2 with regrouping, fresh-process re-run
    spec2 = image_spec('grid', 1500 + seed, 8, ra0=-10.0)      # 320 x 320 = 102400 pixels (> 2^16), CRVAL1 < 0
    comps2, path2 = scenario_blind(ctx, 'grid2-island', spec2, dict(forced, doislandflux=True), rerun=False)
    if comps2:
        scenario_prior(ctx, 'grid2', spec2, path2, comps2, dict(forced, stage=2, doregroup=True), rerun=False, child=not q,
                       debug=True)

    # S2c: cut-outs of wide mosaics: the projection's reference pixel is 12-25 degrees outside the image, so the
    # local pixel->sky scale (and with it a, b and the local psf) differs from CDELT / the header beam by several
    # per cent; int_flux = peak*a*b/(psf_a*psf_b) must still hold within 1 % between the reported columns
    wide = [('SIN', (2000.0, 0.0), 30.0), ('TAN', (-900.0, 1200.0), 45.0), ('ARC', (0.0, -1000.0), 60.0),
            ('ZEA', (1400.0, 1400.0), 30.0), ('STG', (-1800.0, 300.0), 40.0), ('SIN', (-1500.0, -1500.0), 60.0)]
    for gi, (proj, off, arcsec) in enumerate(wide[:(2 if q else len(wide))]):
        spec_g = dict(image_spec('grid', 7000 + 10 * seed + gi, 3 if q else 5, ra0=(150.0, -10.0)[gi % 2]),
                      hdr=dict(proj=proj, crpix_off=list(off), cd=arcsec / 3600., bmaj=4.5, bmin=3.5, bpa=30.0))
        cg, pg = scenario_blind(ctx, f'wide-{proj}{gi}', spec_g, dict(forced, doislandflux=(not q or gi == 1)),
                                rerun=False, child=(gi == 0 and not q))
        ctx.count('wide-offset-geometry-runs')
        if cg:
            scenario_prior(ctx, f'wide-{proj}{gi}', spec_g, pg, cg, dict(forced, stage=3 - gi % 2, doregroup=bool(gi % 2)),
                           rerun=False)

    # S3: internal BANE (no forced rms/bkg) on a small noisy field with a few sources
    spec_b = image_spec('grid', 2000 + seed, 4)
    img, n = build_image(spec_b)
    rngn = np.random.default_rng(77 + seed)
    from astropy.io import fits
    pathb = os.path.join(ctx.tmpdir(), 'c03_bane.fits')
    with warnings.catch_warnings():
        warnings.simplefilter('ignore')
        fits.PrimaryHDU((img + rngn.normal(0, 0.02, img.shape)).astype(np.float32), make_header(n)).writeto(pathb, overwrite=True)
    case = dict(scenario='bane', mode='blind', image=dict(spec_b, noise=0.02, noise_seed=77 + seed), opts={})
    J = Judge(ctx, case)
    try:
        out, rec, sf = run_blind(pathb, {})
        judge_blind(J, out, rec, sf, {}, 'blind[bane]')
        rerun_and_diff(ctx, J, 'blind[bane]', 'blind', pathb, {}, out)
        J.flush()
        ctx.count('blind-runs')
        ctx.count('component-rows', len(out))
        ctx.case(case, nontrivial_key=nontrivial_key(('bane', seed), out))
    except Exception as e:  # noqa: BLE001
        J.fail('spec', f"blind[bane]: find_sources_in_image aborted with {type(e).__name__}: {e}",
               dict(site='find_sources_in_image', clause='aborts', exc=type(e).__name__))
        ctx.case(case)

    # S4: low-threshold noise field: many marginal / singular fits (error masking under stress)
    for t in range(2 if q else 8):
        spec_n = image_spec('noise', 3000 + 10 * seed + t, 4 if q else 8)
        scenario_blind(ctx, f'noise{t}', spec_n, dict(rms=1.0, bkg=0.0, innerclip=3.0, outerclip=2.5), rerun=(t == 0))

    if not q:
        # hundreds of islands, near the pole and across RA = 0
        spec_l = image_spec('grid', 4000 + seed, 18)
        compl, pathl = scenario_blind(ctx, 'large', spec_l, dict(forced), rerun=False, child=True)
        if compl:
            scenario_prior(ctx, 'large', spec_l, pathl, compl, dict(forced, stage=3, doregroup=True), rerun=False, child=True)
            scenario_prior(ctx, 'large', spec_l, pathl, compl, dict(forced, stage=1, doregroup=False), rerun=True)
        for (ra0, dec0, tg) in ((0.02, 10.0, 'ra0'), (200.0, 88.5, 'pole'), (359.99, -45.0, 'ra360')):
            spec_w = image_spec('grid', 5000 + seed, 5, ra0=ra0, dec0=dec0)
            compw, pathw = scenario_blind(ctx, 'wrap-' + tg, spec_w, dict(forced, doislandflux=True), rerun=False, roundtrip=True)
            if compw:
                scenario_prior(ctx, 'wrap-' + tg, spec_w, pathw, compw, dict(forced, stage=2, doregroup=True), rerun=False)
        for n in (20, 22, 41, 45, 61, 100):
            scenario_istart(ctx, n, stage=1 + n % 3, regroup=bool(n % 2))
        for extra in range(1, 5):
            spec_e = image_spec('grid', 6000 + 10 * seed + extra, 10)
            oe = dict(forced, doislandflux=(extra % 2 == 0))
            if extra == 3:
                oe['max_summits'] = 2
            ce, pe = scenario_blind(ctx, f'grid-x{extra}', spec_e, oe, rerun=(extra == 1))
            if ce:
                scenario_prior(ctx, f'grid-x{extra}', spec_e, pe, ce, dict(forced, stage=1 + extra % 3, doregroup=bool(extra % 2)),
                               rerun=False, roundtrip=(extra == 4))
    else:
        spec_w = image_spec('grid', 5000 + seed, 3, ra0=0.02, dec0=10.0)
        scenario_blind(ctx, 'wrap-ra0', spec_w, dict(forced), rerun=False)


def search(ctx):
    """look for a concrete input on which the real code violates the Spec"""
    common.use_repo()
    if any(f['kind'] == 'spec' for f in ctx.failures):
        return
    np.seterr(all='ignore')
    for n in (21, 22, 25, 30, 41, 45):
        scenario_istart(ctx, n, stage=1, regroup=False)
        if any(f['kind'] == 'spec' for f in ctx.failures):
            return
    # a batch start that depends on what earlier batches produced: groups that yield no row (rejected
    # sources) or several rows in a non-final batch
    for n, rej in ((21, (0,)), (21, (19,)), (25, (3, 8)), (30, (1, 2, 5)), (45, (10, 25)), (61, (4, 21, 44))):
        scenario_istart(ctx, n, stage=1, regroup=False, reject=rej)
        if any(f['kind'] == 'spec' for f in ctx.failures):
            return
    direct_errors(ctx)
    if any(f['kind'] == 'spec' for f in ctx.failures):
        return
    for t in range(6):
        spec_n = image_spec('noise', 9000 + t, 8)
        scenario_blind(ctx, f'search-noise{t}', spec_n, dict(rms=1.0, bkg=0.0, innerclip=3.0, outerclip=2.5), rerun=False)
        if any(f['kind'] == 'spec' for f in ctx.failures):
            return


def replay(ctx, rec):
    common.use_repo()
    np.seterr(all='ignore')
    c = rec['case'] or {}
    sc = c.get('scenario', '')
    if sc == 'direct-errors':
        direct_errors(ctx)
    elif sc in ('pa_limit', 'fix_shape'):
        range_helpers(ctx)
    elif sc.startswith('istart'):
        scenario_istart(ctx, int(c['image']['n']), stage=c['opts'].get('stage', 1), regroup=c['opts'].get('doregroup', False),
                        reject=tuple(c['image'].get('reject', ())))
    elif sc == 'injected-nan-model':
        scenario_injected_nan(ctx, c.get('mode', 'blind'))
    elif sc.startswith('opt') and sc[3:].isdigit():
        scenario_blind(ctx, sc, c['image'], c['opts'], rerun=False)
    elif sc == 'reuse-catalogue':
        scenario_reuse(ctx)
    elif sc.startswith('history-'):
        scenario_history(ctx, sc[len('history-'):], seed=c['image'].get('seed'))
    elif c.get('mode') == 'blind' and sc != 'bane':
        scenario_blind(ctx, sc, c['image'], c['opts'], rerun=True)
    elif c.get('mode') == 'priorized':
        comps, path = scenario_blind(ctx, sc, c['image'], {k: v for k, v in c['opts'].items() if k in ('rms', 'bkg')}, rerun=False)
        if comps and sc.endswith('-again'):
            comps = scenario_prior(ctx, sc, c['image'], path, comps, dict(c['opts'], stage=3, doregroup=True), rerun=False)
        if comps:
            scenario_prior(ctx, sc, c['image'], path, comps, c['opts'])
    else:
        run(ctx)


# ------------------------------------------------------------------------------------------------
# fresh-process child
# ------------------------------------------------------------------------------------------------

class _ChildCtx:
    def __init__(self):
        import tempfile
        self._t = tempfile.mkdtemp(prefix='verif-C03-child-', dir='/dev/shm' if os.path.isdir('/dev/shm') else '/var/tmp')

    def tmpdir(self):
        return self._t


def child_main(jobfile, outfile):
    import shutil
    common.use_repo()
    np.seterr(all='ignore')
    job = json.load(open(jobfile))
    cctx = _ChildCtx()
    try:
        if job['image'].get('kind') == 'istart-grid':
            raise SystemExit(3)
        path, _ = write_image(cctx, job['image'], 'child')
        if job['kind'] == 'blind':
            out, _, _ = run_blind(path, job['opts'], record=False)
        else:
            cat = [dict_to_src(d) for d in job['catalogue']]
            out, _, _ = run_prior(path, cat, job['opts'], record=False)
        with open(outfile, 'w') as f:
            json.dump(canon(out), f)
    finally:
        shutil.rmtree(cctx.tmpdir(), ignore_errors=True)


if __name__ == '__main__':
    if len(sys.argv) == 4 and sys.argv[1] == '--child':
        child_main(sys.argv[2], sys.argv[3])
